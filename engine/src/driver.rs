//! Driver: runs a check's jobs through the pool, matches violations against the committed
//! known-findings file, writes replay files and the evidence file, decides the exit status.

use crate::pool::{JobResult, Pool, Violation};
use serde_json::{Value, json};
use std::collections::BTreeMap;

pub const VERIF_DIR: &str = "/verif";

pub struct Driver
{
	pub id: String,
	pub tier: String,
	pub seed: u64,
	pub pool: Pool,
	pub total: JobResult,
	pub bound: BTreeMap<String, Value>,
	pub per_phase: Vec<Value>,
	pub assumptions: Vec<String>,
	pub exhaustive: bool,
	pub cap: Option<String>,
	pub start: std::time::Instant,
	pub deadline_s: f64,
	pub extra: BTreeMap<String, Value>,
}

impl Driver
{
	pub fn quick(&self) -> bool
	{
		self.tier == "quick"
	}

	pub fn elapsed(&self) -> f64
	{
		self.start.elapsed().as_secs_f64()
	}

	pub fn time_left(&self) -> f64
	{
		self.deadline_s - self.elapsed()
	}

	pub fn bound(&mut self, key: &str, value: Value)
	{
		self.bound.insert(key.to_string(), value);
	}

	pub fn assume(&mut self, text: &str)
	{
		self.assumptions.push(text.to_string());
	}

	/// Run one phase of jobs and merge the result into the total.
	pub fn phase(&mut self, name: &str, jobs: Vec<Value>) -> JobResult
	{
		self.phase_profile(name, jobs, false)
	}

	pub fn phase_profile(&mut self, name: &str, jobs: Vec<Value>, release: bool) -> JobResult
	{
		if let Ok(only) = std::env::var("VERIF_ONLY")
		{
			if !name.contains(&only)
			{
				self.cap_hit("VERIF_ONLY development filter active");
				return JobResult::default();
			}
		}
		let t0 = std::time::Instant::now();
		let njobs = jobs.len();
		let r = self.pool.run_profile(jobs, release);
		let mut summary = r.clone();
		summary.frontier.clear();
		self.per_phase.push(json!({
			"phase": name,
			"jobs": njobs,
			"states": r.states,
			"transitions": r.transitions,
			"validated": r.validated,
			"violating_signatures": r.violations.len(),
			"frontier_out": r.frontier.len(),
			"wall_s": (t0.elapsed().as_secs_f64() * 1000.0).round() / 1000.0,
		}));
		if let Some(c) = &r.cap_hit
		{
			self.cap = Some(c.clone());
			self.exhaustive = false;
		}
		let mut m = r.clone();
		m.frontier.clear();
		self.total.merge(m);
		eprintln!(
			"[{} {}] phase {name}: jobs={njobs} states={} transitions={} violations={} ({:.1}s)",
			self.id,
			self.tier,
			r.states,
			r.transitions,
			r.violations.len(),
			t0.elapsed().as_secs_f64()
		);
		r
	}

	pub fn cap_hit(&mut self, what: &str)
	{
		self.cap = Some(what.to_string());
		self.exhaustive = false;
	}
}

#[derive(Debug, Clone)]
pub struct KnownFinding
{
	pub property: String,
	pub signature: String,
	pub what: String,
	/// A complete program that reaches the defect (panic findings only): the finding is identified
	/// by this input, so that renaming the function around the panic site does not turn it into a
	/// new violation.
	pub anchor: Option<String>,
}

pub fn load_known_findings() -> Vec<KnownFinding>
{
	let path = format!("{VERIF_DIR}/known_findings.json");
	let Ok(text) = std::fs::read_to_string(&path)
	else
	{
		return Vec::new();
	};
	let v: Value = serde_json::from_str(&text).expect("known_findings.json is not valid JSON");
	let mut out = Vec::new();
	for f in v["findings"].as_array().cloned().unwrap_or_default()
	{
		out.push(KnownFinding {
			property: f["property"].as_str().unwrap_or("").to_string(),
			signature: f["signature"].as_str().unwrap_or("").to_string(),
			what: f["what"].as_str().unwrap_or("").to_string(),
			anchor: f["anchor"].as_str().map(|s| s.to_string()),
		});
	}
	out
}

/// `panic@file::function:message` signatures that differ in the function name only.
fn same_but_function(listed: &str, seen: &str) -> bool
{
	fn parts(s: &str) -> Option<(&str, &str)>
	{
		let rest = s.strip_prefix("panic@")?;
		let (file, tail) = rest.split_once("::")?;
		let (_function, message) = tail.split_once(':')?;
		Some((file, message))
	}
	match (parts(listed), parts(seen))
	{
		(Some(a), Some(b)) => a == b,
		_ => false,
	}
}

/// For every listed panic finding of this property that records an anchor program: the signature
/// that program produces on the current tree (index into `known`, signature).
fn current_anchor_signatures(known: &[KnownFinding], id: &str) -> Vec<(usize, String)>
{
	use std::io::Write;
	let mut out = Vec::new();
	let Ok(exe) = std::env::current_exe()
	else
	{
		return out;
	};
	for (k, f) in known.iter().enumerate()
	{
		let Some(anchor) = &f.anchor
		else
		{
			continue;
		};
		if f.property != id || !f.signature.starts_with("panic@")
		{
			continue;
		}
		let child = std::process::Command::new(&exe)
			.arg("anchor-sig")
			.stdin(std::process::Stdio::piped())
			.stdout(std::process::Stdio::piped())
			.stderr(std::process::Stdio::null())
			.spawn();
		let Ok(mut child) = child
		else
		{
			continue;
		};
		if let Some(mut stdin) = child.stdin.take()
		{
			let _ = stdin.write_all(anchor.as_bytes());
		}
		if let Ok(o) = child.wait_with_output()
		{
			let text = String::from_utf8_lossy(&o.stdout);
			if let Some(line) = text.lines().rev().find(|l| l.starts_with("panic@"))
			{
				out.push((k, line.to_string()));
			}
		}
	}
	out
}

pub fn sanitize(sig: &str) -> String
{
	let mut s: String = sig
		.chars()
		.map(|c| if c.is_ascii_alphanumeric() || c == '-' || c == '.' { c } else { '_' })
		.collect();
	if s.len() > 120
	{
		let h = fnv(sig.as_bytes());
		s.truncate(100);
		s.push_str(&format!("_{h:016x}"));
	}
	s
}

pub fn fnv(bytes: &[u8]) -> u64
{
	let mut h: u64 = 0xcbf29ce484222325;
	for b in bytes
	{
		h ^= *b as u64;
		h = h.wrapping_mul(0x100000001b3);
	}
	h
}

/// Finish a run: write replay files, print VIOLATION / KNOWN-FINDING lines, write evidence.
/// Returns the process exit code.
pub fn finish(d: Driver, level_text: &str) -> i32
{
	let known = load_known_findings();
	let mut new_violations: Vec<&Violation> = Vec::new();
	let mut known_seen: Vec<(String, String)> = Vec::new();
	let mut anchors: Option<Vec<(usize, String)>> = None;
	for (sig, v) in &d.total.violations
	{
		let mut found = known.iter().find(|k| k.property == d.id && &k.signature == sig);
		if found.is_none() && sig.starts_with("panic@")
		{
			// A panic at an unlisted site: is it a listed finding whose site is now in a function
			// of another name? Run the recorded inputs of the listed panic findings on this tree.
			let current = anchors.get_or_insert_with(|| current_anchor_signatures(&known, &d.id));
			found = current
				.iter()
				.find(|(k, now)| now == sig && same_but_function(&known[*k].signature, sig))
				.map(|(k, _)| &known[*k]);
		}
		match found
		{
			Some(k) if &k.signature == sig => known_seen.push((sig.clone(), k.what.clone())),
			Some(k) => known_seen.push((sig.clone(), format!("{} (listed as {}; identified by its recorded input)", k.what, k.signature))),
			None => new_violations.push(v),
		}
	}
	let replay_dir = format!("{VERIF_DIR}/replays/{}", d.id);
	let _ = std::fs::remove_dir_all(&replay_dir);
	let _ = std::fs::create_dir_all(&replay_dir);
	for (sig, what) in &known_seen
	{
		println!("KNOWN-FINDING: property={} {} [{}]", d.id, what, sig);
	}
	new_violations.sort_by_key(|v| (v.size, v.signature.clone()));
	let mut printed = 0;
	for v in &new_violations
	{
		let path = format!("{replay_dir}/{}.json", sanitize(&v.signature));
		let body = json!({
			"property": d.id,
			"signature": v.signature,
			"case": v.case,
			"detail": v.detail,
			"count_in_run": d.total.violation_counts.get(&v.signature).copied().unwrap_or(1),
			"tier": d.tier,
		});
		std::fs::write(&path, serde_json::to_string_pretty(&body).unwrap()).unwrap();
		if printed < 40
		{
			println!("VIOLATION property={} replay={}", d.id, path);
			eprintln!("    signature: {}\n    detail: {}", v.signature, first_lines(&v.detail, 6));
			printed += 1;
		}
	}
	if new_violations.len() > printed
	{
		println!("({} further violating signatures written under {replay_dir})", new_violations.len() - printed);
	}

	// Evidence.
	let wall = d.elapsed();
	let mut samples = d.total.samples.clone();
	if samples.is_empty()
	{
		samples.push(json!("(no sample recorded)"));
	}
	let soft: BTreeMap<String, Value> = d
		.total
		.soft
		.iter()
		.map(|(k, (n, s))| (k.clone(), json!({"count": n, "sample": s})))
		.collect();
	let mut coverage = json!({
		"states": d.total.states.max(1),
		"transitions": d.total.transitions.max(1),
		"traces_validated_against_impl": d.total.validated,
		"samples": samples,
		"exhaustive": d.exhaustive && d.cap.is_none(),
		"bound": d.bound,
		"cap_hit": d.cap,
		"phases": d.per_phase,
		"distinct_outcomes": d.total.outcomes,
		"distinct_outcome_count": d.total.outcomes.len(),
		"counters": d.total.counters,
		"soft_mismatches": soft,
		"known_findings_seen": known_seen.iter().map(|(s, w)| json!({"signature": s, "what": w, "cases": d.total.violation_counts.get(s)})).collect::<Vec<_>>(),
		"new_violation_signatures": new_violations.iter().map(|v| v.signature.clone()).collect::<Vec<_>>(),
		"worker_crashes": d.pool.crashes.len(),
		"explanation": level_text,
	});
	for (k, v) in &d.extra
	{
		coverage[k] = v.clone();
	}
	let evidence = json!({
		"property_id": d.id,
		"tier": d.tier,
		"seed": d.seed,
		"level": "model_checking",
		"coverage": coverage,
		"assumptions": d.assumptions,
		"wall_s": (wall * 100.0).round() / 100.0,
		"violations": new_violations.len(),
	});
	let _ = std::fs::create_dir_all(format!("{VERIF_DIR}/evidence"));
	let path = format!("{VERIF_DIR}/evidence/{}.json", d.id);
	std::fs::write(&path, serde_json::to_string_pretty(&evidence).unwrap()).unwrap();
	eprintln!(
		"[{} {}] done: states={} transitions={} validated={} outcomes={} known={} new_violations={} wall={:.1}s evidence={}",
		d.id,
		d.tier,
		d.total.states,
		d.total.transitions,
		d.total.validated,
		d.total.outcomes.len(),
		known_seen.len(),
		new_violations.len(),
		wall,
		path
	);
	if new_violations.is_empty() { 0 } else { 1 }
}

pub fn first_lines(s: &str, n: usize) -> String
{
	let v: Vec<&str> = s.lines().take(n).collect();
	let mut out = v.join("\n            ");
	if out.len() > 1500
	{
		out.truncate(1500);
	}
	out
}
