//! Reference lexical grammar (DESIGN.md appendix A), written from the documentation only.
//! Works on bytes so that it can also judge the byte-oriented second-generation lexer.

#[derive(Debug, Clone, PartialEq, Eq)]
pub enum RKind
{
	Punct(&'static str),
	Keyword(&'static str),
	/// `return`: identifier in the first generation, keyword in the second.
	ReturnWord,
	Type(&'static str),
	Placeholder,
	Ident,
	Builtin,
	Dec(u128),
	Bit(u128),
	Suf(u128, &'static str),
	Char(u8),
	Bool(bool),
	Str(Vec<u8>),
	/// An illegal lexeme with its documented code. `at` is the byte range within which the
	/// reported error position must lie (a sub-range of the lexeme).
	Err
	{
		code: u16,
		/// The documentation leaves the exact reaction open; only agreement between the two
		/// implementations is required.
		unspecified: bool,
		/// The number of error tokens an implementation may split this lexeme into is open
		/// (non-ASCII characters outside literals).
		splittable: bool,
	},
}

#[derive(Debug, Clone, PartialEq, Eq)]
pub struct RTok
{
	pub kind: RKind,
	pub start: usize,
	pub end: usize,
	/// 1-based line number.
	pub line: usize,
	/// Byte offset of the first byte of the line.
	pub line_start: usize,
}

pub const PUNCT2: [&str; 9] = ["==", "!=", ">=", "<=", "<<", ">>", "->", "|:", ".."];
pub const PUNCT1: &str = "(){}[]<>|&^!+-*/%:;.,=";
pub const KEYWORDS: [&str; 18] = [
	"fn", "var", "const", "if", "goto", "loop", "else", "cast", "as", "import", "pub", "extern", "struct", "word8", "word16", "word32", "word64",
	"word128",
];
pub const TYPES: [&str; 14] = ["void", "bool", "char8", "i8", "i16", "i32", "i64", "i128", "u8", "u16", "u32", "u64", "u128", "usize"];
pub const INT_TYPES: [&str; 11] = ["i8", "i16", "i32", "i64", "i128", "u8", "u16", "u32", "u64", "u128", "usize"];

fn is_word_start(b: u8) -> bool
{
	b.is_ascii_alphabetic() || b == b'_'
}
fn is_word_cont(b: u8) -> bool
{
	b.is_ascii_alphanumeric() || b == b'_'
}

fn utf8_len(src: &[u8], i: usize) -> usize
{
	// Length of the (possibly invalid) sequence starting at i: a valid UTF-8 scalar, or 1.
	let b = src[i];
	let n = if b < 0x80
	{
		1
	}
	else if b >= 0xC2 && b <= 0xDF
	{
		2
	}
	else if b >= 0xE0 && b <= 0xEF
	{
		3
	}
	else if b >= 0xF0 && b <= 0xF4
	{
		4
	}
	else
	{
		return 1;
	};
	if i + n > src.len()
	{
		return 1;
	}
	if std::str::from_utf8(&src[i..i + n]).is_ok() { n } else { 1 }
}

fn static_str(options: &[&'static str], s: &[u8]) -> Option<&'static str>
{
	options.iter().copied().find(|o| o.as_bytes() == s)
}

/// Lex the whole input. Empty input yields a single E101.
pub fn lex(src: &[u8]) -> Vec<RTok>
{
	let mut out = Vec::new();
	if src.is_empty()
	{
		out.push(RTok {
			kind: RKind::Err { code: 101, unspecified: false, splittable: false },
			start: 0,
			end: 0,
			line: 1,
			line_start: 0,
		});
		return out;
	}
	let mut i = 0;
	let mut line = 1;
	let mut line_start = 0;
	while i < src.len()
	{
		// End of this line: index of '\n' or len; a '\r' directly before the '\n' belongs to the line end.
		let b = src[i];
		if b == b'\n'
		{
			i += 1;
			line += 1;
			line_start = i;
			continue;
		}
		if b == b'\r' && i + 1 < src.len() && src[i + 1] == b'\n'
		{
			i += 1;
			continue;
		}
		if b == b' ' || b == b'\t'
		{
			i += 1;
			continue;
		}
		// Content end of the current line (excluding "\r\n" / "\n").
		let mut eol = i;
		while eol < src.len() && src[eol] != b'\n'
		{
			eol += 1;
		}
		let content_end = if eol < src.len() && eol > i && src[eol - 1] == b'\r' { eol - 1 } else { eol };
		if b == b'/' && i + 1 < src.len() && src[i + 1] == b'/'
		{
			i = eol;
			continue;
		}
		let start = i;
		let mut push = |kind: RKind, end: usize| {
			out.push(RTok { kind, start, end, line, line_start });
		};
		if i + 1 < content_end
		{
			if let Some(p) = static_str(&PUNCT2, &src[i..i + 2])
			{
				push(RKind::Punct(p), i + 2);
				i += 2;
				continue;
			}
		}
		if let Some(k) = PUNCT1.find(b as char).filter(|_| b.is_ascii())
		{
			push(RKind::Punct(&PUNCT1[k..k + 1]), i + 1);
			i += 1;
			continue;
		}
		if is_word_start(b)
		{
			let mut j = i + 1;
			while j < content_end && is_word_cont(src[j])
			{
				j += 1;
			}
			let word = &src[i..j];
			let kind = if let Some(k) = static_str(&KEYWORDS, word)
			{
				RKind::Keyword(k)
			}
			else if let Some(t) = static_str(&TYPES, word)
			{
				RKind::Type(t)
			}
			else if word == b"true"
			{
				RKind::Bool(true)
			}
			else if word == b"false"
			{
				RKind::Bool(false)
			}
			else if word == b"_"
			{
				RKind::Placeholder
			}
			else if word == b"return"
			{
				// `return!` is a builtin name in the first generation and the keyword followed
				// by `!` in the second: the one documented difference. The reference treats it
				// as a single lexeme that the comparisons skip.
				if j < content_end && src[j] == b'!'
				{
					j += 1;
					// `return!=` is `return!` `=` in one and `return` `!=` in the other.
					while j < content_end && src[j] == b'='
					{
						j += 1;
					}
				}
				RKind::ReturnWord
			}
			else if j < content_end && src[j] == b'!'
			{
				j += 1;
				RKind::Builtin
			}
			else
			{
				RKind::Ident
			};
			push(kind, j);
			i = j;
			continue;
		}
		if b.is_ascii_digit()
		{
			let (kind, end) = lex_number(src, i, content_end);
			push(kind, end);
			i = end;
			continue;
		}
		if b == b'"' || b == b'\''
		{
			let (kind, end) = lex_quoted(src, i, content_end);
			push(kind, end);
			i = end;
			continue;
		}
		// Anything else is an unexpected character.
		let n = utf8_len(src, i);
		push(RKind::Err { code: 110, unspecified: false, splittable: n > 1 || b >= 0x80 }, i + n);
		i += n;
	}
	out
}

fn lex_number(src: &[u8], i: usize, content_end: usize) -> (RKind, usize)
{
	// Whole lexeme: digit followed by word characters.
	let mut end = i + 1;
	while end < content_end && is_word_cont(src[end])
	{
		end += 1;
	}
	let lexeme = &src[i..end];
	let err = |code: u16| (RKind::Err { code, unspecified: false, splittable: false }, end);
	// Split into literal part and suffix.
	let (radix, digits_from): (u32, usize) = if lexeme.len() >= 2 && lexeme[0] == b'0' && lexeme[1] == b'x'
	{
		(16, 2)
	}
	else if lexeme.len() >= 2 && lexeme[0] == b'0' && lexeme[1] == b'b'
	{
		(2, 2)
	}
	else
	{
		(10, 0)
	};
	let is_digit = |c: u8| match radix
	{
		16 => c.is_ascii_hexdigit(),
		2 => c == b'0' || c == b'1',
		_ => c.is_ascii_digit(),
	};
	let mut k = digits_from;
	let mut ndigits = 0;
	let mut value: Option<u128> = Some(0);
	if radix == 10 && lexeme[0] == b'0'
	{
		// A leading zero is the complete decimal literal `0`.
		k = 1;
		ndigits = 1;
	}
	else
	{
		while k < lexeme.len() && (is_digit(lexeme[k]) || lexeme[k] == b'_')
		{
			if lexeme[k] != b'_'
			{
				ndigits += 1;
				let d = (lexeme[k] as char).to_digit(radix).unwrap() as u128;
				value = value.and_then(|v| v.checked_mul(radix as u128)).and_then(|v| v.checked_add(d));
			}
			k += 1;
		}
	}
	let (value, suffix): (Option<u128>, &[u8]) = if radix != 10 && ndigits == 0
	{
		// `0x` / `0b` without digits: the letter is part of the suffix of the literal `0`.
		(Some(0), &lexeme[1..])
	}
	else
	{
		(value, &lexeme[k..])
	};
	let Some(value) = value
	else
	{
		return err(140);
	};
	if suffix.is_empty()
	{
		if radix == 10
		{
			return (RKind::Dec(value), end);
		}
		return (RKind::Bit(value), end);
	}
	match static_str(&INT_TYPES, suffix)
	{
		Some(t) => (RKind::Suf(value, t), end),
		None => err(141),
	}
}

fn lex_quoted(src: &[u8], i: usize, content_end: usize) -> (RKind, usize)
{
	let quote = src[i];
	let mut bytes: Vec<u8> = Vec::new();
	let mut first_error: Option<(u16, bool)> = None;
	let mut j = i + 1;
	let mut closed = false;
	while j < content_end
	{
		let c = src[j];
		if c == b'\\'
		{
			if j + 1 >= content_end
			{
				// Backslash as the last character of the line.
				first_error.get_or_insert((161, false));
				j += 1;
				break;
			}
			let e = src[j + 1];
			j += 2;
			match e
			{
				b'n' => bytes.push(b'\n'),
				b'r' => bytes.push(b'\r'),
				b't' => bytes.push(b'\t'),
				b'\\' => bytes.push(b'\\'),
				b'\'' => bytes.push(b'\''),
				b'"' => bytes.push(b'"'),
				b'0' => bytes.push(0),
				b'x' =>
				{
					if j + 2 <= content_end && src[j].is_ascii_hexdigit() && src[j + 1].is_ascii_hexdigit()
					{
						let v = u8::from_str_radix(std::str::from_utf8(&src[j..j + 2]).unwrap(), 16).unwrap();
						bytes.push(v);
						j += 2;
					}
					else
					{
						if j < content_end && src[j].is_ascii_hexdigit()
						{
							j += 1;
						}
						first_error.get_or_insert((162, false));
					}
				}
				b'u' =>
				{
					// Inside a character literal \u{...} is not an escape (pinned by the
					// repository's own test `fail_to_parse_unicode_escape_in_char`): E162.
					let mut ok = false;
					if quote == b'\''
					{
						first_error.get_or_insert((162, false));
						continue;
					}
					if j < content_end && src[j] == b'{'
					{
						let mut k = j + 1;
						while k < content_end && src[k].is_ascii_hexdigit()
						{
							k += 1;
						}
						if k < content_end && src[k] == b'}'
						{
							let digits = &src[j + 1..k];
							if (1..=6).contains(&digits.len())
							{
								let v = u32::from_str_radix(std::str::from_utf8(digits).unwrap(), 16).unwrap();
								if let Some(ch) = char::from_u32(v)
								{
									let mut buf = [0u8; 4];
									bytes.extend_from_slice(ch.encode_utf8(&mut buf).as_bytes());
									ok = true;
								}
							}
							j = k + 1;
						}
						else
						{
							j = k;
						}
					}
					if !ok
					{
						first_error.get_or_insert((162, false));
					}
				}
				_ =>
				{
					first_error.get_or_insert((162, false));
				}
			}
			continue;
		}
		if c == quote
		{
			closed = true;
			j += 1;
			break;
		}
		if c == b' ' || c.is_ascii_graphic()
		{
			bytes.push(c);
			j += 1;
		}
		else if c.is_ascii()
		{
			first_error.get_or_insert((110, false));
			j += 1;
		}
		else
		{
			bytes.push(c);
			j += 1;
		}
	}
	if !closed
	{
		first_error.get_or_insert((160, false));
		j = content_end;
	}
	if let Some((code, unspecified)) = first_error
	{
		return (RKind::Err { code, unspecified, splittable: false }, j);
	}
	if quote == b'"'
	{
		(RKind::Str(bytes), j)
	}
	else if bytes.len() == 1
	{
		(RKind::Char(bytes[0]), j)
	}
	else
	{
		// E163 is emitted by both implementations but not in the catalogue.
		(RKind::Err { code: 163, unspecified: false, splittable: false }, j)
	}
}
