//! Reference model of label scoping (docs/features.md "Scoped goto statements", E400, E420).
//!
//! A label is visible from the statements *before* it in its own block, including everything
//! nested inside those statements. So a `goto X` is legal iff a label `X` follows the goto in its
//! own block or follows the statement containing the goto in an enclosing block of the same
//! function body. A label clashes iff a label of the same name follows it in its own block, or
//! follows its enclosing statement in an enclosing block.

#[derive(Debug, Clone)]
pub enum L
{
	Label(usize /*name*/, usize /*id*/),
	Goto(usize /*name*/, usize /*id*/),
	Block(Vec<L>),
	Other,
}

#[derive(Debug, Default, Clone)]
pub struct LabelVerdict
{
	/// ids of gotos that name no visible label
	pub illegal_gotos: Vec<usize>,
	/// ids of labels that clash with a later visible label of the same name (the earlier one)
	pub clashing_labels: Vec<usize>,
	/// ids of the later labels they clash with
	pub clash_partners: Vec<usize>,
}

/// `visible_after`: labels (name, id) that follow the current block in enclosing blocks.
fn walk(block: &[L], visible_after: &[(usize, usize)], out: &mut LabelVerdict)
{
	for (i, s) in block.iter().enumerate()
	{
		// labels later in this block
		let mut later: Vec<(usize, usize)> = Vec::new();
		for t in &block[i + 1..]
		{
			if let L::Label(n, id) = t
			{
				later.push((*n, *id));
			}
		}
		match s
		{
			L::Goto(name, id) =>
			{
				let found = later.iter().chain(visible_after.iter()).any(|(n, _)| n == name);
				if !found
				{
					out.illegal_gotos.push(*id);
				}
			}
			L::Label(name, id) =>
			{
				if let Some((_, partner)) = later.iter().chain(visible_after.iter()).find(|(n, _)| n == name)
				{
					out.clashing_labels.push(*id);
					out.clash_partners.push(*partner);
				}
			}
			L::Block(inner) =>
			{
				let mut v = later.clone();
				v.extend_from_slice(visible_after);
				walk(inner, &v, out);
			}
			L::Other =>
			{}
		}
	}
}

/// `trailing`: labels that exist after the last statement of the body (the `return` label of a
/// function with a return value).
pub fn judge(body: &[L], trailing: &[(usize, usize)]) -> LabelVerdict
{
	let mut out = LabelVerdict::default();
	walk(body, trailing, &mut out);
	out
}
