//! Abstract syntax of Penne (DESIGN.md appendix B), a renderer with layout parameters, and the
//! canonical generic tree used to compare the model's syntax tree with the trees built by the
//! two real parsers. Nothing here calls into penne.

use std::fmt::Write as _;

// ---------------------------------------------------------------------------------------------
// Generic tree

#[derive(Debug, Clone, PartialEq, Eq)]
pub struct Node
{
	pub kind: String,
	pub attrs: Vec<(String, String)>,
	pub children: Vec<Node>,
}

impl Node
{
	pub fn new(kind: &str) -> Node
	{
		Node { kind: kind.to_string(), attrs: Vec::new(), children: Vec::new() }
	}
	pub fn attr(mut self, k: &str, v: impl ToString) -> Node
	{
		self.attrs.push((k.to_string(), v.to_string()));
		self
	}
	pub fn child(mut self, c: Node) -> Node
	{
		self.children.push(c);
		self
	}
	pub fn children(mut self, cs: impl IntoIterator<Item = Node>) -> Node
	{
		self.children.extend(cs);
		self
	}
	pub fn get(&self, k: &str) -> Option<&str>
	{
		self.attrs.iter().find(|(a, _)| a == k).map(|(_, v)| v.as_str())
	}
	pub fn show(&self) -> String
	{
		let mut s = String::new();
		self.show_into(&mut s);
		s
	}
	fn show_into(&self, s: &mut String)
	{
		s.push_str(&self.kind);
		if !self.attrs.is_empty()
		{
			s.push('{');
			for (i, (k, v)) in self.attrs.iter().enumerate()
			{
				if i > 0
				{
					s.push(',');
				}
				let _ = write!(s, "{k}={v}");
			}
			s.push('}');
		}
		if !self.children.is_empty()
		{
			s.push('[');
			for (i, c) in self.children.iter().enumerate()
			{
				if i > 0
				{
					s.push(' ');
				}
				c.show_into(s);
			}
			s.push(']');
		}
	}

	/// First difference between two trees, as a path and the two differing summaries.
	pub fn first_difference(&self, other: &Node) -> Option<(String, String, String)>
	{
		fn rec(a: &Node, b: &Node, path: &mut Vec<String>) -> Option<(String, String, String)>
		{
			if a.kind != b.kind
			{
				return Some((path.join("/"), a.kind.clone(), b.kind.clone()));
			}
			path.push(a.kind.clone());
			if a.attrs != b.attrs
			{
				let r = Some((path.join("/"), format!("{:?}", a.attrs), format!("{:?}", b.attrs)));
				path.pop();
				return r;
			}
			if a.children.len() != b.children.len()
			{
				let r = Some((
					path.join("/"),
					format!("{} children: {}", a.children.len(), a.children.iter().map(|c| c.kind.clone()).collect::<Vec<_>>().join(",")),
					format!("{} children: {}", b.children.len(), b.children.iter().map(|c| c.kind.clone()).collect::<Vec<_>>().join(",")),
				));
				path.pop();
				return r;
			}
			for (x, y) in a.children.iter().zip(b.children.iter())
			{
				if let Some(d) = rec(x, y, path)
				{
					path.pop();
					return Some(d);
				}
			}
			path.pop();
			None
		}
		rec(self, other, &mut Vec::new())
	}
}

// ---------------------------------------------------------------------------------------------
// Abstract syntax

#[derive(Debug, Clone, PartialEq, Eq)]
pub enum Ty
{
	Prim(&'static str),
	Named(String),
	Ptr(Box<Ty>),
	View(Box<Ty>),
	Arraylike(Box<Ty>),
	Slice(Box<Ty>),
	Endless(Box<Ty>),
	Array(u64, Box<Ty>),
	ArrayNamed(String, Box<Ty>),
}

#[derive(Debug, Clone, PartialEq, Eq)]
pub enum Step
{
	Index(Expr),
	Member(String),
}

#[derive(Debug, Clone, PartialEq, Eq)]
pub struct Reference
{
	pub addr: u8,
	pub base: String,
	pub steps: Vec<Step>,
}

#[derive(Debug, Clone, PartialEq, Eq)]
pub enum Expr
{
	/// Integer literal in its source spelling (decimal, 0x, 0b, underscores, suffix).
	Int(String),
	/// Character literal in its source spelling including the quotes.
	Char(String),
	Bool(bool),
	/// One or more adjacent string literals, each in its source spelling including quotes.
	Str(Vec<String>),
	Ref(Reference),
	/// `&x..n`
	Advance(Reference, Box<Expr>),
	Call
	{
		name: String,
		builtin: bool,
		args: Vec<Expr>,
		trailing_comma: bool,
	},
	Array(Vec<Expr>, bool),
	Struct
	{
		name: String,
		fields: Vec<(String, Option<Expr>)>,
		trailing_comma: bool,
	},
	Paren(Box<Expr>),
	Binary(&'static str, Box<Expr>, Box<Expr>),
	Unary(&'static str, Box<Expr>),
	BitCast(Box<Expr>),
	TypeCast(Box<Expr>, Ty),
	LengthOf(Reference),
	SizeOf(Ty),
}

#[derive(Debug, Clone, PartialEq, Eq)]
pub struct Cmp
{
	pub op: &'static str,
	pub left: Expr,
	pub right: Expr,
}

#[derive(Debug, Clone, PartialEq, Eq)]
pub enum Stmt
{
	Block(Vec<Stmt>),
	If(Cmp, Box<Stmt>, Option<Box<Stmt>>),
	Loop,
	Goto(String),
	Label(String),
	Var(String, Option<Ty>, Option<Expr>),
	Assign(Reference, Expr),
	Call
	{
		name: String,
		builtin: bool,
		args: Vec<Expr>,
	},
}

#[derive(Debug, Clone, PartialEq, Eq)]
pub struct Body
{
	pub stmts: Vec<Stmt>,
	pub ret: Option<Expr>,
}

#[derive(Debug, Clone, Copy, PartialEq, Eq, Default)]
pub struct Flags
{
	pub public: bool,
	pub external: bool,
}

#[derive(Debug, Clone, PartialEq, Eq)]
pub enum Decl
{
	Const
	{
		flags: Flags,
		name: String,
		ty: Ty,
		value: Expr,
	},
	Fn
	{
		flags: Flags,
		name: String,
		params: Vec<(String, Ty)>,
		trailing_comma: bool,
		ret: Option<Ty>,
		body: Option<Body>,
	},
	Struct
	{
		flags: Flags,
		name: String,
		/// Some(bytes) for word8..word128.
		word: Option<u8>,
		/// None for an opaque `struct X;`.
		members: Option<Vec<(String, Ty)>>,
		/// Whether the last member is followed by a comma.
		trailing_comma: bool,
	},
	Import
	{
		flags: Flags,
		path: String,
	},
}

// ---------------------------------------------------------------------------------------------
// Rendering to tokens

pub fn ty_tokens(t: &Ty, out: &mut Vec<String>)
{
	match t
	{
		Ty::Prim(p) => out.push(p.to_string()),
		Ty::Named(n) => out.push(n.clone()),
		Ty::Ptr(t) =>
		{
			out.push("&".into());
			ty_tokens(t, out);
		}
		Ty::View(t) =>
		{
			out.push("(".into());
			ty_tokens(t, out);
			out.push(")".into());
		}
		Ty::Arraylike(t) =>
		{
			out.push("[".into());
			out.push("]".into());
			ty_tokens(t, out);
		}
		Ty::Slice(t) =>
		{
			out.push("[".into());
			out.push(":".into());
			out.push("]".into());
			ty_tokens(t, out);
		}
		Ty::Endless(t) =>
		{
			out.push("[".into());
			out.push("..".into());
			out.push("]".into());
			ty_tokens(t, out);
		}
		Ty::Array(n, t) =>
		{
			out.push("[".into());
			out.push(n.to_string());
			out.push("]".into());
			ty_tokens(t, out);
		}
		Ty::ArrayNamed(n, t) =>
		{
			out.push("[".into());
			out.push(n.clone());
			out.push("]".into());
			ty_tokens(t, out);
		}
	}
}

pub fn ref_tokens(r: &Reference, out: &mut Vec<String>)
{
	for _ in 0..r.addr
	{
		out.push("&".into());
	}
	out.push(r.base.clone());
	for s in &r.steps
	{
		match s
		{
			Step::Index(e) =>
			{
				out.push("[".into());
				expr_tokens(e, out);
				out.push("]".into());
			}
			Step::Member(m) =>
			{
				out.push(".".into());
				out.push(m.clone());
			}
		}
	}
}

fn list_tokens(items: &[Expr], trailing: bool, out: &mut Vec<String>)
{
	for (i, a) in items.iter().enumerate()
	{
		if i > 0
		{
			out.push(",".into());
		}
		expr_tokens(a, out);
	}
	if trailing && !items.is_empty()
	{
		out.push(",".into());
	}
}

pub fn expr_tokens(e: &Expr, out: &mut Vec<String>)
{
	match e
	{
		Expr::Int(s) | Expr::Char(s) => out.push(s.clone()),
		Expr::Bool(b) => out.push(b.to_string()),
		Expr::Str(parts) => out.extend(parts.iter().cloned()),
		Expr::Ref(r) => ref_tokens(r, out),
		Expr::Advance(r, e) =>
		{
			ref_tokens(r, out);
			out.push("..".into());
			expr_tokens(e, out);
		}
		Expr::Call { name, builtin: _, args, trailing_comma } =>
		{
			out.push(name.clone());
			out.push("(".into());
			list_tokens(args, *trailing_comma, out);
			out.push(")".into());
		}
		Expr::Array(items, trailing) =>
		{
			out.push("[".into());
			list_tokens(items, *trailing, out);
			out.push("]".into());
		}
		Expr::Struct { name, fields, trailing_comma } =>
		{
			out.push(name.clone());
			out.push("{".into());
			for (i, (f, v)) in fields.iter().enumerate()
			{
				if i > 0
				{
					out.push(",".into());
				}
				out.push(f.clone());
				if let Some(v) = v
				{
					out.push(":".into());
					expr_tokens(v, out);
				}
			}
			if *trailing_comma && !fields.is_empty()
			{
				out.push(",".into());
			}
			out.push("}".into());
		}
		Expr::Paren(e) =>
		{
			out.push("(".into());
			expr_tokens(e, out);
			out.push(")".into());
		}
		Expr::Binary(op, l, r) =>
		{
			expr_tokens(l, out);
			out.push(op.to_string());
			expr_tokens(r, out);
		}
		Expr::Unary(op, e) =>
		{
			out.push(op.to_string());
			expr_tokens(e, out);
		}
		Expr::BitCast(e) =>
		{
			out.push("cast".into());
			expr_tokens(e, out);
		}
		Expr::TypeCast(e, t) =>
		{
			expr_tokens(e, out);
			out.push("as".into());
			ty_tokens(t, out);
		}
		Expr::LengthOf(r) =>
		{
			out.push("|".into());
			ref_tokens(r, out);
			out.push("|".into());
		}
		Expr::SizeOf(t) =>
		{
			out.push("|:".into());
			ty_tokens(t, out);
			out.push("|".into());
		}
	}
}

pub fn stmt_tokens(s: &Stmt, out: &mut Vec<String>)
{
	match s
	{
		Stmt::Block(stmts) =>
		{
			out.push("{".into());
			for s in stmts
			{
				stmt_tokens(s, out);
			}
			out.push("}".into());
		}
		Stmt::If(c, t, e) =>
		{
			out.push("if".into());
			expr_tokens(&c.left, out);
			out.push(c.op.to_string());
			expr_tokens(&c.right, out);
			stmt_tokens(t, out);
			if let Some(e) = e
			{
				out.push("else".into());
				stmt_tokens(e, out);
			}
		}
		Stmt::Loop =>
		{
			out.push("loop".into());
			out.push(";".into());
		}
		Stmt::Goto(l) =>
		{
			out.push("goto".into());
			out.push(l.clone());
			out.push(";".into());
		}
		Stmt::Label(l) =>
		{
			out.push(l.clone());
			out.push(":".into());
		}
		Stmt::Var(n, t, v) =>
		{
			out.push("var".into());
			out.push(n.clone());
			if let Some(t) = t
			{
				out.push(":".into());
				ty_tokens(t, out);
			}
			if let Some(v) = v
			{
				out.push("=".into());
				expr_tokens(v, out);
			}
			out.push(";".into());
		}
		Stmt::Assign(r, v) =>
		{
			ref_tokens(r, out);
			out.push("=".into());
			expr_tokens(v, out);
			out.push(";".into());
		}
		Stmt::Call { name, builtin: _, args } =>
		{
			out.push(name.clone());
			out.push("(".into());
			list_tokens(args, false, out);
			out.push(")".into());
			out.push(";".into());
		}
	}
}

fn flags_tokens(f: &Flags, out: &mut Vec<String>)
{
	if f.public
	{
		out.push("pub".into());
	}
	if f.external
	{
		out.push("extern".into());
	}
}

pub fn decl_tokens(d: &Decl, out: &mut Vec<String>)
{
	match d
	{
		Decl::Const { flags, name, ty, value } =>
		{
			flags_tokens(flags, out);
			out.push("const".into());
			out.push(name.clone());
			out.push(":".into());
			ty_tokens(ty, out);
			out.push("=".into());
			expr_tokens(value, out);
			out.push(";".into());
		}
		Decl::Fn { flags, name, params, trailing_comma, ret, body } =>
		{
			flags_tokens(flags, out);
			out.push("fn".into());
			out.push(name.clone());
			out.push("(".into());
			for (i, (p, t)) in params.iter().enumerate()
			{
				if i > 0
				{
					out.push(",".into());
				}
				out.push(p.clone());
				out.push(":".into());
				ty_tokens(t, out);
			}
			if *trailing_comma && !params.is_empty()
			{
				out.push(",".into());
			}
			out.push(")".into());
			if let Some(r) = ret
			{
				out.push("->".into());
				ty_tokens(r, out);
			}
			match body
			{
				None => out.push(";".into()),
				Some(b) =>
				{
					out.push("{".into());
					for s in &b.stmts
					{
						stmt_tokens(s, out);
					}
					if let Some(r) = &b.ret
					{
						out.push("return".into());
						out.push(":".into());
						expr_tokens(r, out);
					}
					out.push("}".into());
				}
			}
		}
		Decl::Struct { flags, name, word, members, trailing_comma } =>
		{
			flags_tokens(flags, out);
			out.push(match word
			{
				None => "struct".to_string(),
				Some(n) => format!("word{}", (*n as u32) * 8),
			});
			out.push(name.clone());
			match members
			{
				None => out.push(";".into()),
				Some(ms) =>
				{
					out.push("{".into());
					for (i, (m, t)) in ms.iter().enumerate()
					{
						out.push(m.clone());
						out.push(":".into());
						ty_tokens(t, out);
						if i + 1 < ms.len() || *trailing_comma
						{
							out.push(",".into());
						}
					}
					out.push("}".into());
				}
			}
		}
		Decl::Import { flags, path } =>
		{
			flags_tokens(flags, out);
			out.push("import".into());
			out.push(format!("\"{path}\""));
			out.push(";".into());
		}
	}
}

pub fn module_tokens(decls: &[Decl]) -> Vec<String>
{
	let mut out = Vec::new();
	for d in decls
	{
		decl_tokens(d, &mut out);
	}
	out
}

/// Layout: how the gaps between tokens are filled.
#[derive(Debug, Clone, Copy, PartialEq, Eq)]
pub enum Layout
{
	/// Single spaces, a newline after `;`, `{` and `}`.
	Canonical,
	/// Everything on one line, single spaces.
	OneLine,
	/// One token per line.
	TokenPerLine,
	/// Canonical, but gap number k (0-based) is replaced by the given filler.
	Deviation(usize, &'static str),
}

pub const GAP_FILLERS: [&str; 6] = ["\n", "\t", " // c\n", "\r\n", "  ", "\n\n"];

pub fn render_tokens(tokens: &[String], layout: Layout) -> String
{
	let mut s = String::new();
	for (i, t) in tokens.iter().enumerate()
	{
		if i > 0
		{
			let gap = i - 1;
			let prev = tokens[i - 1].as_str();
			let default = match layout
			{
				Layout::OneLine => " ",
				Layout::TokenPerLine => "\n",
				_ =>
				{
					if prev == ";" || prev == "{" || prev == "}" { "\n" } else { " " }
				}
			};
			match layout
			{
				Layout::Deviation(k, filler) if k == gap => s.push_str(filler),
				_ => s.push_str(default),
			}
		}
		s.push_str(t);
	}
	s.push('\n');
	s
}

pub fn render_module(decls: &[Decl], layout: Layout) -> String
{
	render_tokens(&module_tokens(decls), layout)
}

// ---------------------------------------------------------------------------------------------
// Canonical tree of the model AST

/// Decode an integer literal spelling: (value, suffix type, is_decimal).
pub fn decode_int(spelling: &str) -> (u128, Option<String>, bool)
{
	let s: String = spelling.chars().filter(|c| *c != '_').collect();
	let (radix, body) = if let Some(r) = s.strip_prefix("0x")
	{
		(16, r.to_string())
	}
	else if let Some(r) = s.strip_prefix("0b")
	{
		(2, r.to_string())
	}
	else
	{
		(10, s.clone())
	};
	let digits: String = body.chars().take_while(|c| c.is_digit(radix)).collect();
	let suffix = &body[digits.len()..];
	// A decimal literal with a leading zero is just "0" followed by a suffix.
	let value = u128::from_str_radix(&digits, radix).unwrap_or(0);
	(value, if suffix.is_empty() { None } else { Some(suffix.to_string()) }, radix == 10)
}

fn is_signed_type(t: &str) -> bool
{
	matches!(t, "i8" | "i16" | "i32" | "i64" | "i128")
}

/// Canonical integer node. `negated`: the literal is the operand of a unary minus that both
/// generations may fold (first generation folds `-` into positive signed literals).
pub fn int_node(spelling: &str) -> Node
{
	let (value, suffix, _) = decode_int(spelling);
	let mut n = Node::new("Int").attr("value", value);
	if let Some(s) = suffix
	{
		n = n.attr("type", s);
	}
	n
}

/// Whether the first generation folds a unary minus into this literal.
pub fn minus_folds_into(spelling: &str) -> bool
{
	let (value, suffix, decimal) = decode_int(spelling);
	if value == (i128::MAX as u128) + 1
	{
		// -2^127 is the minimum of i128: folded for unsuffixed and i128-suffixed literals
		return suffix.is_none() || suffix.as_deref() == Some("i128");
	}
	if value == 0 || value > i128::MAX as u128
	{
		return false;
	}
	match suffix
	{
		None => decimal,
		Some(t) => is_signed_type(&t),
	}
}

/// Decode the bytes of a string/char literal spelling (including quotes) per appendix A.
pub fn decode_quoted(spelling: &str) -> Vec<u8>
{
	let toks = crate::model::reflex::lex(spelling.as_bytes());
	match toks.first().map(|t| &t.kind)
	{
		Some(crate::model::reflex::RKind::Str(b)) => b.clone(),
		Some(crate::model::reflex::RKind::Char(c)) => vec![*c],
		_ => panic!("model produced an invalid quoted literal {spelling}"),
	}
}

pub fn hex(bytes: &[u8]) -> String
{
	bytes.iter().map(|b| format!("{b:02x}")).collect()
}

pub fn ty_node(t: &Ty) -> Node
{
	match t
	{
		Ty::Prim(p) => Node::new("Prim").attr("name", p),
		Ty::Named(n) => Node::new("Named").attr("name", n),
		Ty::Ptr(t) => Node::new("Pointer").child(ty_node(t)),
		Ty::View(t) => Node::new("View").child(ty_node(t)),
		Ty::Arraylike(t) => Node::new("Arraylike").child(ty_node(t)),
		Ty::Slice(t) => Node::new("Slice").child(ty_node(t)),
		Ty::Endless(t) => Node::new("Endless").child(ty_node(t)),
		Ty::Array(n, t) => Node::new("Array").attr("length", n).child(ty_node(t)),
		Ty::ArrayNamed(n, t) => Node::new("ArrayNamed").attr("length", n).child(ty_node(t)),
	}
}

pub fn ref_node(r: &Reference) -> Node
{
	let mut n = Node::new("Ref").attr("address_depth", r.addr).attr("base", &r.base);
	for s in &r.steps
	{
		n = n.child(match s
		{
			Step::Index(e) => Node::new("Index").child(expr_node(e)),
			Step::Member(m) => Node::new("Member").attr("name", m),
		});
	}
	n
}

pub fn expr_node(e: &Expr) -> Node
{
	match e
	{
		Expr::Int(s) => int_node(s),
		Expr::Char(s) => Node::new("Int").attr("value", decode_quoted(s)[0]).attr("type", "char8"),
		Expr::Bool(b) => Node::new("Bool").attr("value", b),
		Expr::Str(parts) =>
		{
			let mut bytes = Vec::new();
			for p in parts
			{
				bytes.extend(decode_quoted(p));
			}
			Node::new("Str").attr("bytes", hex(&bytes))
		}
		Expr::Ref(r) => ref_node(r),
		Expr::Advance(r, e) => Node::new("Binary").attr("op", "AdvancePointer").child(ref_node(r)).child(expr_node(e)),
		Expr::Call { name, builtin, args, .. } =>
		{
			Node::new("Call").attr("name", name.trim_end_matches('!')).attr("builtin", builtin).children(args.iter().map(expr_node))
		}
		Expr::Array(items, _) => Node::new("ArrayLit").children(items.iter().map(expr_node)),
		Expr::Struct { name, fields, .. } => Node::new("Structural").attr("name", name).children(fields.iter().map(|(f, v)| {
			let value = match v
			{
				Some(v) => expr_node(v),
				None => ref_node(&Reference { addr: 0, base: f.clone(), steps: vec![] }),
			};
			Node::new("Field").attr("name", f).child(value)
		})),
		Expr::Paren(e) => Node::new("Paren").child(expr_node(e)),
		Expr::Binary(op, l, r) => Node::new("Binary").attr("op", binary_op_name(op)).child(expr_node(l)).child(expr_node(r)),
		Expr::Unary(op, e) =>
		{
			if *op == "-"
			{
				if let Expr::Int(s) = &**e
				{
					if minus_folds_into(s)
					{
						let (value, suffix, _) = decode_int(s);
						let mut n = Node::new("Int").attr("value", format!("-{value}"));
						if let Some(s) = suffix
						{
							n = n.attr("type", s);
						}
						return n;
					}
				}
			}
			Node::new("Unary").attr("op", if *op == "-" { "Negative" } else { "BitwiseComplement" }).child(expr_node(e))
		}
		Expr::BitCast(e) => Node::new("BitCast").child(expr_node(e)),
		Expr::TypeCast(e, t) => Node::new("TypeCast").child(expr_node(e)).child(ty_node(t)),
		Expr::LengthOf(r) => Node::new("LengthOf").child(ref_node(r)),
		Expr::SizeOf(t) => Node::new("SizeOf").child(ty_node(t)),
	}
}

pub fn binary_op_name(op: &str) -> &'static str
{
	match op
	{
		"+" => "Add",
		"-" => "Subtract",
		"*" => "Multiply",
		"/" => "Divide",
		"%" => "Modulo",
		"&" => "BitwiseAnd",
		"|" => "BitwiseOr",
		"^" => "BitwiseXor",
		"<<" => "ShiftLeft",
		">>" => "ShiftRight",
		".." => "AdvancePointer",
		_ => panic!("unknown binary operator {op}"),
	}
}

pub fn cmp_op_name(op: &str) -> &'static str
{
	match op
	{
		"==" => "Equals",
		"!=" => "DoesNotEqual",
		">" => "IsGreater",
		">=" => "IsGE",
		"<" => "IsLess",
		"<=" => "IsLE",
		_ => panic!("unknown comparison operator {op}"),
	}
}

pub fn stmt_node(s: &Stmt) -> Node
{
	match s
	{
		Stmt::Block(stmts) => Node::new("Block").children(stmts.iter().map(stmt_node)),
		Stmt::If(c, t, e) =>
		{
			let mut n = Node::new("If")
				.child(Node::new("Comparison").attr("op", cmp_op_name(c.op)).child(expr_node(&c.left)).child(expr_node(&c.right)))
				.child(Node::new("Then").child(stmt_node(t)));
			if let Some(e) = e
			{
				n = n.child(Node::new("Else").child(stmt_node(e)));
			}
			n
		}
		Stmt::Loop => Node::new("Loop"),
		Stmt::Goto(l) => Node::new("Goto").attr("label", l),
		Stmt::Label(l) => Node::new("Label").attr("name", l),
		Stmt::Var(n, t, v) =>
		{
			let mut node = Node::new("Var").attr("name", n);
			node = node.child(match t
			{
				Some(t) => Node::new("Type").child(ty_node(t)),
				None => Node::new("NoType"),
			});
			node = node.child(match v
			{
				Some(v) => Node::new("Value").child(expr_node(v)),
				None => Node::new("NoValue"),
			});
			node
		}
		Stmt::Assign(r, v) => Node::new("Assign").child(ref_node(r)).child(expr_node(v)),
		Stmt::Call { name, builtin, args } =>
		{
			Node::new("CallStmt").attr("name", name.trim_end_matches('!')).attr("builtin", builtin).children(args.iter().map(expr_node))
		}
	}
}

fn flags_attr(f: &Flags, extra_opaque: bool) -> String
{
	let mut v = Vec::new();
	if f.public
	{
		v.push("Public");
	}
	if f.external
	{
		v.push("External");
	}
	if extra_opaque
	{
		v.push("OpaqueStruct");
	}
	v.join("|")
}

pub fn decl_node(d: &Decl) -> Node
{
	match d
	{
		Decl::Const { flags, name, ty, value } =>
		{
			Node::new("Const").attr("name", name).attr("flags", flags_attr(flags, false)).child(ty_node(ty)).child(expr_node(value))
		}
		Decl::Fn { flags, name, params, ret, body, .. } =>
		{
			let mut n = Node::new("Fn").attr("name", name).attr("flags", flags_attr(flags, false));
			n = n.child(Node::new("Params").children(params.iter().map(|(p, t)| Node::new("Param").attr("name", p).child(ty_node(t)))));
			n = n.child(Node::new("Returns").child(match ret
			{
				Some(t) => ty_node(t),
				None => Node::new("Prim").attr("name", "void"),
			}));
			if let Some(b) = body
			{
				let mut bn = Node::new("Body").child(Node::new("Stmts").children(b.stmts.iter().map(stmt_node)));
				if let Some(r) = &b.ret
				{
					bn = bn.child(Node::new("ReturnValue").child(expr_node(r)));
				}
				n = n.child(bn);
			}
			n
		}
		Decl::Struct { flags, name, word, members, .. } => Node::new("Struct")
			.attr("name", name)
			.attr("flags", flags_attr(flags, members.is_none()))
			.attr("word_bytes", word.map(|w| w as i32).unwrap_or(-1))
			.children(members.iter().flatten().map(|(m, t)| Node::new("Member").attr("name", m).child(ty_node(t)))),
		Decl::Import { flags, path } => Node::new("Import").attr("flags", flags_attr(flags, false)).attr("path", path),
	}
}

pub fn module_node(decls: &[Decl]) -> Node
{
	Node::new("Module").children(decls.iter().map(decl_node))
}

/// Projection of a module to its public interface (the header): `pub` declarations in order,
/// `pub` cleared, function bodies dropped. Imports are never public.
pub fn project_header(decls: &[Decl]) -> Vec<Decl>
{
	decls
		.iter()
		.filter_map(|d| match d
		{
			Decl::Const { flags, name, ty, value } if flags.public =>
			{
				Some(Decl::Const { flags: Flags { public: false, ..*flags }, name: name.clone(), ty: ty.clone(), value: value.clone() })
			}
			Decl::Fn { flags, name, params, trailing_comma, ret, body: _ } if flags.public => Some(Decl::Fn {
				flags: Flags { public: false, ..*flags },
				name: name.clone(),
				params: params.clone(),
				trailing_comma: *trailing_comma,
				ret: ret.clone(),
				body: None,
			}),
			Decl::Struct { flags, name, word, members, trailing_comma } if flags.public => Some(Decl::Struct {
				flags: Flags { public: false, ..*flags },
				name: name.clone(),
				word: *word,
				members: members.clone(),
				trailing_comma: *trailing_comma,
			}),
			Decl::Import { flags, path } if flags.public => Some(Decl::Import { flags: Flags { public: false, ..*flags }, path: path.clone() }),
			_ => None,
		})
		.collect()
}
