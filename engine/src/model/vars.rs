//! Reference model of variable scoping (docs/features.md, docs/errors.md E402, E422, E482).
//!
//! (i)  Lexical: a use resolves to the nearest textually earlier declaration in the same or an
//!      enclosing block (parameters and module constants are outermost); otherwise E402.
//!      A declaration whose name is already visible is E422.
//! (ii) The documented prune rule: a label with an inbound goto removes from scope the variables
//!      declared above it in its own block that were not in scope at every such goto; a later use
//!      of such a variable is E482.
//! (iii) Independent soundness analysis on the syntactic control-flow graph: is there a path
//!      from the function entry to a use that does not pass the declaration the use resolves to?

use std::collections::{BTreeSet, HashMap, HashSet};

#[derive(Debug, Clone)]
pub enum V
{
	Decl(usize /*name*/, usize /*id*/),
	Use(usize /*name*/, usize /*id*/),
	Label(usize /*name*/, usize /*id*/),
	Goto(usize /*name*/, usize /*id*/, bool /*conditional*/),
	Loop(usize /*id*/),
	Block(Vec<V>),
}

#[derive(Debug, Default, Clone)]
pub struct VarVerdict
{
	/// ids of uses without a visible declaration
	pub undefined_uses: Vec<usize>,
	/// ids of declarations whose name is already visible
	pub duplicate_decls: Vec<usize>,
	/// names involved in a duplicate declaration (their uses are not judged further)
	pub duplicate_names: BTreeSet<usize>,
	/// ids of uses after a pruning label (documented rule)
	pub skipped_uses: Vec<usize>,
	/// for each skipped use: the name of its variable
	pub skipped_names: BTreeSet<usize>,
	/// ids of uses reachable on a CFG path that avoids their declaration (analysis iii)
	pub path_unsound_uses: Vec<usize>,
}

struct Decl
{
	name: usize,
	id: usize,
}

/// `outer`: names visible from outside the body (parameters, constants).
pub fn judge(body: &[V], outer: &[usize]) -> VarVerdict
{
	let mut out = VarVerdict::default();
	let mut resolved: HashMap<usize, Option<usize>> = HashMap::new(); // use id -> decl id (None = outer)
	lexical(body, &mut vec![Vec::new()], outer, &mut out, &mut resolved);
	prune(body, &out.duplicate_names.clone(), &resolved, &mut out);
	paths(body, &resolved, &mut out);
	out
}

fn lexical(block: &[V], scopes: &mut Vec<Vec<Decl>>, outer: &[usize], out: &mut VarVerdict, resolved: &mut HashMap<usize, Option<usize>>)
{
	for s in block
	{
		match s
		{
			V::Decl(name, id) =>
			{
				let visible = outer.contains(name) || scopes.iter().any(|sc| sc.iter().any(|d| d.name == *name));
				if visible
				{
					out.duplicate_decls.push(*id);
					out.duplicate_names.insert(*name);
				}
				scopes.last_mut().unwrap().push(Decl { name: *name, id: *id });
			}
			V::Use(name, id) =>
			{
				// nearest earlier declaration: innermost scope first, latest first
				let mut found = None;
				for sc in scopes.iter().rev()
				{
					if let Some(d) = sc.iter().rev().find(|d| d.name == *name)
					{
						found = Some(d.id);
						break;
					}
				}
				match found
				{
					Some(d) =>
					{
						resolved.insert(*id, Some(d));
					}
					None =>
					{
						if outer.contains(name)
						{
							resolved.insert(*id, None);
						}
						else
						{
							out.undefined_uses.push(*id);
						}
					}
				}
			}
			V::Block(inner) =>
			{
				scopes.push(Vec::new());
				lexical(inner, scopes, outer, out, resolved);
				scopes.pop();
			}
			_ =>
			{}
		}
	}
}

fn gotos_in(s: &V, out: &mut Vec<usize>)
{
	match s
	{
		V::Goto(name, _, _) => out.push(*name),
		V::Block(inner) =>
		{
			for t in inner
			{
				gotos_in(t, out);
			}
		}
		_ =>
		{}
	}
}

fn uses_in(s: &V, out: &mut Vec<(usize, usize)>)
{
	match s
	{
		V::Use(name, id) => out.push((*name, *id)),
		V::Block(inner) =>
		{
			for t in inner
			{
				uses_in(t, out);
			}
		}
		_ =>
		{}
	}
}

/// The documented prune rule, block by block.
fn prune(block: &[V], duplicate_names: &BTreeSet<usize>, resolved: &HashMap<usize, Option<usize>>, out: &mut VarVerdict)
{
	// pruned declaration ids, in the order the labels are met
	let mut pruned: HashSet<usize> = HashSet::new();
	for (j, s) in block.iter().enumerate()
	{
		match s
		{
			V::Label(lname, _) =>
			{
				// inbound gotos: gotos naming this label located in earlier statements of this block
				// (gotos further out cannot see the label; later ones would be backward jumps).
				let mut earliest: Option<usize> = None;
				for (g, t) in block[..j].iter().enumerate()
				{
					let mut names = Vec::new();
					gotos_in(t, &mut names);
					if names.contains(lname)
					{
						earliest = Some(earliest.map(|e: usize| e.min(g)).unwrap_or(g));
					}
				}
				if let Some(g) = earliest
				{
					// declarations directly in this block after the earliest inbound goto and before the label
					for t in &block[g + 1..j]
					{
						if let V::Decl(_, id) = t
						{
							pruned.insert(*id);
						}
					}
				}
			}
			V::Block(inner) =>
			{
				// uses nested in this later statement
				let mut us = Vec::new();
				uses_in(s, &mut us);
				flag(&us, &pruned, duplicate_names, resolved, out);
				prune(inner, duplicate_names, resolved, out);
			}
			V::Use(name, id) =>
			{
				flag(&[(*name, *id)], &pruned, duplicate_names, resolved, out);
			}
			_ =>
			{}
		}
	}
}

fn flag(uses: &[(usize, usize)], pruned: &HashSet<usize>, duplicate_names: &BTreeSet<usize>, resolved: &HashMap<usize, Option<usize>>, out: &mut VarVerdict)
{
	for (name, id) in uses
	{
		if duplicate_names.contains(name)
		{
			continue;
		}
		if let Some(Some(d)) = resolved.get(id)
		{
			if pruned.contains(d) && !out.skipped_uses.contains(id)
			{
				out.skipped_uses.push(*id);
				out.skipped_names.insert(*name);
			}
		}
	}
}

// ---------------------------------------------------------------------------------------------
// (iii) path analysis on the syntactic CFG

#[derive(Debug, Clone)]
enum Node
{
	Decl(usize),
	Use(usize),
	Goto(usize /*target node*/, bool),
	Jump(usize),
	Nop,
}

struct Cfg
{
	nodes: Vec<Node>,
	/// (goto node index, label name, scope chain at the goto) to patch
	pending: Vec<(usize, usize, Vec<usize>)>,
	/// label name -> (node index, block id)
	labels: Vec<(usize, usize, usize)>,
}

fn build(block: &[V], cfg: &mut Cfg, chain: &mut Vec<usize>, next_block_id: &mut usize)
{
	let my_id = *next_block_id;
	*next_block_id += 1;
	chain.push(my_id);
	let start = cfg.nodes.len();
	cfg.nodes.push(Node::Nop);
	for s in block
	{
		match s
		{
			V::Decl(_, id) => cfg.nodes.push(Node::Decl(*id)),
			V::Use(_, id) => cfg.nodes.push(Node::Use(*id)),
			V::Label(name, _) =>
			{
				cfg.labels.push((*name, cfg.nodes.len(), my_id));
				cfg.nodes.push(Node::Nop);
			}
			V::Goto(name, _, cond) =>
			{
				cfg.pending.push((cfg.nodes.len(), *name, chain.clone()));
				cfg.nodes.push(Node::Goto(usize::MAX, *cond));
			}
			V::Loop(_) => cfg.nodes.push(Node::Jump(start)),
			V::Block(inner) => build(inner, cfg, chain, next_block_id),
		}
	}
	chain.pop();
}

fn paths(body: &[V], resolved: &HashMap<usize, Option<usize>>, out: &mut VarVerdict)
{
	let mut cfg = Cfg { nodes: Vec::new(), pending: Vec::new(), labels: Vec::new() };
	let mut next_block_id = 0;
	build(body, &mut cfg, &mut Vec::new(), &mut next_block_id);
	let end = cfg.nodes.len();
	cfg.nodes.push(Node::Nop);
	// resolve gotos: a later label of that name in a block of the goto's scope chain
	for (gi, name, chain) in cfg.pending.clone()
	{
		let target = cfg.labels.iter().filter(|(n, idx, b)| *n == name && *idx > gi && chain.contains(b)).map(|(_, idx, _)| *idx).min();
		let cond = matches!(cfg.nodes[gi], Node::Goto(_, true));
		cfg.nodes[gi] = Node::Goto(target.unwrap_or(end), cond);
	}
	// For every use that resolves to an inner declaration d: search from the entry, never
	// crossing d, and see whether the use is reached.
	for (k, n) in cfg.nodes.iter().enumerate()
	{
		let Node::Use(uid) = n
		else
		{
			continue;
		};
		let Some(Some(d)) = resolved.get(uid)
		else
		{
			continue;
		};
		let mut seen = vec![false; cfg.nodes.len()];
		let mut stack = vec![0usize];
		let mut reached = false;
		while let Some(i) = stack.pop()
		{
			if i >= cfg.nodes.len() || seen[i]
			{
				continue;
			}
			seen[i] = true;
			if i == k
			{
				reached = true;
				break;
			}
			match &cfg.nodes[i]
			{
				Node::Decl(id) if id == d =>
				{}
				Node::Goto(t, cond) =>
				{
					stack.push(*t);
					if *cond
					{
						stack.push(i + 1);
					}
				}
				Node::Jump(t) => stack.push(*t),
				_ => stack.push(i + 1),
			}
		}
		if reached
		{
			out.path_unsound_uses.push(*uid);
		}
	}
}
