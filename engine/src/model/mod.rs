pub mod reflex;
