pub mod grammar;
pub mod labels;
pub mod reflex;
pub mod vars;
