pub mod grammar;
pub mod reflex;
