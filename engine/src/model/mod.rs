pub mod flow;
pub mod grammar;
pub mod intval;
pub mod labels;
pub mod reflex;
pub mod vars;
