//! Fixed-width two's complement integer arithmetic (DESIGN.md appendix C): values are bit
//! patterns in a u128, interpreted by the static type.

#[derive(Debug, Clone, Copy, PartialEq, Eq)]
pub struct IntTy
{
	pub bits: u32,
	pub signed: bool,
	pub name: &'static str,
}

pub const INT_TYPES: [IntTy; 11] = [
	IntTy { bits: 8, signed: true, name: "i8" },
	IntTy { bits: 16, signed: true, name: "i16" },
	IntTy { bits: 32, signed: true, name: "i32" },
	IntTy { bits: 64, signed: true, name: "i64" },
	IntTy { bits: 128, signed: true, name: "i128" },
	IntTy { bits: 8, signed: false, name: "u8" },
	IntTy { bits: 16, signed: false, name: "u16" },
	IntTy { bits: 32, signed: false, name: "u32" },
	IntTy { bits: 64, signed: false, name: "u64" },
	IntTy { bits: 128, signed: false, name: "u128" },
	IntTy { bits: 64, signed: false, name: "usize" },
];

pub fn ty(name: &str) -> IntTy
{
	*INT_TYPES.iter().find(|t| t.name == name).unwrap_or_else(|| panic!("no integer type {name}"))
}

impl IntTy
{
	pub fn mask(&self) -> u128
	{
		if self.bits == 128 { u128::MAX } else { (1u128 << self.bits) - 1 }
	}
	pub fn wrap(&self, v: u128) -> u128
	{
		v & self.mask()
	}
	pub fn max(&self) -> u128
	{
		if self.signed { self.mask() >> 1 } else { self.mask() }
	}
	/// Magnitude of the minimum (0 for unsigned).
	pub fn min_magnitude(&self) -> u128
	{
		if self.signed { (self.mask() >> 1) + 1 } else { 0 }
	}
	pub fn is_negative(&self, v: u128) -> bool
	{
		self.signed && (v >> (self.bits - 1)) & 1 == 1
	}
	/// Signed interpretation as i128 (valid for all widths).
	pub fn to_i128(&self, v: u128) -> i128
	{
		if self.is_negative(v)
		{
			if self.bits == 128 { v as i128 } else { (v as i128) - (1i128 << self.bits) }
		}
		else
		{
			v as i128
		}
	}
	pub fn show(&self, v: u128) -> String
	{
		if self.signed { self.to_i128(v).to_string() } else { v.to_string() }
	}
	pub fn from_i128(&self, v: i128) -> u128
	{
		self.wrap(v as u128)
	}
	pub fn neg(&self, v: u128) -> u128
	{
		self.wrap((!v).wrapping_add(1))
	}
	pub fn not(&self, v: u128) -> u128
	{
		self.wrap(!v)
	}
	/// None = undefined behaviour.
	pub fn binary(&self, op: &str, a: u128, b: u128) -> Option<u128>
	{
		let (a, b) = (self.wrap(a), self.wrap(b));
		Some(match op
		{
			"+" => self.wrap(a.wrapping_add(b)),
			"-" => self.wrap(a.wrapping_sub(b)),
			"*" => self.wrap(a.wrapping_mul(b)),
			"/" | "%" =>
			{
				if b == 0
				{
					return None;
				}
				if self.signed
				{
					let (x, y) = (self.to_i128(a), self.to_i128(b));
					if y == -1 && a == self.min_magnitude()
					{
						return None;
					}
					let r = if op == "/" { x.wrapping_div(y) } else { x.wrapping_rem(y) };
					self.from_i128(r)
				}
				else if op == "/"
				{
					a / b
				}
				else
				{
					a % b
				}
			}
			"&" => a & b,
			"|" => a | b,
			"^" => a ^ b,
			"<<" | ">>" =>
			{
				if b >= self.bits as u128
				{
					return None;
				}
				if op == "<<" { self.wrap(a << b) } else { a >> b }
			}
			_ => panic!("unknown operator {op}"),
		})
	}
	pub fn compare(&self, op: &str, a: u128, b: u128) -> bool
	{
		let (a, b) = (self.wrap(a), self.wrap(b));
		let ord = if self.signed { self.to_i128(a).cmp(&self.to_i128(b)) } else { a.cmp(&b) };
		match op
		{
			"==" => ord.is_eq(),
			"!=" => ord.is_ne(),
			"<" => ord.is_lt(),
			">" => ord.is_gt(),
			"<=" => ord.is_le(),
			">=" => ord.is_ge(),
			_ => panic!("unknown comparison {op}"),
		}
	}
	/// `as` between integer types: same width reinterpret, narrower truncate, wider sign- or
	/// zero-extend by the source type.
	pub fn cast_from(&self, from: &IntTy, v: u128) -> u128
	{
		let v = from.wrap(v);
		if self.bits <= from.bits
		{
			self.wrap(v)
		}
		else if from.is_negative(v)
		{
			// sign extend
			let ext = if from.bits == 128 { 0 } else { !from.mask() };
			self.wrap(v | ext)
		}
		else
		{
			v
		}
	}
	/// Source spelling of a value of this type as a (possibly negated) suffixed literal.
	pub fn literal(&self, v: u128) -> String
	{
		if self.is_negative(v)
		{
			format!("-{}{}", self.neg(v), self.name)
		}
		else
		{
			format!("{}{}", v, self.name)
		}
	}
	/// Boundary values (S-VAL).
	pub fn boundary_values(&self) -> Vec<u128>
	{
		let mut v = vec![0u128, 1, 2, 3, 7, self.max(), self.max() - 1, self.max() / 2];
		if self.signed
		{
			v.push(self.min_magnitude()); // bit pattern of MIN
			v.push(self.min_magnitude() + 1);
			v.push(self.mask()); // -1
			v.push(self.mask() - 1); // -2
		}
		else
		{
			v.push(self.mask() / 2 + 1);
		}
		for w in [8u32, 16, 32, 64]
		{
			if w < self.bits
			{
				v.push((1u128 << w) - 1);
				v.push(1u128 << w);
				v.push((1u128 << w) + 1);
				v.push((1u128 << (w - 1)) - 1);
				v.push(1u128 << (w - 1));
			}
		}
		let mut v: Vec<u128> = v.into_iter().map(|x| self.wrap(x)).collect();
		v.sort();
		v.dedup();
		v
	}
}
