//! Reference interpreter for the control-flow bodies of C01 (family 2): one i32 variable `x`,
//! statements in order, `goto L` continues after the label `L` that is visible from the goto
//! (later in the same or an enclosing block), `loop` continues at the first statement of its
//! block, arithmetic wraps at 32 bits.

use crate::spaces::body::B;

#[derive(Debug, Clone, Copy, PartialEq, Eq)]
pub enum Op
{
	Inc,
	Dbl,
	Print,
	IfEqGoto(i32, usize),
	IfLtGoto(i32, usize),
	Goto(usize),
	Label(usize),
	Loop,
	/// `if x > k { x = x + a; } else { x = x - b; }`
	IfElse(i32, i32, i32),
}

#[derive(Debug)]
enum Ins
{
	Inc,
	Dbl,
	Print,
	IfEq(i32, usize, Vec<usize>),
	IfLt(i32, usize, Vec<usize>),
	Goto(usize, Vec<usize>),
	Label(usize, usize),
	Jump(usize),
	IfElse(i32, i32, i32),
	Nop,
}

fn flatten(forest: &[B], ops: &dyn Fn(u8) -> Op, code: &mut Vec<Ins>, chain: &mut Vec<usize>, next_block: &mut usize)
{
	let me = *next_block;
	*next_block += 1;
	chain.push(me);
	let start = code.len();
	code.push(Ins::Nop);
	for s in forest
	{
		match s
		{
			B::Atom(a) => code.push(match ops(*a)
			{
				Op::Inc => Ins::Inc,
				Op::Dbl => Ins::Dbl,
				Op::Print => Ins::Print,
				Op::IfEqGoto(k, l) => Ins::IfEq(k, l, chain.clone()),
				Op::IfLtGoto(k, l) => Ins::IfLt(k, l, chain.clone()),
				Op::Goto(l) => Ins::Goto(l, chain.clone()),
				Op::Label(l) => Ins::Label(l, me),
				Op::Loop => Ins::Jump(start),
				Op::IfElse(k, a, b) => Ins::IfElse(k, a, b),
			}),
			B::Block(inner) => flatten(inner, ops, code, chain, next_block),
		}
	}
	chain.pop();
}

/// Returns the printed values, or None when the step budget is exceeded (non-terminating or
/// too long) or a goto has no visible target.
pub fn run(forest: &[B], ops: &dyn Fn(u8) -> Op, x0: i32, budget: usize, max_prints: usize) -> Option<(Vec<i32>, i32)>
{
	let mut code = Vec::new();
	let mut nb = 0;
	flatten(forest, ops, &mut code, &mut Vec::new(), &mut nb);
	let target = |from: usize, label: usize, chain: &Vec<usize>| -> Option<usize> {
		code.iter().enumerate().filter(|(i, ins)| *i > from && matches!(ins, Ins::Label(l, b) if *l == label && chain.contains(b))).map(|(i, _)| i).min()
	};
	let mut x = x0;
	let mut out = Vec::new();
	let mut pc = 0;
	let mut steps = 0;
	while pc < code.len()
	{
		steps += 1;
		if steps > budget || out.len() > max_prints
		{
			return None;
		}
		match &code[pc]
		{
			Ins::Inc => x = x.wrapping_add(1),
			Ins::Dbl => x = x.wrapping_mul(2),
			Ins::Print => out.push(x),
			Ins::IfEq(k, l, chain) =>
			{
				if x == *k
				{
					pc = target(pc, *l, chain)?;
					continue;
				}
			}
			Ins::IfLt(k, l, chain) =>
			{
				if x < *k
				{
					pc = target(pc, *l, chain)?;
					continue;
				}
			}
			Ins::Goto(l, chain) =>
			{
				pc = target(pc, *l, chain)?;
				continue;
			}
			Ins::Jump(t) =>
			{
				pc = *t;
				continue;
			}
			Ins::IfElse(k, a, b) =>
			{
				if x > *k
				{
					x = x.wrapping_add(*a);
				}
				else
				{
					x = x.wrapping_sub(*b);
				}
			}
			Ins::Label(..) | Ins::Nop =>
			{}
		}
		pc += 1;
	}
	Some((out, x))
}
