//! Reference interpreter for the control-flow bodies of C01 (family 2): one i32 variable `x`,
//! statements in order, `goto L` continues after the label `L` that is visible from the goto
//! (later in the same or an enclosing block), `loop` continues at the first statement of its
//! block, arithmetic wraps at 32 bits.

use crate::spaces::body::B;

#[derive(Debug, Clone, Copy, PartialEq, Eq)]
pub enum Op
{
	Inc,
	Dbl,
	Print,
	IfEqGoto(i32, usize),
	IfLtGoto(i32, usize),
	Goto(usize),
	Label(usize),
	Loop,
	/// `if x > k { x = x + a; } else { x = x - b; }`
	IfElse(i32, i32, i32),
}

#[derive(Debug)]
enum Ins
{
	Inc,
	Dbl,
	Print,
	IfEq(i32, usize, Vec<usize>),
	IfLt(i32, usize, Vec<usize>),
	Goto(usize, Vec<usize>),
	Label(usize, usize),
	Jump(usize),
	IfElse(i32, i32, i32),
	Nop,
}

fn flatten(forest: &[B], ops: &dyn Fn(u8) -> Op, code: &mut Vec<Ins>, chain: &mut Vec<usize>, next_block: &mut usize)
{
	let me = *next_block;
	*next_block += 1;
	chain.push(me);
	let start = code.len();
	code.push(Ins::Nop);
	for s in forest
	{
		match s
		{
			B::Atom(a) => code.push(match ops(*a)
			{
				Op::Inc => Ins::Inc,
				Op::Dbl => Ins::Dbl,
				Op::Print => Ins::Print,
				Op::IfEqGoto(k, l) => Ins::IfEq(k, l, chain.clone()),
				Op::IfLtGoto(k, l) => Ins::IfLt(k, l, chain.clone()),
				Op::Goto(l) => Ins::Goto(l, chain.clone()),
				Op::Label(l) => Ins::Label(l, me),
				Op::Loop => Ins::Jump(start),
				Op::IfElse(k, a, b) => Ins::IfElse(k, a, b),
			}),
			B::Block(inner) => flatten(inner, ops, code, chain, next_block),
		}
	}
	chain.pop();
}

/// Returns the printed values, or None when the step budget is exceeded (non-terminating or
/// too long) or a goto has no visible target.
pub fn run(forest: &[B], ops: &dyn Fn(u8) -> Op, x0: i32, budget: usize, max_prints: usize) -> Option<(Vec<i32>, i32)>
{
	let mut code = Vec::new();
	let mut nb = 0;
	flatten(forest, ops, &mut code, &mut Vec::new(), &mut nb);
	let target = |from: usize, label: usize, chain: &Vec<usize>| -> Option<usize> {
		code.iter().enumerate().filter(|(i, ins)| *i > from && matches!(ins, Ins::Label(l, b) if *l == label && chain.contains(b))).map(|(i, _)| i).min()
	};
	let mut x = x0;
	let mut out = Vec::new();
	let mut pc = 0;
	let mut steps = 0;
	while pc < code.len()
	{
		steps += 1;
		if steps > budget || out.len() > max_prints
		{
			return None;
		}
		match &code[pc]
		{
			Ins::Inc => x = x.wrapping_add(1),
			Ins::Dbl => x = x.wrapping_mul(2),
			Ins::Print => out.push(x),
			Ins::IfEq(k, l, chain) =>
			{
				if x == *k
				{
					pc = target(pc, *l, chain)?;
					continue;
				}
			}
			Ins::IfLt(k, l, chain) =>
			{
				if x < *k
				{
					pc = target(pc, *l, chain)?;
					continue;
				}
			}
			Ins::Goto(l, chain) =>
			{
				pc = target(pc, *l, chain)?;
				continue;
			}
			Ins::Jump(t) =>
			{
				pc = *t;
				continue;
			}
			Ins::IfElse(k, a, b) =>
			{
				if x > *k
				{
					x = x.wrapping_add(*a);
				}
				else
				{
					x = x.wrapping_sub(*b);
				}
			}
			Ins::Label(..) | Ins::Nop =>
			{}
		}
		pc += 1;
	}
	Some((out, x))
}

// ---------------------------------------------------------------------------------------------
// Array loops (C01 family 8): an i32 variable `x`, a usize index `i` and an array `a` of three
// i32 elements. An access with `i >= 3` is undefined behaviour: such bodies are excluded (None).

#[derive(Debug, Clone, Copy, PartialEq, Eq)]
pub enum AOp
{
	/// `i = i + 1;`
	IncI,
	/// `a[i] = x;`
	Store,
	/// `x = x + a[i];`
	AddElem,
	/// `x = x * 2;`
	Dbl,
	/// `if i == |a| goto L;`
	IfAtEndGoto(usize),
	Goto(usize),
	Label(usize),
	Loop,
	/// `if a[i] > 15 { x = x + 1; } else { a[i] = a[i] + x; }`
	Compound,
	Print,
}

#[derive(Debug)]
enum AIns
{
	Op(AOp, Vec<usize>),
	Label(usize, usize),
	Jump(usize),
	Nop,
}

fn flatten_array(forest: &[B], ops: &dyn Fn(u8) -> AOp, code: &mut Vec<AIns>, chain: &mut Vec<usize>, next_block: &mut usize)
{
	let me = *next_block;
	*next_block += 1;
	chain.push(me);
	let start = code.len();
	code.push(AIns::Nop);
	for s in forest
	{
		match s
		{
			B::Atom(a) => code.push(match ops(*a)
			{
				AOp::Label(l) => AIns::Label(l, me),
				AOp::Loop => AIns::Jump(start),
				op => AIns::Op(op, chain.clone()),
			}),
			B::Block(inner) => flatten_array(inner, ops, code, chain, next_block),
		}
	}
	chain.pop();
}

pub struct ArrayRun
{
	pub prints: Vec<i128>,
	pub x: i128,
	pub i: usize,
	pub a: [i128; 3],
}

/// `wrap` reduces a mathematical result to the element type (two's complement).
pub fn run_array(forest: &[B], ops: &dyn Fn(u8) -> AOp, a0: [i128; 3], wrap: &dyn Fn(i128) -> i128, budget: usize, max_prints: usize) -> Option<ArrayRun>
{
	let mut code = Vec::new();
	let mut nb = 0;
	flatten_array(forest, ops, &mut code, &mut Vec::new(), &mut nb);
	let target = |from: usize, label: usize, chain: &Vec<usize>| -> Option<usize> {
		code.iter().enumerate().filter(|(k, ins)| *k > from && matches!(ins, AIns::Label(l, b) if *l == label && chain.contains(b))).map(|(k, _)| k).min()
	};
	let mut r = ArrayRun { prints: Vec::new(), x: 1, i: 0, a: a0 };
	let mut pc = 0;
	let mut steps = 0;
	while pc < code.len()
	{
		steps += 1;
		if steps > budget || r.prints.len() > max_prints
		{
			return None;
		}
		match &code[pc]
		{
			AIns::Op(op, chain) => match op
			{
				AOp::IncI => r.i += 1,
				AOp::Store =>
				{
					*r.a.get_mut(r.i)? = r.x;
				}
				AOp::AddElem => r.x = wrap(r.x.wrapping_add(*r.a.get(r.i)?)),
				AOp::Dbl => r.x = wrap(r.x.wrapping_mul(2)),
				AOp::IfAtEndGoto(l) =>
				{
					if r.i == 3
					{
						pc = target(pc, *l, chain)?;
						continue;
					}
				}
				AOp::Goto(l) =>
				{
					pc = target(pc, *l, chain)?;
					continue;
				}
				AOp::Compound =>
				{
					let e = *r.a.get(r.i)?;
					if e > 15
					{
						r.x = wrap(r.x.wrapping_add(1));
					}
					else
					{
						r.a[r.i] = wrap(e.wrapping_add(r.x));
					}
				}
				AOp::Print => r.prints.push(r.x),
				AOp::Label(_) | AOp::Loop => unreachable!(),
			},
			AIns::Jump(t) =>
			{
				pc = *t;
				continue;
			}
			AIns::Label(..) | AIns::Nop =>
			{}
		}
		pc += 1;
	}
	Some(r)
}
