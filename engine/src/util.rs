//! Small helpers shared by the checks.

use std::collections::HashMap;
use std::sync::Mutex;

static FN_CACHE: Mutex<Option<HashMap<String, String>>> = Mutex::new(None);

/// Turn a panic site "file:line" into a signature that survives line shifts: the file plus the
/// name of the enclosing function (looked up in /repo's working tree), plus the normalised
/// beginning of the message.
pub fn site_signature(site: &str, message: &str) -> String
{
	let mut guard = FN_CACHE.lock().unwrap();
	let cache = guard.get_or_insert_with(HashMap::new);
	let place = cache
		.entry(site.to_string())
		.or_insert_with(|| {
			let (file, line) = match site.rsplit_once(':')
			{
				Some((f, l)) => (f.to_string(), l.parse::<usize>().unwrap_or(0)),
				None => (site.to_string(), 0),
			};
			let short = file.strip_prefix("/repo/").unwrap_or(&file).to_string();
			let mut function = String::from("?");
			if let Ok(text) = std::fs::read_to_string(&file)
			{
				let lines: Vec<&str> = text.lines().collect();
				let mut k = line.min(lines.len());
				while k > 0
				{
					k -= 1;
					let l = lines[k].trim_start();
					let l = l.strip_prefix("pub(crate) ").or_else(|| l.strip_prefix("pub(super) ")).or_else(|| l.strip_prefix("pub ")).unwrap_or(l);
					let l = l.strip_prefix("unsafe ").unwrap_or(l);
					if let Some(rest) = l.strip_prefix("fn ")
					{
						function = rest.chars().take_while(|c| c.is_alphanumeric() || *c == '_').collect();
						break;
					}
				}
			}
			format!("{short}::{function}")
		})
		.clone();
	// A message that is the Debug dump of a value (typically a ValueType in an assertion) is
	// reduced to a placeholder, so that one assertion site gives one signature.
	let first_word: String = message.chars().take_while(|c| c.is_alphanumeric()).collect();
	let rest = &message[first_word.len()..];
	let msg: String = if !first_word.is_empty() && first_word.chars().next().unwrap().is_uppercase() && (rest.starts_with(" {") || rest.starts_with('(') || rest.is_empty())
	{
		"<value dump>".to_string()
	}
	else
	{
		crate::pool::normalise_message(message).chars().take(48).collect()
	};
	format!("{place}:{msg}")
}

/// All permutations of 0..n in lexicographic order.
pub fn permutations(n: usize) -> Vec<Vec<usize>>
{
	fn rec(cur: &mut Vec<usize>, used: &mut Vec<bool>, n: usize, out: &mut Vec<Vec<usize>>)
	{
		if cur.len() == n
		{
			out.push(cur.clone());
			return;
		}
		for i in 0..n
		{
			if !used[i]
			{
				used[i] = true;
				cur.push(i);
				rec(cur, used, n, out);
				cur.pop();
				used[i] = false;
			}
		}
	}
	let mut out = Vec::new();
	rec(&mut Vec::new(), &mut vec![false; n], n, &mut out);
	out
}

/// All .pn files of /repo's working tree (corpus), sorted.
pub fn corpus_files() -> Vec<String>
{
	fn walk(dir: &std::path::Path, out: &mut Vec<String>)
	{
		let Ok(rd) = std::fs::read_dir(dir)
		else
		{
			return;
		};
		for e in rd.flatten()
		{
			let p = e.path();
			let name = p.file_name().map(|n| n.to_string_lossy().to_string()).unwrap_or_default();
			if p.is_dir()
			{
				if name != "target" && name != ".git"
				{
					walk(&p, out);
				}
			}
			else if name.ends_with(".pn")
			{
				out.push(p.to_string_lossy().to_string());
			}
		}
	}
	let mut out = Vec::new();
	walk(std::path::Path::new("/repo"), &mut out);
	out.sort();
	out
}
