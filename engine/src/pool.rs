//! Worker pool with crash isolation.
//!
//! The driver process spawns N copies of itself in `worker` mode. A *job* is a JSON value that a
//! check's `work` function interprets (typically: one shard of an enumeration space). Before
//! every case the worker records the case in a memory-mapped *slot* file, so that when the worker
//! dies (LLVM abort, stack overflow, watchdog timeout) the driver knows exactly which case was in
//! flight, records it as `Crashed`, and re-runs the job with that case index marked as poisoned.

use serde::{Deserialize, Serialize};
use serde_json::{Value, json};
use std::collections::{BTreeMap, BTreeSet, VecDeque};
use std::io::{BufRead, BufReader, Write};
use std::sync::{Arc, Mutex};

pub const SLOT_SIZE: usize = 1 << 17;
pub const EXIT_TIMEOUT: i32 = 99;

#[derive(Debug, Clone, Serialize, Deserialize)]
pub struct Violation
{
	pub signature: String,
	pub size: u64,
	pub case: Value,
	pub detail: String,
}

/// Mergeable result of a job.
#[derive(Debug, Clone, Default, Serialize, Deserialize)]
pub struct JobResult
{
	/// Distinct cases evaluated (states).
	pub states: u64,
	/// Extension steps taken by the enumeration (edges, duplicates included).
	pub transitions: u64,
	/// Cases for which the implementation's observation was compared with the model.
	pub validated: u64,
	/// Histogram of observations.
	pub outcomes: BTreeMap<String, u64>,
	/// Smallest witness per signature.
	pub violations: BTreeMap<String, Violation>,
	/// Number of violating cases per signature.
	pub violation_counts: BTreeMap<String, u64>,
	/// Soft mismatches: count and one sample per key.
	pub soft: BTreeMap<String, (u64, String)>,
	/// A few sample cases.
	pub samples: Vec<Value>,
	/// Output frontier for steered breadth-first searches.
	pub frontier: Vec<String>,
	/// Named counters.
	pub counters: BTreeMap<String, u64>,
	/// Set when a cap was hit inside the job.
	pub cap_hit: Option<String>,
}

impl JobResult
{
	pub fn outcome(&mut self, key: &str)
	{
		*self.outcomes.entry(key.to_string()).or_insert(0) += 1;
	}

	pub fn count(&mut self, key: &str, n: u64)
	{
		*self.counters.entry(key.to_string()).or_insert(0) += n;
	}

	pub fn max_counter(&mut self, key: &str, n: u64)
	{
		let e = self.counters.entry(key.to_string()).or_insert(0);
		if n > *e
		{
			*e = n;
		}
	}

	pub fn soft(&mut self, key: &str, sample: impl FnOnce() -> String)
	{
		let e = self.soft.entry(key.to_string()).or_insert_with(|| (0, String::new()));
		if e.0 == 0
		{
			e.1 = sample();
		}
		e.0 += 1;
	}

	pub fn sample(&mut self, case: impl FnOnce() -> Value)
	{
		if self.samples.len() < 4
		{
			self.samples.push(case());
		}
	}

	pub fn violation(&mut self, signature: &str, size: u64, case: impl FnOnce() -> Value, detail: impl FnOnce() -> String)
	{
		*self.violation_counts.entry(signature.to_string()).or_insert(0) += 1;
		let replace = match self.violations.get(signature)
		{
			None => true,
			Some(old) => size < old.size,
		};
		if replace
		{
			self.violations.insert(
				signature.to_string(),
				Violation {
					signature: signature.to_string(),
					size,
					case: case(),
					detail: detail(),
				},
			);
		}
	}

	pub fn merge(&mut self, other: JobResult)
	{
		self.states += other.states;
		self.transitions += other.transitions;
		self.validated += other.validated;
		for (k, v) in other.outcomes
		{
			*self.outcomes.entry(k).or_insert(0) += v;
		}
		for (k, v) in other.violation_counts
		{
			*self.violation_counts.entry(k).or_insert(0) += v;
		}
		for (k, v) in other.violations
		{
			let replace = match self.violations.get(&k)
			{
				None => true,
				Some(old) =>
				{
					(v.size, v.case.to_string()) < (old.size, old.case.to_string())
				}
			};
			if replace
			{
				self.violations.insert(k, v);
			}
		}
		for (k, (n, s)) in other.soft
		{
			let e = self.soft.entry(k).or_insert_with(|| (0, String::new()));
			if e.0 == 0 || (!s.is_empty() && s.len() < e.1.len())
			{
				e.1 = s;
			}
			e.0 += n;
		}
		for s in other.samples
		{
			if self.samples.len() < 6
			{
				self.samples.push(s);
			}
		}
		self.frontier.extend(other.frontier);
		for (k, v) in other.counters
		{
			if k.starts_with("max_")
			{
				let e = self.counters.entry(k).or_insert(0);
				if v > *e
				{
					*e = v;
				}
			}
			else
			{
				*self.counters.entry(k).or_insert(0) += v;
			}
		}
		if self.cap_hit.is_none()
		{
			self.cap_hit = other.cap_hit;
		}
	}
}

// ---------------------------------------------------------------------------------------------
// Slot (memory mapped in-flight record)

pub struct Slot
{
	ptr: *mut u8,
}

unsafe impl Send for Slot {}

impl Slot
{
	pub fn open(path: &str, create: bool) -> Slot
	{
		use std::os::unix::io::AsRawFd;
		let file = std::fs::OpenOptions::new()
			.read(true)
			.write(true)
			.create(create)
			.truncate(false)
			.open(path)
			.unwrap_or_else(|e| panic!("cannot open slot {path}: {e}"));
		file.set_len(SLOT_SIZE as u64).unwrap();
		let ptr = unsafe {
			libc::mmap(
				std::ptr::null_mut(),
				SLOT_SIZE,
				libc::PROT_READ | libc::PROT_WRITE,
				libc::MAP_SHARED,
				file.as_raw_fd(),
				0,
			)
		};
		assert!(ptr != libc::MAP_FAILED, "mmap failed");
		Slot { ptr: ptr as *mut u8 }
	}

	pub fn clear(&self)
	{
		unsafe {
			std::ptr::write_bytes(self.ptr, 0, 32);
		}
	}

	/// Record the case in flight: index within the job (1-based; 0 = none) and a description.
	#[inline]
	pub fn record(&self, index: u64, desc: &[u8])
	{
		let n = desc.len().min(SLOT_SIZE - 32);
		unsafe {
			std::ptr::copy_nonoverlapping(desc.as_ptr(), self.ptr.add(32), n);
			std::ptr::write_volatile(self.ptr.add(8) as *mut u64, n as u64);
			std::ptr::write_volatile(self.ptr as *mut u64, index);
			std::ptr::write_volatile(self.ptr.add(16) as *mut u64, now_millis());
		}
	}

	#[inline]
	pub fn done(&self)
	{
		unsafe {
			std::ptr::write_volatile(self.ptr as *mut u64, 0);
		}
	}

	pub fn read(&self) -> Option<(u64, String)>
	{
		unsafe {
			let index = std::ptr::read_volatile(self.ptr as *const u64);
			if index == 0
			{
				return None;
			}
			let n = (std::ptr::read_volatile(self.ptr.add(8) as *const u64) as usize).min(SLOT_SIZE - 32);
			let bytes = std::slice::from_raw_parts(self.ptr.add(32), n);
			Some((index, String::from_utf8_lossy(bytes).to_string()))
		}
	}

	pub fn started_millis(&self) -> (u64, u64)
	{
		unsafe {
			(
				std::ptr::read_volatile(self.ptr as *const u64),
				std::ptr::read_volatile(self.ptr.add(16) as *const u64),
			)
		}
	}
}

pub fn now_millis() -> u64
{
	let mut ts = libc::timespec { tv_sec: 0, tv_nsec: 0 };
	unsafe {
		libc::clock_gettime(libc::CLOCK_MONOTONIC, &mut ts);
	}
	(ts.tv_sec as u64) * 1000 + (ts.tv_nsec as u64) / 1_000_000
}

// ---------------------------------------------------------------------------------------------
// Worker side

pub struct WorkerCtx
{
	pub slot: Slot,
	pub index: u64,
	pub poisoned: BTreeSet<u64>,
	pub result: JobResult,
	pub tier: String,
}

pub enum CaseOutcome<T>
{
	Done(T),
	Panicked
	{
		site: String,
		message: String,
	},
	/// The case index is in the poisoned set: a previous attempt killed the worker.
	Crashed
	{
		how: String,
	},
}

thread_local! {
	static IN_CASE: std::cell::Cell<bool> = std::cell::Cell::new(false);
	static LAST_PANIC: std::cell::RefCell<(String, String)> = std::cell::RefCell::new((String::new(), String::new()));
}

pub fn install_panic_hook()
{
	std::panic::set_hook(Box::new(|info| {
		let site = match info.location()
		{
			Some(l) => format!("{}:{}", l.file(), l.line()),
			None => "unknown".to_string(),
		};
		let payload = info.payload();
		let message = if let Some(s) = payload.downcast_ref::<&str>()
		{
			s.to_string()
		}
		else if let Some(s) = payload.downcast_ref::<String>()
		{
			s.clone()
		}
		else
		{
			"non-string panic payload".to_string()
		};
		if !IN_CASE.with(|c| c.get())
		{
			eprintln!("worker panic outside a case at {site}: {message}");
		}
		LAST_PANIC.with(|x| *x.borrow_mut() = (site, message));
	}));
}

pub fn take_last_panic() -> (String, String)
{
	LAST_PANIC.with(|x| std::mem::take(&mut *x.borrow_mut()))
}

impl WorkerCtx
{
	/// Run one case of the subject under crash isolation. `desc` is only evaluated when needed
	/// cheaply: it is written to the slot before the subject runs.
	pub fn run_case<T>(&mut self, desc: &[u8], f: impl FnOnce() -> T) -> CaseOutcome<T>
	{
		self.index += 1;
		if !self.poisoned.is_empty() && self.poisoned.contains(&self.index)
		{
			return CaseOutcome::Crashed { how: String::new() };
		}
		self.slot.record(self.index, desc);
		IN_CASE.with(|c| c.set(true));
		let r = std::panic::catch_unwind(std::panic::AssertUnwindSafe(f));
		IN_CASE.with(|c| c.set(false));
		self.slot.done();
		match r
		{
			Ok(x) => CaseOutcome::Done(x),
			Err(_) =>
			{
				let (site, message) = take_last_panic();
				CaseOutcome::Panicked { site, message }
			}
		}
	}
}

pub type WorkFn = fn(&Value, &mut WorkerCtx);

/// Worker main loop: read jobs (JSON lines) from stdin, answer with JSON lines on stdout.
pub fn worker_main(slot_path: &str, tier: &str, case_timeout_ms: u64, work: WorkFn)
{
	install_panic_hook();
	let slot = Slot::open(slot_path, false);
	// Watchdog: kill the process when one case runs too long.
	{
		let watch = Slot::open(slot_path, false);
		std::thread::spawn(move || {
			loop
			{
				std::thread::sleep(std::time::Duration::from_millis(200));
				let (index, started) = watch.started_millis();
				if index != 0 && now_millis().saturating_sub(started) > case_timeout_ms
				{
					// Re-check that it is still the same case.
					let (index2, started2) = watch.started_millis();
					if index2 == index && started2 == started
					{
						unsafe { libc::_exit(EXIT_TIMEOUT) };
					}
				}
			}
		});
	}
	let stdin = std::io::stdin();
	let stdout = std::io::stdout();
	let mut line = String::new();
	let mut ctx = WorkerCtx {
		slot,
		index: 0,
		poisoned: BTreeSet::new(),
		result: JobResult::default(),
		tier: tier.to_string(),
	};
	loop
	{
		line.clear();
		let n = stdin.lock().read_line(&mut line).unwrap_or(0);
		if n == 0
		{
			break;
		}
		let msg: Value = serde_json::from_str(&line).expect("bad job line");
		let spec = &msg["spec"];
		ctx.index = 0;
		ctx.poisoned = msg["poisoned"]
			.as_array()
			.map(|a| a.iter().filter_map(|x| x.as_u64()).collect())
			.unwrap_or_default();
		ctx.result = JobResult::default();
		ctx.slot.clear();
		work(spec, &mut ctx);
		let out = serde_json::to_string(&ctx.result).unwrap();
		let mut lock = stdout.lock();
		lock.write_all(out.as_bytes()).unwrap();
		lock.write_all(b"\n").unwrap();
		lock.flush().unwrap();
	}
}

// ---------------------------------------------------------------------------------------------
// Driver side

pub struct Pool
{
	pub check: String,
	pub tier: String,
	pub workers: usize,
	pub run_dir: String,
	pub exe: String,
	pub release_exe: Option<String>,
	pub case_timeout_ms: u64,
	pub crashes: Vec<Value>,
}

struct Child
{
	proc: std::process::Child,
	stdin: std::process::ChildStdin,
	stdout: BufReader<std::process::ChildStdout>,
	stderr_path: String,
}

impl Pool
{
	fn spawn(&self, w: usize, release: bool) -> Child
	{
		let slot_path = format!("{}/slot-{}", self.run_dir, w);
		let stderr_path = format!("{}/stderr-{}", self.run_dir, w);
		let _ = Slot::open(&slot_path, true);
		let stderr = std::fs::File::create(&stderr_path).unwrap();
		let exe = if release { self.release_exe.as_ref().unwrap_or(&self.exe) } else { &self.exe };
		let mut proc = std::process::Command::new(exe)
			.arg("worker")
			.arg(&self.check)
			.arg(&self.tier)
			.arg(&slot_path)
			.arg(self.case_timeout_ms.to_string())
			.stdin(std::process::Stdio::piped())
			.stdout(std::process::Stdio::piped())
			.stderr(stderr)
			.spawn()
			.expect("cannot spawn worker");
		let stdin = proc.stdin.take().unwrap();
		let stdout = BufReader::new(proc.stdout.take().unwrap());
		Child { proc, stdin, stdout, stderr_path }
	}

	/// Run all jobs; returns the merged result. Crashes of workers are turned into
	/// `crash:` violations attributed to the case in flight.
	pub fn run(&mut self, jobs: Vec<Value>) -> JobResult
	{
		self.run_profile(jobs, false)
	}

	pub fn run_profile(&mut self, jobs: Vec<Value>, release: bool) -> JobResult
	{
		let queue: Arc<Mutex<VecDeque<Value>>> = Arc::new(Mutex::new(jobs.into_iter().collect()));
		let merged: Arc<Mutex<JobResult>> = Arc::new(Mutex::new(JobResult::default()));
		let crashes: Arc<Mutex<Vec<Value>>> = Arc::new(Mutex::new(Vec::new()));
		let fatal: Arc<Mutex<Option<String>>> = Arc::new(Mutex::new(None));
		std::thread::scope(|scope| {
			for w in 0..self.workers
			{
				let queue = queue.clone();
				let merged = merged.clone();
				let crashes = crashes.clone();
				let fatal = fatal.clone();
				let this = &*self;
				scope.spawn(move || {
					let slot_path = format!("{}/slot-{}", this.run_dir, w);
					let mut child: Option<Child> = None;
					loop
					{
						let job = { queue.lock().unwrap().pop_front() };
						let Some(job) = job
						else
						{
							break;
						};
						let mut poisoned: Vec<u64> = Vec::new();
						let mut crash_records: Vec<(u64, String, String)> = Vec::new();
						loop
						{
							if child.is_none()
							{
								child = Some(this.spawn(w, release));
							}
							let c = child.as_mut().unwrap();
							let msg = json!({"spec": job, "poisoned": poisoned});
							let mut ok = writeln!(c.stdin, "{}", msg).is_ok();
							ok = ok && c.stdin.flush().is_ok();
							let mut line = String::new();
							let n = if ok { c.stdout.read_line(&mut line).unwrap_or(0) } else { 0 };
							if n > 0 && line.ends_with('\n')
							{
								match serde_json::from_str::<JobResult>(&line)
								{
									Ok(mut r) =>
									{
										// Attribute the crashes of this job.
										for (index, desc, how) in crash_records.drain(..)
										{
											let case: Value = serde_json::from_str(&desc).unwrap_or(Value::String(desc.clone()));
											let hint = case.get("sig_hint").and_then(|h| h.as_str()).map(|h| format!(":{h}")).unwrap_or_default();
											let sig = format!("crash:{}{}", how, hint);
											let size = case.get("size").and_then(|h| h.as_u64()).unwrap_or(desc.len() as u64);
											r.outcome("crashed");
											r.violation(&sig, size, || case.clone(), || format!("worker died ({how}) while running case #{index} of job {job}"));
										}
										merged.lock().unwrap().merge(r);
									}
									Err(e) =>
									{
										*fatal.lock().unwrap() = Some(format!("bad worker answer: {e}: {}", &line[..line.len().min(300)]));
									}
								}
								break;
							}
							// The worker died.
							let mut c = child.take().unwrap();
							let status = c.proc.wait().ok();
							let slot = Slot::open(&slot_path, false);
							let inflight = slot.read();
							let stderr_tail = tail_of_file(&c.stderr_path, 2000);
							let how = describe_death(status, &stderr_tail);
							match inflight
							{
								Some((index, desc)) =>
								{
									crashes.lock().unwrap().push(json!({"job": job, "index": index, "case": desc, "how": how, "stderr": stderr_tail}));
									poisoned.push(index);
									crash_records.push((index, desc, how));
									slot.clear();
									if poisoned.len() >= 25
									{
										// Crash flood: give up on this job, keep the crashes as violations.
										let mut r = JobResult::default();
										for (index, desc, how) in crash_records.drain(..)
										{
											let case: Value = serde_json::from_str(&desc).unwrap_or(Value::String(desc.clone()));
											let hint = case.get("sig_hint").and_then(|h| h.as_str()).map(|h| format!(":{h}")).unwrap_or_default();
											let sig = format!("crash:{}{}", how, hint);
											let size = case.get("size").and_then(|h| h.as_u64()).unwrap_or(desc.len() as u64);
											r.outcome("crashed");
											r.states += 1;
											r.violation(&sig, size, || case.clone(), || format!("worker died ({how}) while running case #{index} of job {job}"));
										}
										r.cap_hit = Some(format!("job {job} abandoned after 25 worker crashes"));
										merged.lock().unwrap().merge(r);
										break;
									}
								}
								None =>
								{
									*fatal.lock().unwrap() = Some(format!(
										"worker died outside any case ({how}) in job {job}; stderr: {stderr_tail}"
									));
									break;
								}
							}
						}
						if fatal.lock().unwrap().is_some()
						{
							break;
						}
					}
					if let Some(mut c) = child
					{
						drop(c.stdin);
						let _ = c.proc.wait();
					}
				});
			}
		});
		if let Some(f) = fatal.lock().unwrap().take()
		{
			eprintln!("MACHINERY FAILURE: {f}");
			std::process::exit(2);
		}
		self.crashes.extend(crashes.lock().unwrap().drain(..));
		Arc::try_unwrap(merged).unwrap().into_inner().unwrap()
	}
}

fn tail_of_file(path: &str, n: usize) -> String
{
	let bytes = std::fs::read(path).unwrap_or_default();
	let start = bytes.len().saturating_sub(n);
	String::from_utf8_lossy(&bytes[start..]).to_string()
}

/// A cause-level description of a worker death: signal/exit status plus the most specific line
/// of stderr (an LLVM assertion/verifier message, "stack overflow", ...), with numbers and
/// identifiers that vary between witnesses blanked out.
fn describe_death(status: Option<std::process::ExitStatus>, stderr: &str) -> String
{
	use std::os::unix::process::ExitStatusExt;
	let base = match status
	{
		Some(s) =>
		{
			if let Some(sig) = s.signal()
			{
				match sig
				{
					libc::SIGSEGV => "SIGSEGV".to_string(),
					libc::SIGABRT => "SIGABRT".to_string(),
					libc::SIGBUS => "SIGBUS".to_string(),
					libc::SIGKILL => "SIGKILL".to_string(),
					libc::SIGILL => "SIGILL".to_string(),
					other => format!("signal{other}"),
				}
			}
			else if s.code() == Some(EXIT_TIMEOUT)
			{
				"timeout".to_string()
			}
			else
			{
				format!("exit{}", s.code().unwrap_or(-1))
			}
		}
		None => "unknown".to_string(),
	};
	let mut hint = String::new();
	if stderr.contains("has overflowed its stack") || stderr.contains("stack overflow")
	{
		hint = "stack-overflow".to_string();
	}
	else
	{
		for line in stderr.lines()
		{
			let l = line.trim();
			if l.is_empty()
			{
				continue;
			}
			if l.contains("LLVM ERROR") || l.contains("Assertion") || l.contains("verif") || l.contains("Broken") || l.contains("does not") || l.contains("invalid") || l.contains("Invalid") || l.contains("mismatch") || l.contains("must be") || l.contains("not of") || l.contains("expected")
			{
				hint = normalise_message(l);
				break;
			}
		}
		if hint.is_empty()
		{
			if let Some(l) = stderr.lines().find(|l| !l.trim().is_empty())
			{
				hint = normalise_message(l.trim());
			}
		}
	}
	if hint.is_empty() { base } else { format!("{base}:{hint}") }
}

pub fn normalise_message(l: &str) -> String
{
	let mut out = String::new();
	let mut last_hash = false;
	for c in l.chars().take(90)
	{
		if c.is_ascii_digit()
		{
			if !last_hash
			{
				out.push('#');
			}
			last_hash = true;
		}
		else
		{
			last_hash = false;
			if c.is_ascii_alphanumeric() || " :_-.,'%@()[]*".contains(c)
			{
				out.push(c);
			}
		}
	}
	out
}
