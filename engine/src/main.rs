//! pvmc — bounded exhaustive exploration of SLiV9/penne against reference models.

mod checks;
mod driver;
mod model;
mod pool;
mod spaces;
mod subjects;
mod util;

use driver::Driver;
use pool::{Pool, WorkFn};
use serde_json::{Value, json};
use std::collections::BTreeMap;

struct CheckDef
{
	id: &'static str,
	drive: fn(&mut Driver),
	work: WorkFn,
	case_timeout_ms: u64,
	level_text: &'static str,
}

fn registry() -> Vec<CheckDef>
{
	vec![
		CheckDef {
			id: "C14",
			drive: checks::c14::drive,
			work: checks::c14::work,
			case_timeout_ms: 10_000,
			level_text: "exhaustive enumeration of all strings up to a length bound over the lexical alphabet and of all fragment concatenations, each lexed by both real lexers and compared with an independent reference lexer and with each other",
		},
		CheckDef {
			id: "C15",
			drive: checks::c15::drive,
			work: checks::c15::work,
			case_timeout_ms: 20_000,
			level_text: "exhaustive enumeration of byte strings, fragment concatenations and token sequences (full and viable-prefix breadth-first from the empty input and from non-initial contexts), density/nesting pumps and limit probes through the real second-generation lexer, parser, header extraction and XML dumps, under a totality oracle and the reference lexer",
		},
		CheckDef {
			id: "C16",
			drive: checks::c16::drive,
			work: checks::c16::work,
			case_timeout_ms: 20_000,
			level_text: "exhaustive enumeration of bounded derivations of the model grammar (every production, operator, precedence pattern, statement nesting, type form, declaration kind) in canonical and deviated layouts; each module parsed by both real parsers and compared with the model's own syntax tree",
		},
		CheckDef {
			id: "C17",
			drive: checks::c17::drive,
			work: checks::c17::work,
			case_timeout_ms: 20_000,
			level_text: "exhaustive enumeration of all sequences of declarations (9 kinds x 3 visibilities) up to a length bound, i.e. every pattern of private zones; the real build_header output is compared with the parse of the model's projection and with the projection's model tree",
		},
		CheckDef {
			id: "C20",
			drive: checks::c20::drive,
			work: checks::c20::work,
			case_timeout_ms: 20_000,
			level_text: "exhaustive enumeration of bounded derivations of the model grammar (every declaration, statement, type and expression form) and all corpus files; each is parsed, rebuilt, parsed again and rebuilt again by the real first-generation code, and the two trees and the two texts are compared",
		},
		CheckDef {
			id: "C19",
			drive: checks::c19::drive,
			work: checks::c19::work,
			case_timeout_ms: 30_000,
			level_text: "the real token fuzzer is run under a scripted random number generator owned by the explorer: exhaustive over sequences of consecutive token kinds with the separator decision between them both ways at several positions, and over single and double deviations of every spelling draw inside each token kind over a grid of raw answers; every output is lexed by both real lexers",
		},
		CheckDef {
			id: "C04",
			drive: checks::c04::drive,
			work: checks::c04::work,
			case_timeout_ms: 20_000,
			level_text: "exhaustive enumeration (up to renaming of labels) of all function bodies built from two labels, gotos, conditional gotos and nested blocks up to a size bound, each compiled by the real first-generation pipeline and judged against a reference label-scoping model: verdict, codes and the lines the diagnostics point at",
		},
		CheckDef {
			id: "C06",
			drive: checks::c06::drive,
			work: checks::c06::work,
			case_timeout_ms: 20_000,
			level_text: "exhaustive enumeration of all statement trees over {block, if, if-else, else-if chains, goto, loop, assignment, label} up to a size and nesting bound, each compiled by the real first-generation pipeline and compared with a reference placement model: verdict, codes E800/E801/E840 with their lines, and the exact set of L1800 lints",
		},
		CheckDef {
			id: "C05",
			drive: checks::c05::drive,
			work: checks::c05::work,
			case_timeout_ms: 20_000,
			level_text: "exhaustive enumeration (up to renaming) of all function bodies built from two variables, their uses, two labels, gotos, conditional gotos, loops and nested blocks up to a size bound, each compiled by the real first-generation pipeline and judged against the scoping model (lexical rules, documented prune rule) and an independent control-flow path analysis",
		},
		CheckDef {
			id: "C07",
			drive: checks::c07::drive,
			work: checks::c07::work,
			case_timeout_ms: 20_000,
			level_text: "complete enumeration of the finite type matrix (operators, comparisons, unary operators and casts over 18 operand forms, and 13 target types x 18 source operands in 8 contexts, call arities, access operations), one program per cell through the real pipeline, judged against a type-rule table; plus an invariant monitor over the resolved tree of every accepted program",
		},
		CheckDef {
			id: "C02",
			drive: checks::c02::drive,
			work: checks::c02::work,
			case_timeout_ms: 20_000,
			level_text: "exhaustive enumeration of token sequences (full, and viable-prefix breadth-first from the empty input and from non-initial contexts), character strings and fragment concatenations, the single-fault neighbourhood of grammar-derived programs and corpus files, nesting pumps and all histories of up to three module kinds through one Compiler; every case runs the complete real pipeline in a crash-isolated worker under the invariant: success with IR, or failure with at least one diagnostic",
		},
		CheckDef {
			id: "C03",
			drive: checks::c03::drive,
			work: checks::c03::work,
			case_timeout_ms: 30_000,
			level_text: "every accepted program of the exhaustive spaces (complete type matrix, all label/variable/placement bodies up to a size bound, all declaration shapes natively and for wasm, all module histories, the corpus) is compiled by the real pipeline; the printed IR of every module and of the linked program is judged by LLVM's own assembler and verifier as separate processes and by a linkage model",
		},
		CheckDef {
			id: "C11",
			drive: checks::c11::drive,
			work: checks::c11::work,
			case_timeout_ms: 30_000,
			level_text: "exhaustive enumeration of all labelled dependency digraphs on a bounded number of containers (constants and structures) with every kind assignment and every permutation of the declarations, all duplicate-name pairs, a type x position legality table under several declaration orders and all word member lists up to three members; each program compiled by the real pipeline and compared with a graph model (acyclic <=> accepted, cycle codes) and across permutations",
		},
		CheckDef {
			id: "C12",
			drive: checks::c12::drive,
			work: checks::c12::work,
			case_timeout_ms: 60_000,
			level_text: "exhaustive enumeration of programs over a fixed universe of items x all set partitions into 2-4 modules with the induced pub/import lines x all file orders x all orders in which the expander can splice the import pairs (merged by expanded state), every visibility negative of every split, name-reuse scenarios and every history of distinct unrelated modules up to length 3 through one Compiler; each compiled by the real pipeline, linked and executed, compared with the model output of the single-file program and with the module compiled alone",
		},
		CheckDef {
			id: "C13",
			drive: checks::c13::drive,
			work: checks::c13::work,
			case_timeout_ms: 60_000,
			level_text: "exhaustive enumeration of failing and linting inputs from the bounded spaces of the other properties (type and mutability matrices, label / variable / placement bodies, token sequences, single-fault neighbourhoods, cyclic declaration graphs, corpus) plus marker programs with a known offender and multi-file programs, each in six token-preserving layouts; every diagnostic checked against the catalogue, the file, the line, the reference lexer's lexeme boundaries and the known offender, rendered in four configurations, compiled twice in one process and once more in a fresh process; every splice schedule of a hash-ordered import set",
		},
		CheckDef {
			id: "C18",
			drive: checks::c18::drive,
			work: checks::c18::work,
			case_timeout_ms: 60_000,
			level_text: "complete enumeration of the finite configuration product subcommand x input class x path form x verbosity x colour x arrows x out-dir x wasm and of the backend table flag x environment x config x backend answer x arguments, each run as a process of the real binary with recording stub backends (and end to end with lli and clang), compared with a reference model of the command line and with the library API's diagnostics and IR",
		},
		CheckDef {
			id: "C09",
			drive: checks::c09::drive,
			work: checks::c09::work,
			case_timeout_ms: 60_000,
			level_text: "complete enumeration of the finite literal matrix (integer types x type context x boundary magnitudes x spellings x signs; every byte value, raw character, escape form and unicode boundary in character and string position; adjacent-literal concatenations; every malformed form), each compiled by the real pipeline and executed with lli; run-time values, the L1142 lint and the rejection codes are compared with an arbitrary-precision reference model",
		},
		CheckDef {
			id: "C10",
			drive: checks::c10::drive,
			work: checks::c10::work,
			case_timeout_ms: 120_000,
			level_text: "complete enumeration of operator x type x boundary operand pairs, all casts between integer types, two-operator expressions in both nestings, named lengths 0..8 through every parameter kind, and size-of for every member list up to length 3; each expression is evaluated by the real compiler as a constant (folded through LLVM) and at run time (lli) and both are compared with fixed-width reference arithmetic and a layout model",
		},
		CheckDef {
			id: "C01",
			drive: checks::c01::drive,
			work: checks::c01::work,
			case_timeout_ms: 180_000,
			level_text: "four exhaustive families (operator x type x boundary-operand matrix incl. all comparisons and casts; all control-flow bodies up to a size bound; element type x storage x access path x access mode; every single-gap layout deviation of the data-access programs), each program compiled by the real pipeline, executed with lli and compared on full standard output and exit status with reference semantics",
		},
		CheckDef {
			id: "C08",
			drive: checks::c08::drive,
			work: checks::c08::work,
			case_timeout_ms: 60_000,
			level_text: "complete enumeration of parameter kind x callee action x caller argument form, whole-aggregate copies, constant assignments and all two-level pass-through combinations; verdicts against the documented mutability rules and, for every accepted program, the non-interference clause checked on the executed program",
		},
	]
}

fn find(id: &str) -> CheckDef
{
	registry().into_iter().find(|c| c.id == id).unwrap_or_else(|| {
		eprintln!("unknown check {id}");
		std::process::exit(2);
	})
}

fn main()
{
	let args: Vec<String> = std::env::args().collect();
	if args.len() < 2
	{
		eprintln!("usage: pvmc check <ID> <quick|thorough> | pvmc replay <file> | pvmc worker ...");
		std::process::exit(2);
	}
	match args[1].as_str()
	{
		"worker" =>
		{
			let def = find(&args[2]);
			let tier = &args[3];
			let slot = &args[4];
			let timeout: u64 = args[5].parse().unwrap();
			pool::worker_main(slot, tier, timeout, def.work);
		}
		"check" =>
		{
			let def = find(&args[2]);
			let tier = args.get(3).cloned().unwrap_or("quick".into());
			std::process::exit(run_check(def, &tier, None));
		}
		"replay" =>
		{
			let text = std::fs::read_to_string(&args[2]).expect("cannot read replay file");
			let v: Value = serde_json::from_str(&text).expect("bad replay file");
			let def = find(v["property"].as_str().unwrap());
			std::process::exit(run_check(def, "quick", Some(v)));
		}
		"debug-typer" =>
		{
			use penne::alpha::{expander, lexer, parser, rebuilder, scoper, typer};
			let src = std::fs::read_to_string(&args[2]).unwrap();
			let decls = parser::parse(lexer::lex(&src, "m.pn"));
			let decls = expander::expand_one("m.pn", decls);
			let decls = scoper::analyze(decls);
			let mut t = typer::Typer::default();
			let decls: Vec<_> = decls.into_iter().map(|d| t.declare(d)).collect();
			let decls: Vec<_> = decls.into_iter().map(|d| t.analyze(d)).collect();
			let ind = rebuilder::Indentation { value: "  ", amount: 0 };
			println!("{}", rebuilder::rebuild(&decls, &ind).unwrap());
			let mut a = penne::alpha::analyzer::Analyzer::default();
			for d in &decls
			{
				a.declare(d);
			}
			let decls: Vec<_> = decls.into_iter().map(|d| a.analyze(d)).collect();
			println!("--- after analyzers\n{}", rebuilder::rebuild(&decls, &ind).unwrap());
			for d in decls
			{
				match penne::alpha::resolver::resolve(d)
				{
					Ok(_) => println!("resolved ok"),
					Err(e) => println!("errors: {:?}", e.codes()),
				}
			}
		}
		"debug-diags" =>
		{
			let files: Vec<(String, String)> = args[2..].iter().map(|a| (a.clone(), std::fs::read_to_string(a).unwrap())).collect();
			let (v, raw) = subjects::alpha::alpha_pipeline_raw(&files, subjects::alpha::FULL);
			println!("{:?}", v.codes());
			for e in &raw
			{
				let d = subjects::alpha::diag_of(e);
				let src = &files.iter().find(|f| f.0 == d.file).map(|f| f.1.clone()).unwrap_or_default();
				let text: String = src.chars().skip(d.span_start).take(d.span_end.saturating_sub(d.span_start)).collect();
				println!("E{} {}:{}:{} span {}..{} text {:?}", d.code, d.file, d.line, d.line_offset, d.span_start, d.span_end, text);
				let config = ariadne::Config::default().with_index_type(ariadne::IndexType::Char).with_color(false).with_char_set(ariadne::CharSet::Ascii);
				let config = penne::alpha::error::Config::from(config).with_color(false);
				let report = e.build_report(config);
				let mut buf = Vec::new();
				let r = report.write(ariadne::sources(files.clone()), &mut buf);
				println!("{:?}\n{}", r.is_ok(), String::from_utf8_lossy(&buf));
			}
		}
		"debug-multi" =>
		{
			// pvmc debug-multi [--perm K] [--ir] file...   (file names are used as module paths)
			let mut files = Vec::new();
			let mut show_ir = false;
			let mut i = 2;
			while i < args.len()
			{
				if args[i] == "--perm"
				{
					penne::verif::set_import_permutation(Some(args[i + 1].parse().unwrap()));
					i += 2;
					continue;
				}
				if args[i] == "--ir"
				{
					show_ir = true;
					i += 1;
					continue;
				}
				files.push((args[i].clone(), std::fs::read_to_string(&args[i]).unwrap()));
				i += 1;
			}
			let v = subjects::alpha::alpha_pipeline(&files, subjects::alpha::FULL);
			match &v
			{
				subjects::alpha::Verdict::Ok { irs, linked, lints } =>
				{
					println!("accepted, lints {:?}", lints.iter().map(|l| l.code).collect::<Vec<_>>());
					if show_ir
					{
						for ir in irs
						{
							println!("{ir}\n=====");
						}
						println!("{}", linked.clone().unwrap_or_default());
					}
					let e = subjects::exec::run_lli(linked.as_ref().unwrap(), 20_000);
					println!("lli status {:?} signal {:?}\nstdout: {}\nstderr: {}", e.status, e.signal, e.stdout, e.stderr_tail);
				}
				other => println!("{other:?}"),
			}
		}
		"anchor-sig" =>
		{
			// Print the signature of the panic (if any) that the program on stdin causes in the
			// first-generation pipeline of the current tree. Used to re-anchor known findings whose
			// panic site has moved to a differently named function.
			use std::io::Read;
			let mut text = String::new();
			std::io::stdin().read_to_string(&mut text).unwrap();
			pool::install_panic_hook();
			let r = std::panic::catch_unwind(|| subjects::alpha::compile_one(&text, subjects::alpha::FULL));
			match r
			{
				Ok(_) => println!("none"),
				Err(_) =>
				{
					let (site, message) = pool::take_last_panic();
					println!("panic@{}", util::site_signature(&site, &message));
				}
			}
		}
		"list" =>
		{
			for c in registry()
			{
				println!("{}", c.id);
			}
		}
		_ =>
		{
			eprintln!("unknown command");
			std::process::exit(2);
		}
	}
}

fn run_check(def: CheckDef, tier: &str, replay: Option<Value>) -> i32
{
	let seed: u64 = std::env::var("VERIF_SEED").ok().and_then(|s| s.parse().ok()).unwrap_or(0);
	let workers: usize = std::env::var("VERIF_WORKERS").ok().and_then(|s| s.parse().ok()).unwrap_or_else(|| {
		std::thread::available_parallelism().map(|n| n.get()).unwrap_or(4).min(16)
	});
	let run_dir = format!("{}/run/{}-{}-{}", driver::VERIF_DIR, def.id, tier, std::process::id());
	std::fs::create_dir_all(&run_dir).expect("cannot create run dir");
	let exe = std::env::current_exe().unwrap().to_string_lossy().to_string();
	let release_exe = std::env::var("PVMC_RELEASE").ok();
	let pool = Pool {
		check: def.id.to_string(),
		tier: tier.to_string(),
		workers,
		run_dir: run_dir.clone(),
		exe,
		release_exe,
		case_timeout_ms: def.case_timeout_ms,
		crashes: Vec::new(),
	};
	let deadline_s: f64 = std::env::var("VERIF_DEADLINE_S").ok().and_then(|s| s.parse().ok()).unwrap_or(if tier == "quick" { 45.0 } else { 900.0 });
	let mut d = Driver {
		id: def.id.to_string(),
		tier: tier.to_string(),
		seed,
		pool,
		total: Default::default(),
		bound: BTreeMap::new(),
		per_phase: Vec::new(),
		assumptions: Vec::new(),
		exhaustive: true,
		cap: None,
		start: std::time::Instant::now(),
		deadline_s,
		extra: BTreeMap::new(),
	};
	let code = match replay
	{
		None =>
		{
			(def.drive)(&mut d);
			driver::finish(d, def.level_text)
		}
		Some(v) =>
		{
			// Replay one case twice and insist on identical observations.
			let job = json!({"replay": v["case"]});
			d.pool.workers = 1;
			let r1 = d.pool.run(vec![job.clone()]);
			let r2 = d.pool.run(vec![job]);
			let s1: Vec<&String> = r1.violations.keys().collect();
			let s2: Vec<&String> = r2.violations.keys().collect();
			if s1 != s2
			{
				eprintln!("MACHINERY FAILURE: replay is not deterministic: {s1:?} vs {s2:?}");
				let _ = std::fs::remove_dir_all(&run_dir);
				return 2;
			}
			let wanted = v["signature"].as_str().unwrap_or("");
			let mut code = 0;
			for (sig, viol) in &r1.violations
			{
				println!("replay: signature {sig}\n  {}", driver::first_lines(&viol.detail, 8));
				if sig == wanted
				{
					code = 1;
				}
			}
			if code == 1
			{
				println!("VIOLATION property={} replay={} (reproduced)", def.id, std::env::args().nth(2).unwrap());
			}
			else
			{
				println!("replay: signature {wanted} NOT reproduced ({} other signatures)", r1.violations.len());
			}
			code
		}
	};
	let _ = std::fs::remove_dir_all(&run_dir);
	code
}
