//! S-BODY: statement forests of one function body. Atoms are property-specific (an index into an
//! atom table); `{ ... }` nests to a bounded depth; the size of a forest is its number of
//! statements, a block counting as one statement plus its contents.

use std::collections::HashMap;

#[derive(Debug, Clone, PartialEq, Eq, Hash)]
pub enum B
{
	Atom(u8),
	Block(Vec<B>),
}

pub struct BodySpace
{
	pub atoms: usize,
	memo: HashMap<(usize, usize), std::rc::Rc<Vec<Vec<B>>>>,
}

impl BodySpace
{
	pub fn new(atoms: usize) -> BodySpace
	{
		BodySpace { atoms, memo: HashMap::new() }
	}

	/// All forests with exactly n statements and block nesting at most `depth` (materialised).
	pub fn forests(&mut self, n: usize, depth: usize) -> std::rc::Rc<Vec<Vec<B>>>
	{
		if let Some(v) = self.memo.get(&(n, depth))
		{
			return v.clone();
		}
		let mut out: Vec<Vec<B>> = Vec::new();
		if n == 0
		{
			out.push(Vec::new());
		}
		else
		{
			for a in 0..self.atoms
			{
				for rest in self.forests(n - 1, depth).iter()
				{
					let mut v = Vec::with_capacity(rest.len() + 1);
					v.push(B::Atom(a as u8));
					v.extend(rest.iter().cloned());
					out.push(v);
				}
			}
			if depth > 0
			{
				for m in 0..n
				{
					let inner = self.forests(m, depth - 1);
					let rest = self.forests(n - 1 - m, depth);
					for i in inner.iter()
					{
						for r in rest.iter()
						{
							let mut v = Vec::with_capacity(r.len() + 1);
							v.push(B::Block(i.clone()));
							v.extend(r.iter().cloned());
							out.push(v);
						}
					}
				}
			}
		}
		let rc = std::rc::Rc::new(out);
		self.memo.insert((n, depth), rc.clone());
		rc
	}

	/// The choices for the first top-level statement of a forest of size n: atom a, or a block
	/// whose content has size m.
	pub fn first_choices(&self, n: usize, depth: usize) -> Vec<String>
	{
		let mut v = Vec::new();
		if n == 0
		{
			v.push("empty".to_string());
			return v;
		}
		for a in 0..self.atoms
		{
			v.push(format!("a{a}"));
		}
		if depth > 0
		{
			for m in 0..n
			{
				v.push(format!("b{m}"));
			}
		}
		v
	}

	/// Stream all forests of size n (nesting <= depth) whose first statement is the given choice.
	pub fn for_each(&mut self, n: usize, depth: usize, first: &str, f: &mut dyn FnMut(&[B]))
	{
		if first == "empty"
		{
			f(&[]);
			return;
		}
		let kind = &first[..1];
		let k: usize = first[1..].parse().unwrap();
		if kind == "a"
		{
			let mut acc = vec![B::Atom(k as u8)];
			self.stream(n - 1, depth, &mut acc, f);
		}
		else
		{
			let inner = self.forests(k, depth - 1);
			for i in inner.iter()
			{
				let mut acc = vec![B::Block(i.clone())];
				self.stream(n - 1 - k, depth, &mut acc, f);
			}
		}
	}

	fn stream(&mut self, remaining: usize, depth: usize, acc: &mut Vec<B>, f: &mut dyn FnMut(&[B]))
	{
		if remaining == 0
		{
			f(acc);
			return;
		}
		for a in 0..self.atoms
		{
			acc.push(B::Atom(a as u8));
			self.stream(remaining - 1, depth, acc, f);
			acc.pop();
		}
		if depth > 0
		{
			for m in 0..remaining
			{
				let inner = self.forests(m, depth - 1);
				for i in inner.iter()
				{
					acc.push(B::Block(i.clone()));
					self.stream(remaining - 1 - m, depth, acc, f);
					acc.pop();
				}
			}
		}
	}
}

/// Atoms in depth-first (textual) order.
pub fn atoms_in_order(forest: &[B], out: &mut Vec<u8>)
{
	for s in forest
	{
		match s
		{
			B::Atom(a) => out.push(*a),
			B::Block(inner) => atoms_in_order(inner, out),
		}
	}
}

/// Render one statement per line; returns the lines and, for each atom in textual order, its
/// 0-based line index within the rendered body.
pub fn render_lines(forest: &[B], atom_text: &dyn Fn(u8) -> String, indent: usize, lines: &mut Vec<String>, atom_lines: &mut Vec<usize>)
{
	for s in forest
	{
		match s
		{
			B::Atom(a) =>
			{
				atom_lines.push(lines.len());
				lines.push(format!("{}{}", "\t".repeat(indent), atom_text(*a)));
			}
			B::Block(inner) =>
			{
				lines.push(format!("{}{{", "\t".repeat(indent)));
				render_lines(inner, atom_text, indent + 1, lines, atom_lines);
				lines.push(format!("{}}}", "\t".repeat(indent)));
			}
		}
	}
}
