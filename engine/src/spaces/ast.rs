//! S-AST: bounded exhaustive derivations of the model grammar.

use crate::model::grammar::*;

fn r(base: &str) -> Reference
{
	Reference { addr: 0, base: base.to_string(), steps: vec![] }
}
fn id(base: &str) -> Expr
{
	Expr::Ref(r(base))
}
fn int(s: &str) -> Expr
{
	Expr::Int(s.to_string())
}
fn b(e: Expr) -> Box<Expr>
{
	Box::new(e)
}

pub const PRIMS: [&str; 14] = ["i8", "i16", "i32", "i64", "i128", "u8", "u16", "u32", "u64", "u128", "usize", "bool", "char8", "void"];

/// Every leaf form of an expression (no operators).
pub fn leaf_forms() -> Vec<Expr>
{
	let mut v = vec![
		int("0"),
		int("1"),
		int("17"),
		int("500_000_000"),
		int("1_"),
		int("0x0"),
		int("0xfb4934ff"),
		int("0XFF".to_lowercase().as_str()),
		int("0xFF_FF"),
		int("0b0"),
		int("0b1100_0011"),
		int("170141183460469231731687303715884105727"),
		int("170141183460469231731687303715884105728"),
		int("340282366920938463463374607431768211455"),
		int("0xffffffffffffffffffffffffffffffff"),
		int("12i8"),
		int("0u8"),
		int("255u8"),
		int("0x7fi8"),
		int("0x80i8"),
		int("0b1u16"),
		int("1usize"),
		int("1i128"),
		int("340282366920938463463374607431768211455u128"),
		Expr::Char("'a'".into()),
		Expr::Char("'\\n'".into()),
		Expr::Char("'\\x41'".into()),
		Expr::Char("'\\''".into()),
		Expr::Char("' '".into()),
		Expr::Char("'\\0'".into()),
		Expr::Bool(true),
		Expr::Bool(false),
		Expr::Str(vec!["\"\"".into()]),
		Expr::Str(vec!["\"s\"".into()]),
		Expr::Str(vec!["\"\\\"\"".into()]),
		Expr::Str(vec!["\"a\\\"\"".into()]),
		Expr::Str(vec!["\"\\\"a\\\"\"".into(), "\"b\"".into()]),
		Expr::Char("'\"'".into()),
		Expr::Str(vec!["\"a b\\n\\t\\\\\\\"\\x41\\u{20ac}\\0\"".into()]),
		Expr::Str(vec!["\"\u{e9}\u{20ac}\"".into()]),
		Expr::Str(vec!["\"a\"".into(), "\"b\"".into()]),
		Expr::Str(vec!["\"a\"".into(), "\"\"".into(), "\"c\"".into()]),
		id("a"),
	];
	// calls
	for (name, builtin) in [("f", false), ("print!", true), ("abc!", true)]
	{
		for args in [vec![], vec![id("a")], vec![id("a"), int("1")]]
		{
			for trailing in [false, true]
			{
				if trailing && args.is_empty()
				{
					continue;
				}
				v.push(Expr::Call { name: name.into(), builtin, args: args.clone(), trailing_comma: trailing });
			}
		}
	}
	// array literals
	for items in [vec![], vec![id("a")], vec![id("a"), int("1")]]
	{
		for trailing in [false, true]
		{
			if trailing && items.is_empty()
			{
				continue;
			}
			v.push(Expr::Array(items.clone(), trailing));
		}
	}
	// struct literals
	// members whose value is a reference that starts with the member's own name
	let same = |steps: Vec<Step>, addr: u8| Expr::Ref(Reference { addr, base: "m".into(), steps });
	for fields in [
		vec![("m".to_string(), Some(same(vec![], 0)))],
		vec![("m".to_string(), Some(same(vec![Step::Index(int("1"))], 0)))],
		vec![("m".to_string(), Some(same(vec![Step::Member("n".to_string())], 0)))],
		vec![("m".to_string(), Some(same(vec![Step::Index(id("i")), Step::Member("n".to_string())], 0))), ("n".to_string(), None)],
		vec![("m".to_string(), Some(same(vec![], 1)))],
		vec![("m".to_string(), Some(same(vec![Step::Index(int("0"))], 1)))],
	]
	{
		v.push(Expr::Struct { name: "S".into(), fields: fields.clone(), trailing_comma: false });
	}
	for fields in [
		vec![],
		vec![("m".to_string(), Some(int("1")))],
		vec![("m".to_string(), None)],
		vec![("m".to_string(), Some(id("a"))), ("n".to_string(), None)],
		vec![("m".to_string(), None), ("n".to_string(), Some(int("1")))],
	]
	{
		for trailing in [false, true]
		{
			if trailing && fields.is_empty()
			{
				continue;
			}
			v.push(Expr::Struct { name: "S".into(), fields: fields.clone(), trailing_comma: trailing });
		}
	}
	// references
	let idx = |e: Expr| Step::Index(e);
	let mem = |m: &str| Step::Member(m.to_string());
	for steps in [
		vec![idx(int("0"))],
		vec![mem("m")],
		vec![idx(id("i")), mem("m")],
		vec![mem("m"), idx(int("1"))],
		vec![idx(int("0")), idx(int("1"))],
		vec![mem("m"), mem("n")],
		vec![idx(Expr::Binary("+", b(id("i")), b(int("1"))))],
	]
	{
		v.push(Expr::Ref(Reference { addr: 0, base: "a".into(), steps: steps.clone() }));
		v.push(Expr::Ref(Reference { addr: 1, base: "a".into(), steps }));
	}
	for addr in [1u8, 2, 3]
	{
		v.push(Expr::Ref(Reference { addr, base: "a".into(), steps: vec![] }));
	}
	v.push(Expr::Advance(Reference { addr: 1, base: "a".into(), steps: vec![] }, b(int("1"))));
	v.push(Expr::Advance(Reference { addr: 1, base: "a".into(), steps: vec![idx(int("0"))] }, b(id("n"))));
	v.push(Expr::Advance(Reference { addr: 2, base: "a".into(), steps: vec![] }, b(Expr::Binary("+", b(id("n")), b(int("1"))))));
	// length-of, size-of
	v.push(Expr::LengthOf(r("a")));
	v.push(Expr::LengthOf(Reference { addr: 1, base: "a".into(), steps: vec![] }));
	v.push(Expr::LengthOf(Reference { addr: 2, base: "a".into(), steps: vec![mem("m")] }));
	v.push(Expr::LengthOf(Reference { addr: 0, base: "a".into(), steps: vec![mem("m")] }));
	v.push(Expr::LengthOf(Reference { addr: 0, base: "a".into(), steps: vec![idx(int("0"))] }));
	v.push(Expr::SizeOf(Ty::Prim("i32")));
	v.push(Expr::SizeOf(Ty::Named("S".into())));
	v.push(Expr::SizeOf(Ty::Array(3, Box::new(Ty::Prim("u8")))));
	v.push(Expr::SizeOf(Ty::Ptr(Box::new(Ty::Prim("u8")))));
	v.push(Expr::Paren(b(id("a"))));
	v.push(Expr::Paren(b(int("1"))));
	v
}

pub const ADD_OPS: [&str; 2] = ["+", "-"];
pub const MUL_OPS: [&str; 3] = ["*", "/", "%"];
pub const BIT_OPS: [&str; 3] = ["&", "|", "^"];
pub const SHIFT_OPS: [&str; 2] = ["<<", ">>"];
pub const CMP_OPS: [&str; 6] = ["==", "!=", "<", ">", "<=", ">="];

fn is_binary(e: &Expr) -> bool
{
	matches!(e, Expr::Binary(..) | Expr::Advance(..))
}

/// All grammar-conforming expressions with exactly `n` operator applications over the leaves
/// `a` and `1`. Levels follow appendix B: expr/add, mul, singular, unary, primary.
pub struct ExprGen
{
	pub primary: Vec<Vec<Expr>>,
	pub unary: Vec<Vec<Expr>>,
	pub singular: Vec<Vec<Expr>>,
	pub mul: Vec<Vec<Expr>>,
	pub expr: Vec<Vec<Expr>>,
}

impl ExprGen
{
	pub fn new(max: usize) -> ExprGen
	{
		let mut g = ExprGen { primary: vec![], unary: vec![], singular: vec![], mul: vec![], expr: vec![] };
		for n in 0..=max
		{
			g.build(n);
		}
		g
	}

	fn build(&mut self, n: usize)
	{
		// primary with n operators
		let mut primary: Vec<Expr> = Vec::new();
		if n == 0
		{
			primary.push(id("a"));
			primary.push(int("1"));
		}
		else
		{
			// ( expr )
			for e in &self.expr[n - 1]
			{
				primary.push(Expr::Paren(b(e.clone())));
			}
			// a[expr], a.m, &a (one operator each on a plain base), nested index
			for e in &self.expr[n - 1]
			{
				primary.push(Expr::Ref(Reference { addr: 0, base: "a".into(), steps: vec![Step::Index(e.clone())] }));
			}
			if n == 1
			{
				primary.push(Expr::Ref(Reference { addr: 0, base: "a".into(), steps: vec![Step::Member("m".into())] }));
				primary.push(Expr::Ref(Reference { addr: 1, base: "a".into(), steps: vec![] }));
			}
			// f(args): one operator for the call, arguments share the rest
			for e in &self.expr[n - 1]
			{
				primary.push(Expr::Call { name: "f".into(), builtin: false, args: vec![e.clone()], trailing_comma: false });
				primary.push(Expr::Array(vec![e.clone()], false));
				primary.push(Expr::Struct { name: "S".into(), fields: vec![("m".into(), Some(e.clone()))], trailing_comma: false });
			}
			if n >= 2
			{
				for k in 0..=(n - 1)
				{
					for x in &self.expr[k]
					{
						for y in &self.expr[n - 1 - k]
						{
							if n <= 2
							{
								primary.push(Expr::Call { name: "f".into(), builtin: false, args: vec![x.clone(), y.clone()], trailing_comma: false });
							}
						}
					}
				}
			}
		}
		// unary
		let mut unary = primary.clone();
		if n >= 1
		{
			for e in &primary_at(&self.primary, &primary, n - 1)
			{
				unary.push(Expr::Unary("-", b(e.clone())));
				unary.push(Expr::Unary("!", b(e.clone())));
			}
			if n == 1
			{
				unary.push(Expr::LengthOf(r("a")));
				unary.push(Expr::SizeOf(Ty::Prim("i32")));
			}
		}
		// singular: ['cast'] unary ('as' T)*
		let mut singular = unary.clone();
		if n >= 1
		{
			for e in &level_at(&self.unary, &unary, n - 1)
			{
				singular.push(Expr::BitCast(b(e.clone())));
			}
			for e in &level_at(&self.singular, &singular, n - 1)
			{
				// `as` applies to a singular (a cast prefix or earlier `as`), not to a bare binary.
				singular.push(Expr::TypeCast(b(e.clone()), Ty::Prim("i32")));
			}
		}
		// mul := singular (op singular)*   (left associative)
		let mut mul = singular.clone();
		if n >= 1
		{
			for k in 0..n
			{
				let lefts = level_at(&self.mul, &mul, k);
				let rights = level_at(&self.singular, &singular, n - 1 - k);
				for l in &lefts
				{
					for rr in &rights
					{
						for op in MUL_OPS
						{
							mul.push(Expr::Binary(op, b(l.clone()), b(rr.clone())));
						}
					}
				}
			}
		}
		// expr := mul (+- mul)* | nonbinary (bit unary)+ | nonbinary shift unary
		let mut expr = mul.clone();
		if n >= 1
		{
			for k in 0..n
			{
				let lefts = level_at(&self.expr, &expr, k);
				let rights = level_at(&self.mul, &mul, n - 1 - k);
				for l in &lefts
				{
					// the left operand of +/- must itself be an additive chain or a mul
					if matches!(l, Expr::Advance(..))
					{
						continue;
					}
					if let Expr::Binary(op, ..) = l
					{
						if BIT_OPS.contains(op) || SHIFT_OPS.contains(op)
						{
							continue;
						}
					}
					for rr in &rights
					{
						for op in ADD_OPS
						{
							expr.push(Expr::Binary(op, b(l.clone()), b(rr.clone())));
						}
					}
				}
			}
			for k in 0..n
			{
				let lefts = level_at(&self.expr, &expr, k);
				let rights = level_at(&self.unary, &unary, n - 1 - k);
				for l in &lefts
				{
					for rr in &rights
					{
						for op in BIT_OPS
						{
							// left: a non-binary singular, or a chain of the same bitwise operator
							let ok = match l
							{
								Expr::Binary(lop, ..) => *lop == op,
								Expr::Advance(..) => false,
								_ => true,
							};
							if ok
							{
								expr.push(Expr::Binary(op, b(l.clone()), b(rr.clone())));
							}
						}
						if !is_binary(l)
						{
							for op in SHIFT_OPS
							{
								expr.push(Expr::Binary(op, b(l.clone()), b(rr.clone())));
							}
						}
					}
				}
			}
		}
		// `&a .. expr` (two operators): the right operand extends as far as possible, so the
		// form can only stand where nothing may follow it: as a whole expression (also inside
		// parentheses, brackets and argument lists) or as the last operand of a chain.
		if n >= 2
		{
			for e in &self.expr[n - 2]
			{
				expr.push(Expr::Advance(Reference { addr: 1, base: "a".into(), steps: vec![] }, b(e.clone())));
			}
		}
		self.primary.push(primary);
		self.unary.push(unary);
		self.singular.push(singular);
		self.mul.push(mul);
		self.expr.push(expr);
	}
}

fn level_at(done: &[Vec<Expr>], current: &[Expr], k: usize) -> Vec<Expr>
{
	if k < done.len() { done[k].clone() } else { current.to_vec() }
}

fn primary_at(done: &[Vec<Expr>], current: &[Expr], k: usize) -> Vec<Expr>
{
	level_at(done, current, k)
}

/// All type terms up to a nesting depth.
pub fn types(depth: usize) -> Vec<Ty>
{
	let mut leaves: Vec<Ty> = PRIMS.iter().map(|p| Ty::Prim(p)).collect();
	leaves.push(Ty::Named("S".into()));
	leaves.push(Ty::Named("W".into()));
	let mut level = leaves.clone();
	let mut all = leaves.clone();
	for d in 0..depth
	{
		let inner: Vec<Ty> = if d == 0 { level.clone() } else { level.iter().filter(|t| small_leaf(t)).cloned().collect() };
		let mut next = Vec::new();
		for t in &inner
		{
			let bx = || Box::new(t.clone());
			next.push(Ty::Ptr(bx()));
			next.push(Ty::View(bx()));
			next.push(Ty::Arraylike(bx()));
			next.push(Ty::Slice(bx()));
			next.push(Ty::Endless(bx()));
			next.push(Ty::Array(3, bx()));
			next.push(Ty::Array(0, bx()));
			next.push(Ty::ArrayNamed("N".into(), bx()));
		}
		all.extend(next.iter().cloned());
		level = next;
	}
	all
}

fn small_leaf(t: &Ty) -> bool
{
	// From depth 2 on, only terms over the leaves i32 and S are extended.
	fn leaf(t: &Ty) -> &Ty
	{
		match t
		{
			Ty::Ptr(t) | Ty::View(t) | Ty::Arraylike(t) | Ty::Slice(t) | Ty::Endless(t) | Ty::Array(_, t) | Ty::ArrayNamed(_, t) => leaf(t),
			t => t,
		}
	}
	matches!(leaf(t), Ty::Prim("i32")) || matches!(leaf(t), Ty::Named(n) if n == "S")
}

pub fn wrap_expr(e: Expr) -> Vec<Decl>
{
	vec![Decl::Fn {
		flags: Flags::default(),
		name: "f".into(),
		params: vec![],
		trailing_comma: false,
		ret: None,
		body: Some(Body { stmts: vec![Stmt::Assign(r("x"), e)], ret: None }),
	}]
}

pub fn wrap_stmts(stmts: Vec<Stmt>) -> Vec<Decl>
{
	vec![Decl::Fn { flags: Flags::default(), name: "f".into(), params: vec![], trailing_comma: false, ret: None, body: Some(Body { stmts, ret: None }) }]
}

/// Statement atoms (every non-compound statement form and its variants).
pub fn stmt_atoms() -> Vec<Stmt>
{
	let cmp_leaf = id("a");
	let _ = cmp_leaf;
	vec![
		Stmt::Loop,
		Stmt::Goto("end".into()),
		Stmt::Goto("return".into()),
		Stmt::Label("next".into()),
		Stmt::Var("v".into(), None, None),
		Stmt::Var("v".into(), Some(Ty::Prim("i32")), None),
		Stmt::Var("v".into(), None, Some(int("1"))),
		Stmt::Var("v".into(), Some(Ty::Array(3, Box::new(Ty::Prim("u8")))), Some(Expr::Array(vec![int("1"), int("2"), int("3")], false))),
		Stmt::Var("v".into(), Some(Ty::Ptr(Box::new(Ty::Prim("i32")))), Some(Expr::Ref(Reference { addr: 1, base: "a".into(), steps: vec![] }))),
		Stmt::Assign(r("a"), int("1")),
		Stmt::Assign(Reference { addr: 1, base: "a".into(), steps: vec![] }, Expr::Ref(Reference { addr: 1, base: "c".into(), steps: vec![] })),
		Stmt::Assign(Reference { addr: 2, base: "a".into(), steps: vec![] }, Expr::Ref(Reference { addr: 2, base: "c".into(), steps: vec![] })),
		Stmt::Assign(
			Reference { addr: 0, base: "a".into(), steps: vec![Step::Index(int("0")), Step::Member("m".into())] },
			Expr::Binary("+", b(id("a")), b(int("1"))),
		),
		Stmt::Assign(Reference { addr: 1, base: "a".into(), steps: vec![Step::Member("m".into())] }, id("c")),
		Stmt::Call { name: "f".into(), builtin: false, args: vec![] },
		Stmt::Call { name: "f".into(), builtin: false, args: vec![id("a"), int("1")] },
		Stmt::Call { name: "print!".into(), builtin: true, args: vec![Expr::Str(vec!["\"s\"".into()]), id("a")] },
	]
}

fn ends_in_open_if(s: &Stmt) -> bool
{
	match s
	{
		Stmt::If(_, _, None) => true,
		Stmt::If(_, _, Some(e)) => ends_in_open_if(e),
		_ => false,
	}
}

fn contains_struct(e: &Expr) -> bool
{
	match e
	{
		Expr::Struct { .. } => true,
		Expr::Paren(x) | Expr::Unary(_, x) | Expr::BitCast(x) | Expr::TypeCast(x, _) => contains_struct(x),
		Expr::Binary(_, l, r) => contains_struct(l) || contains_struct(r),
		Expr::Call { args, .. } => args.iter().any(contains_struct),
		Expr::Array(items, _) => items.iter().any(contains_struct),
		Expr::Advance(r, x) => contains_struct(x) || r.steps.iter().any(|s| matches!(s, Step::Index(i) if contains_struct(i))),
		Expr::Ref(r) => r.steps.iter().any(|s| matches!(s, Step::Index(i) if contains_struct(i))),
		_ => false,
	}
}

fn cmp(op: &'static str) -> Cmp
{
	Cmp { op, left: id("a"), right: int("1") }
}

/// All parent/slot/child combinations of statements up to the given nesting depth.
pub fn statements(depth: usize) -> Vec<Stmt>
{
	let atoms = stmt_atoms();
	let filler = Stmt::Assign(r("z"), int("0"));
	let mut level: Vec<Stmt> = atoms.clone();
	let mut all: Vec<Stmt> = atoms.clone();
	// all comparison operators once
	for op in CMP_OPS
	{
		all.push(Stmt::If(cmp(op), Box::new(Stmt::Goto("end".into())), None));
	}
	// comparison operands: every level of expression on both sides
	all.push(Stmt::If(
		Cmp { op: "==", left: Expr::Binary("+", b(id("a")), b(int("1"))), right: Expr::Binary("*", b(id("a")), b(int("2"))) },
		Box::new(Stmt::Block(vec![])),
		None,
	));
	all.push(Stmt::If(
		Cmp { op: "<", left: Expr::LengthOf(r("a")), right: Expr::Call { name: "f".into(), builtin: false, args: vec![id("a")], trailing_comma: false } },
		Box::new(Stmt::Block(vec![])),
		None,
	));
	all.push(Stmt::If(
		Cmp { op: "!=", left: Expr::Paren(b(Expr::Binary("&", b(id("a")), b(int("1"))))), right: Expr::TypeCast(b(id("c")), Ty::Prim("u8")) },
		Box::new(Stmt::Block(vec![])),
		None,
	));
	for d in 0..depth
	{
		// From the second level on only a reduced child set is wrapped, to keep the space finite
		// and small: the compound statements of the previous level plus three atoms.
		let children: Vec<Stmt> = if d == 0
		{
			level.clone()
		}
		else
		{
			let mut c = vec![Stmt::Assign(r("a"), int("1")), Stmt::Goto("end".into()), Stmt::Loop];
			c.extend(level.iter().filter(|s| matches!(s, Stmt::Block(..) | Stmt::If(..))).cloned());
			c
		};
		let mut next = Vec::new();
		next.push(Stmt::Block(vec![]));
		for c in &children
		{
			next.push(Stmt::Block(vec![c.clone()]));
			next.push(Stmt::Block(vec![filler.clone(), c.clone()]));
			next.push(Stmt::Block(vec![c.clone(), filler.clone()]));
			// A naked then-branch starting with `&` would continue the condition as a bitwise
			// expression: the grammar is ambiguous there, so it is not generated.
			let starts_with_ampersand = matches!(c, Stmt::Assign(r, _) if r.addr > 0);
			if !starts_with_ampersand
			{
				next.push(Stmt::If(cmp("=="), Box::new(c.clone()), None));
				// Dangling else: an else after `if c if c S` belongs to the inner if.
				if !ends_in_open_if(c)
				{
					next.push(Stmt::If(cmp("=="), Box::new(c.clone()), Some(Box::new(Stmt::Block(vec![])))));
				}
			}
			next.push(Stmt::If(cmp("=="), Box::new(Stmt::Block(vec![])), Some(Box::new(c.clone()))));
		}
		if d == 0
		{
			for c in &children
			{
				for c2 in &children
				{
					next.push(Stmt::Block(vec![c.clone(), c2.clone()]));
				}
			}
		}
		// A dangling-else test: if c if c S else S  (else binds to the inner if)
		next.push(Stmt::If(cmp("=="), Box::new(Stmt::If(cmp("!="), Box::new(Stmt::Goto("end".into())), Some(Box::new(Stmt::Goto("next".into()))))), None));
		all.extend(next.iter().cloned());
		level = next;
	}
	all
}

/// Declarations: every kind x flags x member/parameter lists of length 0..2 x bodies.
pub fn declarations() -> Vec<Decl>
{
	let mut v = Vec::new();
	let flag_sets = [
		Flags { public: false, external: false },
		Flags { public: true, external: false },
		Flags { public: false, external: true },
		Flags { public: true, external: true },
	];
	let param_lists: Vec<Vec<(String, Ty)>> = vec![
		vec![],
		vec![("a".into(), Ty::Prim("i32"))],
		vec![("a".into(), Ty::Ptr(Box::new(Ty::Prim("i32")))), ("b".into(), Ty::Arraylike(Box::new(Ty::Prim("u8"))))],
	];
	let bodies: Vec<Option<Body>> = vec![
		None,
		Some(Body { stmts: vec![], ret: None }),
		Some(Body { stmts: vec![Stmt::Var("x".into(), None, Some(int("1")))], ret: Some(id("x")) }),
		Some(Body { stmts: vec![], ret: Some(Expr::Binary("+", b(id("a")), b(int("1")))) }),
		Some(Body { stmts: vec![Stmt::Goto("return".into()), Stmt::Assign(r("a"), int("1"))], ret: Some(int("0")) }),
	];
	for flags in flag_sets
	{
		v.push(Decl::Const { flags, name: "K".into(), ty: Ty::Prim("i32"), value: int("1") });
		v.push(Decl::Const {
			flags,
			name: "K".into(),
			ty: Ty::Array(2, Box::new(Ty::Prim("u8"))),
			value: Expr::Array(vec![int("1"), int("2")], true),
		});
		v.push(Decl::Const { flags, name: "K".into(), ty: Ty::Prim("usize"), value: Expr::Binary("+", b(id("N")), b(int("1"))) });
		for params in &param_lists
		{
			for trailing in [false, true]
			{
				if trailing && params.is_empty()
				{
					continue;
				}
				for ret in [None, Some(Ty::Prim("i32")), Some(Ty::Ptr(Box::new(Ty::Named("S".into()))))]
				{
					for body in &bodies
					{
						if ret.is_none() && body.as_ref().map(|b| b.ret.is_some()).unwrap_or(false) && params.len() == 2
						{
							continue;
						}
						v.push(Decl::Fn { flags, name: "g".into(), params: params.clone(), trailing_comma: trailing, ret: ret.clone(), body: body.clone() });
					}
				}
			}
		}
		for word in [None, Some(1u8), Some(2), Some(4), Some(8), Some(16)]
		{
			for members in [vec![], vec![("x".to_string(), Ty::Prim("i32"))], vec![("x".to_string(), Ty::Prim("i32")), ("y".to_string(), Ty::Array(4, Box::new(Ty::Named("P".into()))))]]
			{
				for trailing_comma in [true, false]
				{
					if !trailing_comma && members.is_empty()
					{
						continue;
					}
					v.push(Decl::Struct { flags, name: "S".into(), word, members: Some(members.clone()), trailing_comma });
				}
			}
		}
		v.push(Decl::Struct { flags, name: "S".into(), word: None, members: None, trailing_comma: false });
		v.push(Decl::Import { flags, path: "other.pn".into() });
		v.push(Decl::Import { flags, path: "core:text".into() });
	}
	v
}

/// Modules for the tree checks (C16, C20, acceptance in C15), grouped by family name.
pub fn families(quick: bool) -> Vec<(&'static str, Vec<Vec<Decl>>)>
{
	let mut out: Vec<(&'static str, Vec<Vec<Decl>>)> = Vec::new();
	out.push(("leaf forms", leaf_forms().into_iter().map(wrap_expr).collect()));
	// every byte value as an escape in string and character position, every printable ASCII
	// character raw, and every simple escape
	let mut v = Vec::new();
	for byte in 0..=255u32
	{
		v.push(wrap_expr(Expr::Str(vec![format!("\"a\\x{byte:02x}z\"")])));
		v.push(wrap_expr(Expr::Str(vec![format!("\"\\x{byte:02X}\"")])));
		v.push(wrap_expr(Expr::Char(format!("'\\x{byte:02x}'"))));
	}
	for c in 0x20u8..0x7f
	{
		let ch = c as char;
		if ch != '"' && ch != '\\'
		{
			v.push(wrap_expr(Expr::Str(vec![format!("\"{ch}\"")])));
		}
		if ch != '\'' && ch != '\\'
		{
			v.push(wrap_expr(Expr::Char(format!("'{ch}'"))));
		}
	}
	for esc in ["n", "r", "t", "\\", "'", "\"", "0"]
	{
		v.push(wrap_expr(Expr::Str(vec![format!("\"\\{esc}\"")])));
		v.push(wrap_expr(Expr::Char(format!("'\\{esc}'"))));
	}
	for u in ["0", "7f", "80", "7ff", "800", "ffff", "10000", "10ffff", "20ac", "e9", "00e9"]
	{
		v.push(wrap_expr(Expr::Str(vec![format!("\"\\u{{{u}}}\"")])));
	}
	out.push(("literal bytes and escapes", v));
	// every operator x every leaf form in each operand slot
	let mut v = Vec::new();
	let leaves = leaf_forms();
	for l in &leaves
	{
		if matches!(l, Expr::Advance(..))
		{
			continue;
		}
		for op in ADD_OPS.iter().chain(MUL_OPS.iter())
		{
			v.push(wrap_expr(Expr::Binary(op, b(l.clone()), b(id("c")))));
			v.push(wrap_expr(Expr::Binary(op, b(id("c")), b(l.clone()))));
		}
		for op in BIT_OPS.iter().chain(SHIFT_OPS.iter())
		{
			v.push(wrap_expr(Expr::Binary(op, b(l.clone()), b(id("c")))));
			if !matches!(l, Expr::TypeCast(..))
			{
				v.push(wrap_expr(Expr::Binary(op, b(id("c")), b(l.clone()))));
			}
		}
		if !matches!(l, Expr::LengthOf(..) | Expr::SizeOf(..))
		{
			// the operand of a unary operator is a primary expression
			v.push(wrap_expr(Expr::Unary("-", b(l.clone()))));
			v.push(wrap_expr(Expr::Unary("!", b(l.clone()))));
		}
		v.push(wrap_expr(Expr::BitCast(b(l.clone()))));
		v.push(wrap_expr(Expr::TypeCast(b(l.clone()), Ty::Prim("u8"))));
		v.push(wrap_expr(Expr::TypeCast(b(Expr::TypeCast(b(l.clone()), Ty::Prim("u8"))), Ty::Ptr(Box::new(Ty::Prim("i32"))))));
		v.push(wrap_expr(Expr::TypeCast(b(Expr::BitCast(b(l.clone()))), Ty::Prim("u8"))));
		v.push(wrap_expr(Expr::Paren(b(l.clone()))));
	}
	out.push(("operator x leaf form", v));
	let g = ExprGen::new(if quick { 2 } else { 3 });
	let mut v = Vec::new();
	for n in 0..g.expr.len()
	{
		for e in &g.expr[n]
		{
			v.push(wrap_expr(e.clone()));
		}
	}
	out.push(("expression derivations", v));
	// expressions in every other expression context
	let mut v = Vec::new();
	for e in &g.expr[1]
	{
		v.push(vec![Decl::Const { flags: Flags::default(), name: "K".into(), ty: Ty::Prim("i32"), value: e.clone() }]);
		v.push(wrap_stmts(vec![Stmt::Var("v".into(), None, Some(e.clone()))]));
		if !contains_struct(e)
		{
			// a structure literal cannot appear in a condition (`{` starts the branch)
			v.push(wrap_stmts(vec![Stmt::If(Cmp { op: "==", left: e.clone(), right: e.clone() }, Box::new(Stmt::Block(vec![])), None)]));
		}
		v.push(vec![Decl::Fn {
			flags: Flags::default(),
			name: "f".into(),
			params: vec![],
			trailing_comma: false,
			ret: Some(Ty::Prim("i32")),
			body: Some(Body { stmts: vec![], ret: Some(e.clone()) }),
		}]);
	}
	out.push(("expression contexts", v));
	out.push(("statements", statements(if quick { 2 } else { 3 }).into_iter().map(|s| wrap_stmts(vec![s])).collect()));
	// types in each position
	let mut v = Vec::new();
	for t in types(if quick { 2 } else { 3 })
	{
		v.push(wrap_stmts(vec![Stmt::Var("v".into(), Some(t.clone()), None)]));
		v.push(vec![Decl::Fn { flags: Flags::default(), name: "f".into(), params: vec![("p".into(), t.clone())], trailing_comma: false, ret: Some(t.clone()), body: None }]);
		v.push(vec![Decl::Struct { flags: Flags::default(), name: "T".into(), word: None, members: Some(vec![("m".into(), t.clone())]), trailing_comma: true }]);
		v.push(vec![Decl::Const { flags: Flags::default(), name: "K".into(), ty: t.clone(), value: int("0") }]);
		v.push(wrap_expr(Expr::SizeOf(t.clone())));
		v.push(wrap_expr(Expr::TypeCast(b(id("a")), t.clone())));
	}
	out.push(("types in every position", v));
	out.push(("declarations", declarations().into_iter().map(|d| vec![d]).collect()));
	// pairs of declarations (order, adjacency)
	let ds = declarations();
	let picks: Vec<&Decl> = ds.iter().step_by(if quick { 23 } else { 7 }).collect();
	let mut v = Vec::new();
	for a in &picks
	{
		for bb in &picks
		{
			v.push(vec![(*a).clone(), (*bb).clone()]);
		}
	}
	out.push(("declaration pairs", v));
	out
}
