//! S-TOK: token sequences over all distinguishable token kinds, one representative spelling each.

/// (name, spelling, starts a declaration in the second-generation parser)
pub const TOKS: [(&str, &str, bool); 63] = [
	("(", "(", false),
	(")", ")", false),
	("{", "{", false),
	("}", "}", false),
	("[", "[", false),
	("]", "]", false),
	("<", "<", false),
	(">", ">", false),
	("|", "|", false),
	("&", "&", false),
	("^", "^", false),
	("!", "!", false),
	("_", "_", false),
	("+", "+", false),
	("-", "-", false),
	("*", "*", false),
	("/", "/", false),
	("%", "%", false),
	(":", ":", false),
	(";", ";", false),
	(".", ".", false),
	(",", ",", false),
	("=", "=", false),
	("==", "==", false),
	("!=", "!=", false),
	(">=", ">=", false),
	("<=", "<=", false),
	("<<", "<<", false),
	(">>", ">>", false),
	("->", "->", false),
	("|:", "|:", false),
	("..", "..", false),
	("fn", "fn", true),
	("var", "var", false),
	("const", "const", true),
	("if", "if", false),
	("goto", "goto", false),
	("loop", "loop", false),
	("return", "return", false),
	("else", "else", false),
	("cast", "cast", false),
	("as", "as", false),
	("import", "import", true),
	("pub", "pub", true),
	("extern", "extern", true),
	("struct", "struct", true),
	("word8", "word8", true),
	("word16", "word16", true),
	("word32", "word32", true),
	("word64", "word64", true),
	("word128", "word128", true),
	("type", "i32", false),
	("ident", "x", false),
	("ident2", "y", false),
	("main", "main", false),
	("builtin", "print!", false),
	("dec", "1", false),
	("bit", "0x1", false),
	("suf", "1u8", false),
	("char", "'a'", false),
	("bool", "true", false),
	("string", "\"s\"", false),
	("illegal", "@", false),
];

pub fn index_of(name: &str) -> usize
{
	TOKS.iter().position(|t| t.0 == name).unwrap_or_else(|| panic!("unknown token {name}"))
}

pub fn render(seq: &[u8]) -> String
{
	let mut s = String::new();
	for (k, t) in seq.iter().enumerate()
	{
		if k > 0
		{
			s.push(' ');
		}
		s.push_str(TOKS[*t as usize].1);
	}
	s
}

/// Tokenise a context string written with the token names/spellings separated by spaces.
pub fn parse_context(ctx: &str) -> Vec<u8>
{
	ctx.split_whitespace()
		.map(|w| TOKS.iter().position(|t| t.1 == w || t.0 == w).unwrap_or_else(|| panic!("unknown token {w} in context")) as u8)
		.collect()
}

pub fn encode(seq: &[u8]) -> String
{
	seq.iter().map(|b| format!("{:02x}", b)).collect()
}

pub fn decode(s: &str) -> Vec<u8>
{
	(0..s.len() / 2).map(|i| u8::from_str_radix(&s[2 * i..2 * i + 2], 16).unwrap()).collect()
}
