pub mod ast;
pub mod body;
pub mod tok;
