pub mod tok;
