pub mod ast;
pub mod tok;
