//! Invariant monitor over the resolved tree of an accepted program (C07): operand types of
//! binary operators and comparisons agree, operators are applied to their type class only,
//! primitive casts connect two different primitive types, initialisers have the declared type,
//! call arguments have the parameter types.

use penne::alpha::resolved::*;
use std::collections::HashMap;

fn is_int(t: &ValueType) -> bool
{
	t.is_integral()
}

fn is_fixed_unsigned(t: &ValueType) -> bool
{
	matches!(t, ValueType::Uint8 | ValueType::Uint16 | ValueType::Uint32 | ValueType::Uint64 | ValueType::Uint128)
}

fn is_signed(t: &ValueType) -> bool
{
	matches!(t, ValueType::Int8 | ValueType::Int16 | ValueType::Int32 | ValueType::Int64 | ValueType::Int128)
}

fn is_primitive(t: &ValueType) -> bool
{
	is_int(t) || matches!(t, ValueType::Bool | ValueType::Char8)
}

fn is_pointer(t: &ValueType) -> bool
{
	matches!(t, ValueType::Pointer { .. })
}

fn name(t: &ValueType) -> String
{
	let s = format!("{t:?}");
	s.chars().take_while(|c| c.is_alphanumeric()).collect()
}

struct Monitor
{
	functions: HashMap<u32, Vec<ValueType>>,
	problems: Vec<String>,
}

impl Monitor
{
	fn problem(&mut self, p: String)
	{
		if !self.problems.contains(&p)
		{
			self.problems.push(p);
		}
	}

	fn expr(&mut self, e: &Expression)
	{
		match e
		{
			Expression::Binary { op, left, right, value_type } =>
			{
				self.expr(left);
				self.expr(right);
				let (lt, rt) = (left.value_type(), right.value_type());
				match op
				{
					BinaryOp::AdvancePointer =>
					{
						if !is_pointer(&lt) && !matches!(lt, ValueType::View { .. })
						{
							self.problem(format!("AdvancePointer on {}", name(&lt)));
						}
					}
					BinaryOp::Add | BinaryOp::Subtract | BinaryOp::Multiply | BinaryOp::Divide | BinaryOp::Modulo =>
					{
						if lt != rt || lt != *value_type
						{
							self.problem(format!("{op:?} operands {} and {} with result {}", name(&lt), name(&rt), name(value_type)));
						}
						if !is_int(&lt) && lt != ValueType::Char8
						{
							self.problem(format!("{op:?} applied to {}", name(&lt)));
						}
					}
					_ =>
					{
						if lt != rt || lt != *value_type
						{
							self.problem(format!("{op:?} operands {} and {} with result {}", name(&lt), name(&rt), name(value_type)));
						}
						if !is_fixed_unsigned(&lt)
						{
							self.problem(format!("{op:?} applied to {}", name(&lt)));
						}
					}
				}
			}
			Expression::Unary { op, expression, value_type } =>
			{
				self.expr(expression);
				let t = expression.value_type();
				if t != *value_type
				{
					self.problem(format!("{op:?} operand {} with result {}", name(&t), name(value_type)));
				}
				match op
				{
					UnaryOp::Negative =>
					{
						if !is_signed(&t)
						{
							self.problem(format!("Negative applied to {}", name(&t)));
						}
					}
					UnaryOp::BitwiseComplement =>
					{
						if !is_fixed_unsigned(&t) && t != ValueType::Bool
						{
							self.problem(format!("BitwiseComplement applied to {}", name(&t)));
						}
					}
				}
			}
			Expression::ArrayLiteral { elements, element_type } =>
			{
				for el in elements
				{
					self.expr(el);
					let t = el.value_type();
					if t != *element_type
					{
						self.problem(format!("array element {} in array of {}", name(&t), name(element_type)));
					}
				}
			}
			Expression::Structural { members, .. } =>
			{
				for m in members
				{
					self.expr(&m.expression);
				}
			}
			Expression::Parenthesized { inner } => self.expr(inner),
			Expression::Deref { reference, .. } => self.reference(reference),
			Expression::Autocoerce { expression, .. } => self.expr(expression),
			Expression::BitCast { expression, .. } => self.expr(expression),
			Expression::PrimitiveCast { expression, expression_type, coerced_type } =>
			{
				self.expr(expression);
				if !is_primitive(expression_type) || !is_primitive(coerced_type)
				{
					self.problem(format!("primitive cast from {} to {}", name(expression_type), name(coerced_type)));
				}
				if expression_type == coerced_type
				{
					self.problem(format!("primitive cast from {} to itself", name(expression_type)));
				}
				if *coerced_type == ValueType::Bool
				{
					self.problem(format!("primitive cast from {} to bool", name(expression_type)));
				}
				let t = expression.value_type();
				if t != *expression_type
				{
					self.problem(format!("primitive cast records source type {} but the operand has type {}", name(expression_type), name(&t)));
				}
			}
			Expression::LengthOfArray { reference } => self.reference(reference),
			Expression::FunctionCall { name: fname, arguments, .. } =>
			{
				for a in arguments
				{
					self.expr(a);
				}
				if let Some(params) = self.functions.get(&fname.resolution_id).cloned()
				{
					if params.len() != arguments.len()
					{
						self.problem(format!("call with {} arguments to a function with {} parameters", arguments.len(), params.len()));
					}
					for (a, p) in arguments.iter().zip(params.iter())
					{
						let t = a.value_type();
						if t != *p
						{
							self.problem(format!("argument of type {} for parameter of type {}", name(&t), name(p)));
						}
					}
				}
			}
			Expression::InlineBlock { statements, value } =>
			{
				for s in statements
				{
					self.stmt(s);
				}
				self.expr(value);
			}
			_ =>
			{}
		}
	}

	fn reference(&mut self, r: &Reference)
	{
		for s in &r.steps
		{
			if let ReferenceStep::Element { argument, .. } = s
			{
				self.expr(argument);
				let t = argument.value_type();
				if t != ValueType::Usize
				{
					self.problem(format!("array index of type {}", name(&t)));
				}
			}
		}
	}

	fn stmt(&mut self, s: &Statement)
	{
		match s
		{
			Statement::Declaration { value, value_type, .. } =>
			{
				if let Some(v) = value
				{
					self.expr(v);
					let t = v.value_type();
					if t != *value_type
					{
						self.problem(format!("initialiser of type {} for a variable of type {}", name(&t), name(value_type)));
					}
				}
			}
			Statement::Assignment { reference, value } =>
			{
				self.reference(reference);
				self.expr(value);
			}
			Statement::EvaluateAndDiscard { value } => self.expr(value),
			Statement::If { condition, then_branch, else_branch } =>
			{
				self.expr(&condition.left);
				self.expr(&condition.right);
				let (lt, rt) = (condition.left.value_type(), condition.right.value_type());
				if lt != rt
				{
					self.problem(format!("{:?} operands {} and {}", condition.op, name(&lt), name(&rt)));
				}
				let ordering = !matches!(condition.op, ComparisonOp::Equals | ComparisonOp::DoesNotEqual);
				if ordering && (is_pointer(&lt) || is_pointer(&condition.compared_type))
				{
					self.problem(format!("{:?} applied to a pointer", condition.op));
				}
				if !is_primitive(&lt) && !is_pointer(&lt)
				{
					self.problem(format!("{:?} applied to {}", condition.op, name(&lt)));
				}
				self.stmt(then_branch);
				if let Some(e) = else_branch
				{
					self.stmt(e);
				}
			}
			Statement::Block(b) =>
			{
				for s in &b.statements
				{
					self.stmt(s);
				}
			}
			_ =>
			{}
		}
	}
}

pub fn check_resolved(modules: &[Vec<Declaration>]) -> Vec<String>
{
	let mut m = Monitor { functions: HashMap::new(), problems: Vec::new() };
	for decls in modules
	{
		for d in decls
		{
			match d
			{
				Declaration::Function { name, parameters, .. } | Declaration::FunctionHead { name, parameters, .. } =>
				{
					m.functions.insert(name.resolution_id, parameters.iter().map(|p| p.value_type.clone()).collect());
				}
				_ =>
				{}
			}
		}
		for d in decls
		{
			match d
			{
				Declaration::Constant { value, value_type, .. } =>
				{
					m.expr(value);
					let t = value.value_type();
					if t != *value_type
					{
						m.problem(format!("constant of type {} initialised with {}", name(value_type), name(&t)));
					}
				}
				Declaration::Function { body, return_type, .. } =>
				{
					for s in &body.statements
					{
						m.stmt(s);
					}
					if let Some(rv) = &body.return_value
					{
						m.expr(rv);
						if let Some(rt) = return_type
						{
							let t = rv.value_type();
							if t != *rt
							{
								m.problem(format!("return value of type {} in a function returning {}", name(&t), name(rt)));
							}
						}
					}
				}
				_ =>
				{}
			}
		}
		m.functions.clear();
	}
	m.problems
}
