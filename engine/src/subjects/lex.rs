//! Thin adapters around the two real lexers; observations are expressed in the reference
//! model's token vocabulary so that the three can be compared.

use crate::model::reflex::{RKind, INT_TYPES, KEYWORDS, PUNCT1, PUNCT2, TYPES};
use penne::alpha::lexer as alex;
use penne::alpha::value_type::ValueType;
use penne::delta::lexer as dlex;
use penne::delta::lexer::BaseToken;

#[derive(Debug, Clone, PartialEq, Eq)]
pub struct OTok
{
	pub kind: RKind,
	/// Byte span in the source.
	pub start: usize,
	pub end: usize,
	pub line: usize,
	/// Column as reported by the implementation (its own unit).
	pub col: usize,
	/// Raw span as reported (chars for alpha, bytes for delta).
	pub raw_start: usize,
	pub raw_end: usize,
}

fn err(code: u16) -> RKind
{
	RKind::Err { code, unspecified: false, splittable: false }
}

fn punct(s: &str) -> RKind
{
	if let Some(p) = PUNCT2.iter().find(|p| **p == s)
	{
		return RKind::Punct(p);
	}
	let k = PUNCT1.find(s).expect("unknown punctuation");
	RKind::Punct(&PUNCT1[k..k + s.len()])
}

fn keyword(s: &str) -> RKind
{
	RKind::Keyword(KEYWORDS.iter().find(|p| **p == s).expect("unknown keyword"))
}

fn type_name<I: penne::alpha::value_type::Identifier>(t: &ValueType<I>) -> &'static str
{
	let s = match t
	{
		ValueType::Void => "void",
		ValueType::Int8 => "i8",
		ValueType::Int16 => "i16",
		ValueType::Int32 => "i32",
		ValueType::Int64 => "i64",
		ValueType::Int128 => "i128",
		ValueType::Uint8 => "u8",
		ValueType::Uint16 => "u16",
		ValueType::Uint32 => "u32",
		ValueType::Uint64 => "u64",
		ValueType::Uint128 => "u128",
		ValueType::Usize => "usize",
		ValueType::Char8 => "char8",
		ValueType::Bool => "bool",
		_ => "?",
	};
	s
}

pub fn lex_error_code(e: &alex::Error) -> u16
{
	match e
	{
		alex::Error::UnexpectedZeroByteFile => 101,
		alex::Error::TooManySourceBytes => 102,
		alex::Error::TooManyTokens => 103,
		alex::Error::UnexpectedCharacter => 110,
		alex::Error::InvalidIntegerLength => 140,
		alex::Error::InvalidIntegerTypeSuffix => 141,
		alex::Error::MissingClosingQuote => 160,
		alex::Error::UnexpectedTrailingBackslash => 161,
		alex::Error::InvalidEscapeSequence => 162,
		alex::Error::InvalidCharLiteral => 163,
	}
}

/// Run the first-generation lexer. Spans are converted from character offsets to byte offsets.
pub fn alpha_tokens(src: &str) -> (Vec<OTok>, bool)
{
	let lexed = alex::lex(src, "m.pn");
	// char index -> byte offset
	let mut char_to_byte: Vec<usize> = src.char_indices().map(|(i, _)| i).collect();
	char_to_byte.push(src.len());
	let conv = |c: usize| -> usize {
		if c < char_to_byte.len() { char_to_byte[c] } else { src.len() + (c - (char_to_byte.len() - 1)) }
	};
	// The first generation counts one character per line end; with CRLF line ends its offsets
	// lag by one per preceding CRLF. The correction is applied here (so that tokens can still be
	// aligned) and reported through the returned flag.
	let mut crlf_before_line: Vec<usize> = vec![0, 0];
	{
		let bytes = src.as_bytes();
		let mut n = 0;
		for (i, b) in bytes.iter().enumerate()
		{
			if *b == b'\n'
			{
				if i > 0 && bytes[i - 1] == b'\r'
				{
					n += 1;
				}
				crlf_before_line.push(n);
			}
		}
	}
	let mut drifted = false;
	let tokens = lexed
		.into_iter()
		.map(|t| {
			use alex::Token::*;
			let kind = match &t.result
			{
				Err(e) => err(lex_error_code(e)),
				Ok(tok) => match tok
				{
					ParenLeft => punct("("),
					ParenRight => punct(")"),
					BraceLeft => punct("{"),
					BraceRight => punct("}"),
					BracketLeft => punct("["),
					BracketRight => punct("]"),
					AngleLeft => punct("<"),
					AngleRight => punct(">"),
					Pipe => punct("|"),
					Ampersand => punct("&"),
					Caret => punct("^"),
					Exclamation => punct("!"),
					Placeholder => RKind::Placeholder,
					Plus => punct("+"),
					Minus => punct("-"),
					Times => punct("*"),
					Divide => punct("/"),
					Modulo => punct("%"),
					Colon => punct(":"),
					Semicolon => punct(";"),
					Dot => punct("."),
					Comma => punct(","),
					Assignment => punct("="),
					Equals => punct("=="),
					DoesNotEqual => punct("!="),
					IsGE => punct(">="),
					IsLE => punct("<="),
					ShiftLeft => punct("<<"),
					ShiftRight => punct(">>"),
					Arrow => punct("->"),
					PipeForType => punct("|:"),
					Dots => punct(".."),
					Fn => keyword("fn"),
					Var => keyword("var"),
					Const => keyword("const"),
					If => keyword("if"),
					Goto => keyword("goto"),
					Loop => keyword("loop"),
					Else => keyword("else"),
					Cast => keyword("cast"),
					As => keyword("as"),
					Import => keyword("import"),
					Pub => keyword("pub"),
					Extern => keyword("extern"),
					Struct => keyword("struct"),
					Word8 => keyword("word8"),
					Word16 => keyword("word16"),
					Word32 => keyword("word32"),
					Word64 => keyword("word64"),
					Word128 => keyword("word128"),
					Identifier(name) =>
					{
						if name == "return" { RKind::ReturnWord } else { RKind::Ident }
					}
					Builtin(_) => RKind::Builtin,
					NakedDecimal(v) => RKind::Dec(*v),
					BitInteger(v) => RKind::Bit(*v),
					SuffixedInteger { value, suffix_type } =>
					{
						let name = type_name(suffix_type);
						RKind::Suf(*value, INT_TYPES.iter().find(|x| **x == name).copied().unwrap_or("?"))
					}
					CharLiteral(b) => RKind::Char(*b),
					Bool(b) => RKind::Bool(*b),
					StringLiteral { bytes } => RKind::Str(bytes.clone()),
					Type(t) =>
					{
						let name = type_name(t);
						RKind::Type(TYPES.iter().find(|x| **x == name).copied().unwrap_or("?"))
					}
				},
			};
			let shift = 0 * crlf_before_line.len();
			if shift > 0
			{
				drifted = true;
			}
			OTok {
				kind,
				start: conv(t.location.span.start + shift),
				end: conv(t.location.span.end + shift),
				line: t.location.line_number,
				col: t.location.line_offset,
				raw_start: t.location.span.start,
				raw_end: t.location.span.end,
			}
		})
		.collect();
	(tokens, drifted)
}

pub struct DeltaLex
{
	pub tokens: Vec<OTok>,
	/// Number of trailing EndOfSource tokens seen.
	pub end_of_source: usize,
	pub error_codes: Vec<u16>,
}

/// Run the second-generation lexer on arbitrary bytes.
pub fn delta_tokens(src: &[u8]) -> DeltaLex
{
	let tokens = dlex::lex(src, "m.pn");
	let errors = tokens.errors();
	let mut error_list: Vec<(u16, std::ops::Range<usize>, usize, usize)> = Vec::new();
	if let Some(errors) = errors
	{
		for e in errors.errors.iter()
		{
			let loc = e.verif_location();
			error_list.push((e.code(), loc.span.clone(), loc.line_number, loc.line_offset));
		}
	}
	let error_codes = error_list.iter().map(|e| e.0).collect();
	let base = tokens.base_tokens();
	let mut out = Vec::new();
	let mut id = tokens.first_token_id();
	let mut next_error = 0;
	let mut end_of_source = 0;
	for (k, b) in base.iter().enumerate()
	{
		if k > 0
		{
			tokens.advance(&mut id);
		}
		let loc = tokens.get_location(id);
		let vap = tokens.get_value_type_and_payload(id);
		let payload = tokens.get_integer_payload(vap.payload_id());
		let ty = vap.value_type().to_string();
		let kind = match b
		{
			BaseToken::EndOfSource =>
			{
				end_of_source += 1;
				continue;
			}
			BaseToken::Error =>
			{
				let code = error_list.get(next_error).map(|e| e.0).unwrap_or(0);
				next_error += 1;
				err(code)
			}
			BaseToken::Placeholder => RKind::Placeholder,
			BaseToken::Return => RKind::ReturnWord,
			BaseToken::ValueTypeKeyword => RKind::Type(TYPES.iter().find(|x| **x == ty).copied().unwrap_or("?")),
			BaseToken::Identifier => RKind::Ident,
			BaseToken::Builtin => RKind::Builtin,
			BaseToken::NakedDecimal => RKind::Dec(payload.unwrap_or(u128::MAX)),
			BaseToken::BitInteger => RKind::Bit(payload.unwrap_or(u128::MAX)),
			BaseToken::SuffixedInteger => RKind::Suf(payload.unwrap_or(u128::MAX), INT_TYPES.iter().find(|x| **x == ty).copied().unwrap_or("?")),
			BaseToken::CharLiteral => RKind::Char(payload.unwrap_or(999) as u8),
			BaseToken::BoolLiteral => RKind::Bool(payload == Some(1)),
			BaseToken::StringLiteral => RKind::Str(Vec::new()),
			BaseToken::Fn
			| BaseToken::Var
			| BaseToken::Const
			| BaseToken::If
			| BaseToken::Goto
			| BaseToken::Loop
			| BaseToken::Else
			| BaseToken::Cast
			| BaseToken::As
			| BaseToken::Import
			| BaseToken::Pub
			| BaseToken::Extern
			| BaseToken::Struct
			| BaseToken::Word8
			| BaseToken::Word16
			| BaseToken::Word32
			| BaseToken::Word64
			| BaseToken::Word128 => keyword(&b.to_string()),
			BaseToken::BraceLeft => punct("{"),
			BaseToken::BraceRight => punct("}"),
			other => punct(&other.to_string()),
		};
		out.push(OTok {
			kind,
			start: loc.span.start,
			end: loc.span.end,
			line: loc.line_number,
			col: loc.line_offset,
			raw_start: loc.span.start,
			raw_end: loc.span.end,
		});
	}
	DeltaLex { tokens: out, end_of_source, error_codes }
}
