//! Execute emitted IR with `lli-14 -` (the path `penne run` uses).

use std::io::{Read, Write};

#[derive(Debug, Clone)]
pub struct Exec
{
	pub stdout: String,
	pub stderr_tail: String,
	pub status: Option<i32>,
	pub signal: Option<i32>,
	pub timed_out: bool,
}

pub fn run_lli(ir: &str, timeout_ms: u64) -> Exec
{
	let child = std::process::Command::new("lli-14")
		.arg("-")
		.stdin(std::process::Stdio::piped())
		.stdout(std::process::Stdio::piped())
		.stderr(std::process::Stdio::piped())
		.spawn();
	let Ok(mut child) = child
	else
	{
		return Exec { stdout: String::new(), stderr_tail: "cannot spawn lli-14".into(), status: None, signal: None, timed_out: false };
	};
	{
		let mut stdin = child.stdin.take().unwrap();
		let _ = stdin.write_all(ir.as_bytes());
	}
	let mut out = child.stdout.take().unwrap();
	let mut err = child.stderr.take().unwrap();
	let reader = std::thread::spawn(move || {
		let mut s = Vec::new();
		let _ = out.read_to_end(&mut s);
		s
	});
	let ereader = std::thread::spawn(move || {
		let mut s = Vec::new();
		let _ = err.read_to_end(&mut s);
		s
	});
	let start = std::time::Instant::now();
	let mut timed_out = false;
	let status = loop
	{
		match child.try_wait()
		{
			Ok(Some(st)) => break Some(st),
			Ok(None) =>
			{
				if start.elapsed().as_millis() as u64 > timeout_ms
				{
					let _ = child.kill();
					timed_out = true;
					break child.wait().ok();
				}
				std::thread::sleep(std::time::Duration::from_millis(1));
			}
			Err(_) => break None,
		}
	};
	let stdout = String::from_utf8_lossy(&reader.join().unwrap_or_default()).to_string();
	let stderr = String::from_utf8_lossy(&ereader.join().unwrap_or_default()).to_string();
	use std::os::unix::process::ExitStatusExt;
	Exec {
		stdout,
		stderr_tail: stderr.chars().rev().take(400).collect::<String>().chars().rev().collect(),
		status: status.and_then(|s| s.code()),
		signal: status.and_then(|s| s.signal()),
		timed_out,
	}
}

/// `opt-14 -O2` on textual IR; the optimised IR as text, or the tool's complaint.
pub fn optimise(ir: &str) -> Result<String, String>
{
	let child = std::process::Command::new("opt-14")
		.args(["-O2", "-S", "-o", "-", "-"])
		.stdin(std::process::Stdio::piped())
		.stdout(std::process::Stdio::piped())
		.stderr(std::process::Stdio::piped())
		.spawn();
	let Ok(mut child) = child
	else
	{
		return Err("cannot spawn opt-14".into());
	};
	let mut stdin = child.stdin.take().unwrap();
	let text = ir.to_string();
	let writer = std::thread::spawn(move || {
		let _ = stdin.write_all(text.as_bytes());
	});
	let out = child.wait_with_output().map_err(|e| e.to_string())?;
	let _ = writer.join();
	if out.status.success()
	{
		Ok(String::from_utf8_lossy(&out.stdout).to_string())
	}
	else
	{
		Err(String::from_utf8_lossy(&out.stderr).chars().take(400).collect())
	}
}
