//! Adapter around the complete first-generation pipeline, following exactly the call sequence
//! of `src/main.rs::compile_to_ir_using_alpha`.

use penne::alpha::Compiler;
use penne::alpha::error::Error;
use penne::alpha::{expander, lexer, parser, resolver, scoper};

#[derive(Debug, Clone, PartialEq, Eq)]
pub struct Diag
{
	pub code: u16,
	pub file: String,
	pub line: usize,
	pub line_offset: usize,
	pub span_start: usize,
	pub span_end: usize,
}

#[derive(Debug, Clone)]
pub enum Verdict
{
	Ok
	{
		/// Textual IR per module (empty strings when IR generation was not requested).
		irs: Vec<String>,
		linked: Option<String>,
		lints: Vec<Diag>,
	},
	Rejected
	{
		stage: &'static str,
		diags: Vec<Diag>,
	},
	/// The compiler returned an `anyhow::Error` (not a diagnostic).
	InternalError(String),
}

impl Verdict
{
	pub fn accepted(&self) -> bool
	{
		matches!(self, Verdict::Ok { .. })
	}

	pub fn codes(&self) -> Vec<u16>
	{
		match self
		{
			Verdict::Rejected { diags, .. } => diags.iter().map(|d| d.code).collect(),
			_ => Vec::new(),
		}
	}

	pub fn diags(&self) -> &[Diag]
	{
		match self
		{
			Verdict::Rejected { diags, .. } => diags,
			_ => &[],
		}
	}

	pub fn lints(&self) -> &[Diag]
	{
		match self
		{
			Verdict::Ok { lints, .. } => lints,
			_ => &[],
		}
	}
}

pub fn diag_of(e: &Error) -> Diag
{
	let loc = e.verif_location();
	Diag {
		code: e.code(),
		file: loc.source_filename.clone(),
		line: loc.line_number,
		line_offset: loc.line_offset,
		span_start: loc.span.start,
		span_end: loc.span.end,
	}
}

#[derive(Debug, Clone, Copy, Default)]
pub struct Opts
{
	pub for_wasm: bool,
	/// Run `Compiler::compile` and print IR (as `penne emit` does).
	pub generate_ir: bool,
	pub link: bool,
}

pub const FULL: Opts = Opts { for_wasm: false, generate_ir: true, link: true };
pub const ANALYZE_ONLY: Opts = Opts { for_wasm: false, generate_ir: false, link: false };

/// Also returns the raw `Error` values of a rejection (for rendering checks).
pub fn alpha_pipeline_raw(files: &[(String, String)], opts: Opts) -> (Verdict, Vec<Error>)
{
	let (v, e, _) = alpha_pipeline_all(files, opts);
	(v, e)
}

/// Also returns the resolved declarations of every module of an accepted program.
pub fn alpha_pipeline_resolved(files: &[(String, String)], opts: Opts) -> (Verdict, Option<Vec<Vec<penne::alpha::resolved::Declaration>>>)
{
	let (v, _, r) = alpha_pipeline_all(files, opts);
	let r = if v.accepted() { Some(r) } else { None };
	(v, r)
}

thread_local! {
	/// The raw lints of the last run of the pipeline on this thread (for rendering checks).
	pub static LAST_LINTS: std::cell::RefCell<Vec<Error>> = std::cell::RefCell::new(Vec::new());
}

pub fn take_last_lints() -> Vec<Error>
{
	LAST_LINTS.with(|l| std::mem::take(&mut *l.borrow_mut()))
}

pub fn alpha_pipeline_all(files: &[(String, String)], opts: Opts) -> (Verdict, Vec<Error>, Vec<Vec<penne::alpha::resolved::Declaration>>)
{
	LAST_LINTS.with(|l| l.borrow_mut().clear());
	let mut modules = Vec::new();
	for (name, source) in files
	{
		let tokens = lexer::lex(source, name);
		let declarations = parser::parse(tokens);
		let path: std::path::PathBuf = name.parse().unwrap_or_default();
		modules.push((path, declarations));
	}
	expander::expand(&mut modules);
	for (_path, declarations) in &modules
	{
		if let Err(errors) = resolver::check_surface_level_errors(declarations)
		{
			let raw: Vec<Error> = errors.errors;
			return (Verdict::Rejected { stage: "surface", diags: raw.iter().map(diag_of).collect() }, raw, Vec::new());
		}
	}
	let mut compiler = Compiler::default();
	if opts.for_wasm
	{
		if let Err(e) = compiler.for_wasm()
		{
			return (Verdict::InternalError(e.to_string()), Vec::new(), Vec::new());
		}
	}
	let mut irs = Vec::new();
	let mut all_lints = Vec::new();
	let mut all_resolved = Vec::new();
	for (path, declarations) in modules
	{
		let name = path.to_string_lossy().to_string();
		let declarations = scoper::analyze(declarations);
		if let Err(e) = compiler.add_module(&name)
		{
			return (Verdict::InternalError(e.to_string()), Vec::new(), Vec::new());
		}
		let resolved = match compiler.analyze_and_resolve(declarations)
		{
			Ok(r) => r,
			Err(e) => return (Verdict::InternalError(e.to_string()), Vec::new(), Vec::new()),
		};
		let declarations = match resolved
		{
			Ok(d) => d,
			Err(errors) =>
			{
				let raw: Vec<Error> = errors.errors;
				return (Verdict::Rejected { stage: "analysis", diags: raw.iter().map(diag_of).collect() }, raw, Vec::new());
			}
		};
		let lints = compiler.take_lints();
		for l in lints
		{
			let e: Error = l.into();
			all_lints.push(diag_of(&e));
			LAST_LINTS.with(|l| l.borrow_mut().push(e));
		}
		if opts.generate_ir
		{
			if let Err(e) = compiler.compile(&declarations)
			{
				return (Verdict::InternalError(e.to_string()), Vec::new(), Vec::new());
			}
			match compiler.generate_ir()
			{
				Ok(ir) => irs.push(ir),
				Err(e) => return (Verdict::InternalError(e.to_string()), Vec::new(), Vec::new()),
			}
		}
		else
		{
			irs.push(String::new());
		}
		all_resolved.push(declarations);
	}
	let mut linked = None;
	if opts.generate_ir && opts.link
	{
		if let Err(e) = compiler.link_modules()
		{
			return (Verdict::InternalError(e.to_string()), Vec::new(), Vec::new());
		}
		match compiler.generate_ir()
		{
			Ok(ir) => linked = Some(ir),
			Err(e) => return (Verdict::InternalError(e.to_string()), Vec::new(), Vec::new()),
		}
	}
	(Verdict::Ok { irs, linked, lints: all_lints }, Vec::new(), all_resolved)
}

pub fn alpha_pipeline(files: &[(String, String)], opts: Opts) -> Verdict
{
	alpha_pipeline_raw(files, opts).0
}

pub fn compile_one(source: &str, opts: Opts) -> Verdict
{
	alpha_pipeline(&[("m.pn".to_string(), source.to_string())], opts)
}
