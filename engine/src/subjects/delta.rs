//! Adapter around the second-generation front end (lexer, parser, header, XML dumps).

use penne::delta::lexer as dlex;
use penne::delta::parser as dparse;

#[derive(Debug, Clone, Default)]
pub struct DeltaFront
{
	pub lex_error_codes: Vec<u16>,
	pub parse_error_codes: Vec<u16>,
	/// Lines of the located diagnostics: (code, line, span start, span end).
	pub diagnostics: Vec<(u16, usize, usize, usize)>,
	pub num_tokens: usize,
	pub num_nodes: usize,
	pub num_declarations: usize,
	pub xml: Option<Vec<String>>,
	pub header_xml: Option<Vec<String>>,
	pub header_declarations: usize,
	pub tokens_xml_lines: usize,
}

impl DeltaFront
{
	pub fn accepted(&self) -> bool
	{
		self.lex_error_codes.is_empty() && self.parse_error_codes.is_empty()
	}

	pub fn codes(&self) -> Vec<u16>
	{
		let mut v = self.lex_error_codes.clone();
		v.extend(&self.parse_error_codes);
		v
	}
}

/// Exactly the sequence of calls of `delta::test_suite::compile` / `main.rs::compile_to_ir_using_delta`.
pub fn delta_front(bytes: &[u8], want_xml: bool) -> DeltaFront
{
	delta_front_mode(bytes, if want_xml { 7 } else { 0 })
}

/// `mode` bits: 1 = tree XML, 2 = header XML, 4 = token XML.
pub fn delta_front_mode(bytes: &[u8], mode: u8) -> DeltaFront
{
	let mut out = DeltaFront::default();
	let tokens = dlex::lex(bytes, "m.pn");
	out.num_tokens = tokens.base_tokens().len();
	if let Some(errors) = tokens.errors()
	{
		for e in errors.errors.iter()
		{
			let loc = e.verif_location();
			out.lex_error_codes.push(e.code());
			out.diagnostics.push((e.code(), loc.line_number, loc.span.start, loc.span.end));
		}
		return out;
	}
	let text = std::str::from_utf8(bytes).ok();
	if mode & 4 != 0
	{
		if let Some(text) = text
		{
			out.tokens_xml_lines = tokens.as_xml(text).count();
		}
	}
	let tree = dparse::parse(&tokens);
	out.num_nodes = tree.num_parse_nodes();
	out.num_declarations = tree.num_declarations();
	if let Some(errors) = tree.errors(&tokens)
	{
		for e in errors.errors.iter()
		{
			let loc = e.verif_location();
			out.parse_error_codes.push(e.code());
			out.diagnostics.push((e.code(), loc.line_number, loc.span.start, loc.span.end));
		}
		return out;
	}
	let header = tree.build_header();
	out.header_declarations = header.num_declarations();
	if let Some(text) = text
	{
		if mode & 1 != 0
		{
			out.xml = Some(tree.as_xml(&tokens, text).collect());
		}
		if mode & 2 != 0
		{
			out.header_xml = Some(header.as_xml(&tokens, text).collect());
		}
	}
	out
}
