pub mod alpha;
pub mod delta;
pub mod lex;
pub mod trees;
