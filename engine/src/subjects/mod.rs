pub mod delta;
pub mod lex;
pub mod trees;
