pub mod alpha;
pub mod delta;
pub mod lex;
pub mod monitor;
pub mod trees;
