pub mod delta;
pub mod lex;
