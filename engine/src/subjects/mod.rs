pub mod alpha;
pub mod delta;
pub mod exec;
pub mod lex;
pub mod monitor;
pub mod trees;
