pub mod lex;
