//! Conversions of the trees built by the two real parsers into the model's canonical tree.
//!  * second generation: its XML dump is parsed (with a well-formedness check) and mapped by a
//!    fixed table;
//!  * first generation: the public AST is walked.

use crate::model::grammar::{self, Node};
use penne::alpha::common as ac;
use penne::alpha::value_type::ValueType;

// ---------------------------------------------------------------------------------------------
// XML

#[derive(Debug, Clone)]
pub struct Xml
{
	pub tag: String,
	pub attrs: Vec<(String, String)>,
	pub children: Vec<Xml>,
	pub text: Vec<String>,
}

impl Xml
{
	pub fn get(&self, k: &str) -> Option<&str>
	{
		self.attrs.iter().find(|(a, _)| a == k).map(|(_, v)| v.as_str())
	}
}

/// Undo Rust's `{:?}` escaping of a string (without the surrounding quotes).
pub fn unescape_debug(s: &str) -> Result<String, String>
{
	let mut out = String::new();
	let mut it = s.chars().peekable();
	while let Some(c) = it.next()
	{
		if c != '\\'
		{
			out.push(c);
			continue;
		}
		match it.next()
		{
			Some('n') => out.push('\n'),
			Some('r') => out.push('\r'),
			Some('t') => out.push('\t'),
			Some('0') => out.push('\0'),
			Some('\\') => out.push('\\'),
			Some('"') => out.push('"'),
			Some('\'') => out.push('\''),
			Some('u') =>
			{
				if it.next() != Some('{')
				{
					return Err("bad \\u escape".into());
				}
				let mut hex = String::new();
				loop
				{
					match it.next()
					{
						Some('}') => break,
						Some(h) => hex.push(h),
						None => return Err("unterminated \\u escape".into()),
					}
				}
				let v = u32::from_str_radix(&hex, 16).map_err(|e| e.to_string())?;
				out.push(char::from_u32(v).ok_or("bad scalar")?);
			}
			other => return Err(format!("unknown escape {other:?}")),
		}
	}
	Ok(out)
}

fn parse_tag_line(line: &str) -> Result<(String, Vec<(String, String)>, bool), String>
{
	// line starts with '<' and ends with '>'
	let inner = &line[1..line.len() - 1];
	let (inner, selfclosing) = match inner.strip_suffix('/')
	{
		Some(i) => (i.trim_end(), true),
		None => (inner, false),
	};
	let mut chars = inner.char_indices().peekable();
	let mut tag = String::new();
	while let Some(&(_, c)) = chars.peek()
	{
		if c.is_whitespace()
		{
			break;
		}
		tag.push(c);
		chars.next();
	}
	let mut attrs = Vec::new();
	loop
	{
		while let Some(&(_, c)) = chars.peek()
		{
			if c.is_whitespace()
			{
				chars.next();
			}
			else
			{
				break;
			}
		}
		if chars.peek().is_none()
		{
			break;
		}
		let mut name = String::new();
		while let Some(&(_, c)) = chars.peek()
		{
			if c == '='
			{
				break;
			}
			name.push(c);
			chars.next();
		}
		if chars.next().map(|x| x.1) != Some('=')
		{
			return Err(format!("attribute without value in {line}"));
		}
		if chars.next().map(|x| x.1) != Some('"')
		{
			return Err(format!("attribute value not quoted in {line}"));
		}
		let mut raw = String::new();
		let mut closed = false;
		while let Some((_, c)) = chars.next()
		{
			if c == '\\'
			{
				raw.push(c);
				if let Some((_, d)) = chars.next()
				{
					raw.push(d);
				}
				continue;
			}
			if c == '"'
			{
				closed = true;
				break;
			}
			raw.push(c);
		}
		if !closed
		{
			return Err(format!("unterminated attribute value in {line}"));
		}
		attrs.push((name.trim().to_string(), unescape_debug(&raw)?));
	}
	Ok((tag, attrs, selfclosing))
}

/// Cut a dump into its items: tags `<...>` (quotes inside attribute values respected) and
/// Debug-quoted text items `"..."`; whitespace between items is skipped.
fn xml_items(text: &str) -> Result<Vec<String>, String>
{
	let mut items = Vec::new();
	let mut chars = text.chars().peekable();
	while let Some(&c) = chars.peek()
	{
		if c.is_whitespace()
		{
			chars.next();
			continue;
		}
		let mut item = String::new();
		let is_tag = c == '<';
		if !is_tag && c != '"'
		{
			let rest: String = chars.take(40).collect();
			return Err(format!("unexpected text item {}: {rest}", items.len()));
		}
		item.push(c);
		chars.next();
		let mut in_quotes = !is_tag;
		let mut closed = false;
		while let Some(d) = chars.next()
		{
			item.push(d);
			if in_quotes
			{
				if d == '\\'
				{
					if let Some(e) = chars.next()
					{
						item.push(e);
					}
				}
				else if d == '"'
				{
					in_quotes = false;
					if !is_tag
					{
						closed = true;
						break;
					}
				}
			}
			else if d == '"'
			{
				in_quotes = true;
			}
			else if d == '>'
			{
				closed = true;
				break;
			}
		}
		if !closed
		{
			return Err(format!("unterminated item {}: {}", items.len(), item.chars().take(40).collect::<String>()));
		}
		items.push(item);
	}
	Ok(items)
}

/// Parse the XML dump; `Err` describes the first well-formedness problem.
pub fn parse_xml(lines: &[String]) -> Result<Vec<Xml>, String>
{
	let mut stack: Vec<Xml> = vec![Xml { tag: "#root".into(), attrs: vec![], children: vec![], text: vec![] }];
	// The layout of the dump (indentation, line breaks between elements) is incidental: the dump is
	// cut into elements and quoted text items wherever they stand.
	let items = xml_items(&lines.join("\n"))?;
	for (ln, line) in items.iter().enumerate()
	{
		let l = line.as_str();
		if l.starts_with("<MALFORMED")
		{
			return Err(format!("MALFORMED node at line {ln}: {l}"));
		}
		if l.starts_with("</") && l.ends_with('>')
		{
			let name = &l[2..l.len() - 1];
			let top = stack.pop().ok_or("close without open")?;
			if top.tag != name
			{
				return Err(format!("unbalanced: <{}> closed by </{}> at line {ln}", top.tag, name));
			}
			match stack.last_mut()
			{
				Some(parent) => parent.children.push(top),
				None => return Err(format!("closing tag </{name}> at top level, line {ln}")),
			}
		}
		else if l.starts_with('<') && l.ends_with('>')
		{
			let (tag, attrs, selfclosing) = parse_tag_line(l)?;
			let node = Xml { tag, attrs, children: vec![], text: vec![] };
			if selfclosing
			{
				stack.last_mut().unwrap().children.push(node);
			}
			else
			{
				stack.push(node);
			}
		}
		else
		{
			// raw text line (Debug-formatted string)
			let t = l.trim();
			let t = t.strip_prefix('"').and_then(|t| t.strip_suffix('"')).ok_or_else(|| format!("unexpected text line {ln}: {l}"))?;
			stack.last_mut().unwrap().text.push(unescape_debug(t)?);
		}
	}
	if stack.len() != 1
	{
		return Err(format!("unbalanced: <{}> never closed", stack.last().unwrap().tag));
	}
	Ok(stack.pop().unwrap().children)
}

fn prim_from_debug(name: &str) -> &'static str
{
	match name
	{
		"Void" => "void",
		"Int8" => "i8",
		"Int16" => "i16",
		"Int32" => "i32",
		"Int64" => "i64",
		"Int128" => "i128",
		"Uint8" => "u8",
		"Uint16" => "u16",
		"Uint32" => "u32",
		"Uint64" => "u64",
		"Uint128" => "u128",
		"Usize" => "usize",
		"Char8" => "char8",
		"Bool" => "bool",
		_ => "?",
	}
}

fn list_children<'a>(x: &'a Xml, meta: &str) -> Result<&'a [Xml], String>
{
	for c in &x.children
	{
		if c.tag == "List" && c.get("meta") == Some(meta)
		{
			return Ok(&c.children);
		}
	}
	Err(format!("<{}> has no list '{meta}'", x.tag))
}

fn non_list_children(x: &Xml) -> Vec<&Xml>
{
	x.children.iter().filter(|c| c.tag != "List").collect()
}

fn is_type_tag(tag: &str) -> bool
{
	tag.ends_with("VT") || tag == "SimpleValueType" || tag == "CompositeValueType"
}

pub fn delta_type(x: &Xml) -> Result<Node, String>
{
	let one = |x: &Xml| -> Result<Node, String> {
		if x.children.len() != 1
		{
			return Err(format!("<{}> has {} children, expected 1", x.tag, x.children.len()));
		}
		delta_type(&x.children[0])
	};
	Ok(match x.tag.as_str()
	{
		"SimpleValueType" => Node::new("Prim").attr("name", prim_from_debug(x.get("type").unwrap_or("?"))),
		"CompositeValueType" => one(x)?,
		"UnresolvedStructOrWordVT" => Node::new("Named").attr("name", x.get("src").unwrap_or("?")),
		"PointerVT" => Node::new("Pointer").child(one(x)?),
		"ViewVT" => Node::new("View").child(one(x)?),
		"ArraylikeVT" => Node::new("Arraylike").child(one(x)?),
		"SliceVT" => Node::new("Slice").child(one(x)?),
		"EndlessArrayVT" => Node::new("Endless").child(one(x)?),
		"ArrayVT" => Node::new("Array").attr("length", x.get("length").unwrap_or("?")).child(one(x)?),
		"ArrayWithNamedLengthVT" => Node::new("ArrayNamed").attr("length", x.get("identifier").unwrap_or("?")).child(one(x)?),
		other => return Err(format!("unexpected type element <{other}>")),
	})
}

fn delta_ref(x: &Xml) -> Result<Node, String>
{
	if x.tag != "Deref"
	{
		return Err(format!("expected <Deref>, found <{}>", x.tag));
	}
	let mut n = Node::new("Ref").attr("address_depth", x.get("address_depth").unwrap_or("?")).attr("base", x.get("identifier").unwrap_or("?"));
	for s in list_children(x, "steps")?
	{
		n = n.child(match s.tag.as_str()
		{
			"DerefStepMember" => Node::new("Member").attr("name", s.get("identifier").unwrap_or("?")),
			"DerefStepElement" =>
			{
				if s.children.len() != 1
				{
					return Err("DerefStepElement without single argument".into());
				}
				Node::new("Index").child(delta_expr(&s.children[0])?)
			}
			other => return Err(format!("unexpected step <{other}>")),
		});
	}
	Ok(n)
}

fn decode_string_src(src: &str) -> Result<Vec<u8>, String>
{
	let spelled = format!("\"{src}\"");
	let toks = crate::model::reflex::lex(spelled.as_bytes());
	match toks.as_slice()
	{
		[t] =>
		{
			if let crate::model::reflex::RKind::Str(b) = &t.kind
			{
				return Ok(b.clone());
			}
			Err(format!("string source {src:?} does not lex as one string literal"))
		}
		_ => Err(format!("string source {src:?} does not lex as one string literal")),
	}
}

pub fn delta_expr(x: &Xml) -> Result<Node, String>
{
	let kids = |n: usize| -> Result<(), String> {
		if x.children.len() != n
		{
			return Err(format!("<{}> has {} children, expected {n}", x.tag, x.children.len()));
		}
		Ok(())
	};
	Ok(match x.tag.as_str()
	{
		// (an integer literal, with or without a `type` attribute, under either element name)
		"UntypedIntegerLiteral" | "TypedIntegerLiteral" =>
		{
			let mut n = Node::new("Int").attr("value", x.get("value").unwrap_or("?"));
			if let Some(t) = x.get("type")
			{
				n = n.attr("type", prim_from_debug(t));
			}
			n
		}
		"CharLiteral" => Node::new("Int").attr("value", x.get("value").unwrap_or("?")).attr("type", "char8"),
		"BooleanLiteral" => Node::new("Bool").attr("value", x.get("value") == Some("1")),
		"SimpleStringLiteral" => Node::new("Str").attr("bytes", grammar::hex(&decode_string_src(x.get("src").unwrap_or(""))?)),
		"CompositeStringLiteral" =>
		{
			let text = x.text.join("");
			let toks = crate::model::reflex::lex(text.as_bytes());
			let mut bytes = Vec::new();
			for t in toks
			{
				match t.kind
				{
					crate::model::reflex::RKind::Str(b) => bytes.extend(b),
					other => return Err(format!("composite string literal contains {other:?}")),
				}
			}
			Node::new("Str").attr("bytes", grammar::hex(&bytes))
		}
		"Deref" => delta_ref(x)?,
		"FunctionCall" =>
		{
			let mut n = Node::new("Call").attr("name", x.get("identifier").unwrap_or("?").trim_end_matches('!')).attr("builtin", x.get("is_builtin").unwrap_or("?"));
			for a in list_children(x, "arguments")?
			{
				n = n.child(delta_expr(a)?);
			}
			n
		}
		"ArrayLiteral" =>
		{
			let mut n = Node::new("ArrayLit");
			for a in list_children(x, "elements")?
			{
				n = n.child(delta_expr(a)?);
			}
			n
		}
		"Structural" =>
		{
			let mut n = Node::new("Structural").attr("name", x.get("identifier").unwrap_or("?"));
			for f in list_children(x, "initializers")?
			{
				if f.tag != "IdentifierAndExpression" || f.children.len() != 1
				{
					return Err(format!("bad field initialiser <{}> with {} children", f.tag, f.children.len()));
				}
				n = n.child(Node::new("Field").attr("name", f.get("src").unwrap_or("?")).child(delta_expr(&f.children[0])?));
			}
			n
		}
		"Parenthesized" =>
		{
			kids(1)?;
			Node::new("Paren").child(delta_expr(&x.children[0])?)
		}
		"Binary" =>
		{
			kids(2)?;
			Node::new("Binary").attr("op", x.get("op").unwrap_or("?")).child(delta_expr(&x.children[0])?).child(delta_expr(&x.children[1])?)
		}
		"Unary" =>
		{
			kids(1)?;
			let op = x.get("op").unwrap_or("?");
			let inner = &x.children[0];
			if op == "Negative" && (inner.tag == "UntypedIntegerLiteral" || inner.tag == "TypedIntegerLiteral")
			{
				if let Some(src) = inner.get("src")
				{
					if grammar::minus_folds_into(src)
					{
						let mut n = Node::new("Int").attr("value", format!("-{}", inner.get("value").unwrap_or("?")));
						if let Some(t) = inner.get("type")
						{
							n = n.attr("type", prim_from_debug(t));
						}
						return Ok(n);
					}
				}
			}
			Node::new("Unary").attr("op", op).child(delta_expr(inner)?)
		}
		"BitCast" =>
		{
			kids(1)?;
			Node::new("BitCast").child(delta_expr(&x.children[0])?)
		}
		"TypeCast" =>
		{
			kids(2)?;
			Node::new("TypeCast").child(delta_expr(&x.children[0])?).child(delta_type(&x.children[1])?)
		}
		"LengthOf" =>
		{
			kids(1)?;
			Node::new("LengthOf").child(delta_ref(&x.children[0])?)
		}
		"SizeOf" =>
		{
			kids(1)?;
			Node::new("SizeOf").child(delta_type(&x.children[0])?)
		}
		other => return Err(format!("unexpected expression element <{other}>")),
	})
}

pub fn delta_stmt(x: &Xml) -> Result<Node, String>
{
	Ok(match x.tag.as_str()
	{
		"Block" =>
		{
			let mut n = Node::new("Block");
			for s in list_children(x, "statements")?
			{
				n = n.child(delta_stmt(s)?);
			}
			n
		}
		"If" =>
		{
			if x.children.len() < 2
			{
				return Err("If with fewer than 2 children".into());
			}
			let c = &x.children[0];
			if c.tag != "Comparison" || c.children.len() != 2
			{
				return Err(format!("If condition is <{}>", c.tag));
			}
			let mut n = Node::new("If").child(
				Node::new("Comparison").attr("op", c.get("op").unwrap_or("?")).child(delta_expr(&c.children[0])?).child(delta_expr(&c.children[1])?),
			);
			for b in &x.children[1..]
			{
				if (b.tag != "Then" && b.tag != "Else") || b.children.len() != 1
				{
					return Err(format!("bad branch <{}> with {} children", b.tag, b.children.len()));
				}
				n = n.child(Node::new(&b.tag).child(delta_stmt(&b.children[0])?));
			}
			n
		}
		"Loop" => Node::new("Loop"),
		"Goto" => Node::new("Goto").attr("label", x.get("label").unwrap_or("?")),
		"Label" => Node::new("Label").attr("name", x.get("src").unwrap_or("?")),
		"VariableDeclaration" =>
		{
			let mut ty = Node::new("NoType");
			let mut val = Node::new("NoValue");
			for c in &x.children
			{
				if is_type_tag(&c.tag)
				{
					ty = Node::new("Type").child(delta_type(c)?);
				}
				else
				{
					val = Node::new("Value").child(delta_expr(c)?);
				}
			}
			if x.children.len() > 2
			{
				return Err("VariableDeclaration with more than 2 children".into());
			}
			Node::new("Var").attr("name", x.get("src").unwrap_or("?")).child(ty).child(val)
		}
		"Assignment" =>
		{
			if x.children.len() != 2
			{
				return Err(format!("Assignment with {} children", x.children.len()));
			}
			Node::new("Assign").child(delta_ref(&x.children[0])?).child(delta_expr(&x.children[1])?)
		}
		"MethodCall" =>
		{
			let mut n = Node::new("CallStmt").attr("name", x.get("identifier").unwrap_or("?").trim_end_matches('!')).attr("builtin", x.get("is_builtin").unwrap_or("?"));
			for a in list_children(x, "arguments")?
			{
				n = n.child(delta_expr(a)?);
			}
			n
		}
		other => return Err(format!("unexpected statement element <{other}>")),
	})
}

pub fn delta_decl(x: &Xml) -> Result<Node, String>
{
	let flags = x.get("flags").unwrap_or("").to_string();
	Ok(match x.tag.as_str()
	{
		"ConstantDeclaration" =>
		{
			if x.children.len() != 2
			{
				return Err(format!("ConstantDeclaration with {} children", x.children.len()));
			}
			// one child is the type and one the value, in either order (the property does not fix it)
			let (ty, value) = if is_type_tag(&x.children[0].tag) { (&x.children[0], &x.children[1]) } else { (&x.children[1], &x.children[0]) };
			Node::new("Const").attr("name", x.get("identifier").unwrap_or("?")).attr("flags", flags).child(delta_type(ty)?).child(delta_expr(value)?)
		}
		"FunctionDeclaration" =>
		{
			let mut n = Node::new("Fn").attr("name", x.get("identifier").unwrap_or("?")).attr("flags", flags);
			let mut params = Node::new("Params");
			for p in list_children(x, "parameters")?
			{
				if p.tag != "IdentifierAndType" || p.children.len() != 1
				{
					return Err("bad parameter".into());
				}
				params = params.child(Node::new("Param").attr("name", p.get("src").unwrap_or("?")).child(delta_type(&p.children[0])?));
			}
			n = n.child(params);
			let rest = non_list_children(x);
			if rest.is_empty() || rest.len() > 2
			{
				return Err(format!("FunctionDeclaration with {} non-list children", rest.len()));
			}
			n = n.child(Node::new("Returns").child(delta_type(rest[0])?));
			if rest.len() == 2
			{
				let b = rest[1];
				if b.tag != "FunctionBody"
				{
					return Err(format!("expected FunctionBody, found <{}>", b.tag));
				}
				let mut stmts = Node::new("Stmts");
				for s in list_children(b, "statements")?
				{
					stmts = stmts.child(delta_stmt(s)?);
				}
				let mut bn = Node::new("Body").child(stmts);
				let rv = non_list_children(b);
				if rv.len() > 1
				{
					return Err("FunctionBody with more than one return value".into());
				}
				if let Some(rv) = rv.first()
				{
					bn = bn.child(Node::new("ReturnValue").child(delta_expr(rv)?));
				}
				n = n.child(bn);
			}
			n
		}
		"StructureDeclaration" =>
		{
			let mut n = Node::new("Struct")
				.attr("name", x.get("identifier").unwrap_or("?"))
				.attr("flags", flags)
				.attr("word_bytes", x.get("size-in-bytes").unwrap_or("?"));
			for m in list_children(x, "members")?
			{
				if m.tag != "IdentifierAndType" || m.children.len() != 1
				{
					return Err("bad member".into());
				}
				n = n.child(Node::new("Member").attr("name", m.get("src").unwrap_or("?")).child(delta_type(&m.children[0])?));
			}
			n
		}
		"ImportDeclaration" =>
		{
			if x.children.len() != 1 || x.children[0].tag != "SimpleStringLiteral"
			{
				return Err("ImportDeclaration without path".into());
			}
			let bytes = decode_string_src(x.children[0].get("src").unwrap_or(""))?;
			Node::new("Import").attr("flags", flags).attr("path", String::from_utf8_lossy(&bytes))
		}
		other => return Err(format!("unexpected declaration element <{other}>")),
	})
}

pub fn delta_module(lines: &[String]) -> Result<Node, String>
{
	let xml = parse_xml(lines)?;
	let mut n = Node::new("Module");
	for d in &xml
	{
		n = n.child(delta_decl(d)?);
	}
	Ok(n)
}

// ---------------------------------------------------------------------------------------------
// First-generation AST

pub struct AlphaParse
{
	pub declarations: Vec<ac::Declaration>,
	pub tree: Result<Node, String>,
	/// Codes of all errors found anywhere in the tree (poison).
	pub error_codes: Vec<u16>,
}

struct Walker
{
	codes: Vec<u16>,
}

impl Walker
{
	fn poison(&mut self, p: &ac::Poison) -> Node
	{
		if let ac::Poison::Error(e) = p
		{
			self.codes.push(e.code());
		}
		else
		{
			self.codes.push(0);
		}
		Node::new("Poison")
	}

	fn ty(&mut self, t: &ValueType<ac::Identifier>) -> Node
	{
		let prim = |n: &str| Node::new("Prim").attr("name", n);
		match t
		{
			ValueType::Void => prim("void"),
			ValueType::Int8 => prim("i8"),
			ValueType::Int16 => prim("i16"),
			ValueType::Int32 => prim("i32"),
			ValueType::Int64 => prim("i64"),
			ValueType::Int128 => prim("i128"),
			ValueType::Uint8 => prim("u8"),
			ValueType::Uint16 => prim("u16"),
			ValueType::Uint32 => prim("u32"),
			ValueType::Uint64 => prim("u64"),
			ValueType::Uint128 => prim("u128"),
			ValueType::Usize => prim("usize"),
			ValueType::Char8 => prim("char8"),
			ValueType::Bool => prim("bool"),
			ValueType::Array { element_type, length } => Node::new("Array").attr("length", length).child(self.ty(element_type)),
			ValueType::ArrayWithNamedLength { element_type, named_length } => Node::new("ArrayNamed").attr("length", &named_length.name).child(self.ty(element_type)),
			ValueType::Slice { element_type } => Node::new("Slice").child(self.ty(element_type)),
			ValueType::SlicePointer { element_type } => Node::new("SlicePointer").child(self.ty(element_type)),
			ValueType::EndlessArray { element_type } => Node::new("Endless").child(self.ty(element_type)),
			ValueType::Arraylike { element_type } => Node::new("Arraylike").child(self.ty(element_type)),
			ValueType::Struct { identifier } => Node::new("Named").attr("name", &identifier.name),
			ValueType::Word { identifier, .. } => Node::new("Named").attr("name", &identifier.name),
			ValueType::UnresolvedStructOrWord { identifier } => Node::new("Named").attr("name", identifier.as_ref().map(|i| i.name.as_str()).unwrap_or("?")),
			ValueType::Pointer { deref_type } => Node::new("Pointer").child(self.ty(deref_type)),
			ValueType::View { deref_type } => Node::new("View").child(self.ty(deref_type)),
		}
	}

	fn pty(&mut self, t: &ac::Poisonable<ValueType<ac::Identifier>>) -> Node
	{
		match t
		{
			Ok(t) => self.ty(t),
			Err(p) => self.poison(p),
		}
	}

	fn reference(&mut self, r: &ac::Reference) -> Node
	{
		let base = match &r.base
		{
			Ok(b) => b.name.clone(),
			Err(p) =>
			{
				self.poison(p);
				"?".to_string()
			}
		};
		let mut n = Node::new("Ref").attr("address_depth", r.address_depth).attr("base", base);
		for s in &r.steps
		{
			n = n.child(match s
			{
				ac::ReferenceStep::Element { argument, .. } => Node::new("Index").child(self.expr(argument)),
				ac::ReferenceStep::Member { member, .. } => Node::new("Member").attr("name", &member.name),
				other => Node::new(&format!("{other:?}").chars().take_while(|c| c.is_alphanumeric()).collect::<String>()),
			});
		}
		n
	}

	fn expr(&mut self, e: &ac::Expression) -> Node
	{
		use ac::Expression as E;
		match e
		{
			E::Binary { op, left, right, .. } => Node::new("Binary").attr("op", format!("{op:?}")).child(self.expr(left)).child(self.expr(right)),
			E::Unary { op, expression, .. } => Node::new("Unary").attr("op", format!("{op:?}")).child(self.expr(expression)),
			E::BooleanLiteral { value, .. } => Node::new("Bool").attr("value", value),
			E::SignedIntegerLiteral { value, value_type, .. } =>
			{
				let mut n = Node::new("Int").attr("value", value);
				if let Some(t) = value_type
				{
					let t = self.pty(t);
					n = n.attr("type", t.get("name").unwrap_or("?"));
				}
				n
			}
			E::BitIntegerLiteral { value, value_type, .. } =>
			{
				let mut n = Node::new("Int").attr("value", value);
				if let Some(t) = value_type
				{
					let t = self.pty(t);
					n = n.attr("type", t.get("name").unwrap_or("?"));
				}
				n
			}
			E::StringLiteral { bytes, .. } => Node::new("Str").attr("bytes", grammar::hex(bytes)),
			E::ArrayLiteral { array, .. } =>
			{
				let mut n = Node::new("ArrayLit");
				for el in &array.elements
				{
					n = n.child(self.expr(el));
				}
				n
			}
			E::Structural { members, structural_type, .. } =>
			{
				let t = self.pty(structural_type);
				let mut n = Node::new("Structural").attr("name", t.get("name").unwrap_or("?"));
				for m in members
				{
					let name = match &m.name
					{
						Ok(i) => i.name.clone(),
						Err(p) =>
						{
							self.poison(p);
							"?".into()
						}
					};
					n = n.child(Node::new("Field").attr("name", name).child(self.expr(&m.expression)));
				}
				n
			}
			E::Parenthesized { inner, .. } => Node::new("Paren").child(self.expr(inner)),
			E::Deref { reference, .. } => self.reference(reference),
			E::Autocoerce { expression, .. } => Node::new("Autocoerce").child(self.expr(expression)),
			E::BitCast { expression, .. } => Node::new("BitCast").child(self.expr(expression)),
			E::TypeCast { expression, coerced_type, .. } => Node::new("TypeCast").child(self.expr(expression)).child(self.ty(coerced_type)),
			E::LengthOfArray { reference, .. } => Node::new("LengthOf").child(self.reference(reference)),
			E::SizeOf { queried_type, .. } => Node::new("SizeOf").child(self.ty(queried_type)),
			E::FunctionCall { name, builtin, arguments, .. } =>
			{
				// The first generation stores a recognised builtin without its '!' and an
				// unrecognised one with it; the canonical name has no '!'.
				let is_builtin = builtin.is_some() || name.name.ends_with('!');
				let mut n = Node::new("Call").attr("name", name.name.trim_end_matches('!')).attr("builtin", is_builtin);
				for a in arguments
				{
					n = n.child(self.expr(a));
				}
				n
			}
			E::Poison(p) => self.poison(p),
		}
	}

	fn stmt(&mut self, s: &ac::Statement) -> Node
	{
		use ac::Statement as S;
		match s
		{
			S::Declaration { name, value, value_type, .. } =>
			{
				let ty = match value_type
				{
					Some(t) => Node::new("Type").child(self.pty(t)),
					None => Node::new("NoType"),
				};
				let val = match value
				{
					Some(v) => Node::new("Value").child(self.expr(v)),
					None => Node::new("NoValue"),
				};
				Node::new("Var").attr("name", &name.name).child(ty).child(val)
			}
			S::Assignment { reference, value, .. } => Node::new("Assign").child(self.reference(reference)).child(self.expr(value)),
			S::MethodCall { name, builtin, arguments } =>
			{
				let is_builtin = builtin.is_some() || name.name.ends_with('!');
				let mut n = Node::new("CallStmt").attr("name", name.name.trim_end_matches('!')).attr("builtin", is_builtin);
				for a in arguments
				{
					n = n.child(self.expr(a));
				}
				n
			}
			S::Loop { .. } => Node::new("Loop"),
			S::Goto { label, .. } => Node::new("Goto").attr("label", &label.name),
			S::Label { label, .. } => Node::new("Label").attr("name", &label.name),
			S::If { condition, then_branch, else_branch, .. } =>
			{
				let mut n = Node::new("If")
					.child(Node::new("Comparison").attr("op", format!("{:?}", condition.op)).child(self.expr(&condition.left)).child(self.expr(&condition.right)))
					.child(Node::new("Then").child(self.stmt(then_branch)));
				if let Some(e) = else_branch
				{
					n = n.child(Node::new("Else").child(self.stmt(&e.branch)));
				}
				n
			}
			S::Block(b) =>
			{
				let mut n = Node::new("Block");
				for s in &b.statements
				{
					n = n.child(self.stmt(s));
				}
				n
			}
			S::Poison(p) => self.poison(p),
		}
	}

	fn flags(&self, f: &enumset::EnumSet<ac::DeclarationFlag>) -> String
	{
		let mut v = Vec::new();
		for flag in f.iter()
		{
			v.push(format!("{flag:?}"));
		}
		v.join("|")
	}

	fn decl(&mut self, d: &ac::Declaration) -> Node
	{
		use ac::Declaration as D;
		match d
		{
			D::Constant { name, value, value_type, flags, .. } =>
			{
				Node::new("Const").attr("name", &name.name).attr("flags", self.flags(flags)).child(self.pty(value_type)).child(self.expr(value))
			}
			D::Function { name, parameters, body, return_type, flags, .. } =>
			{
				let mut n = self.fn_head(name, parameters, return_type, flags);
				match body
				{
					Ok(b) =>
					{
						let mut stmts = Node::new("Stmts");
						let mut list: &[ac::Statement] = &b.statements;
						// The first generation keeps the `return:` label as the last statement.
						if b.return_value.is_some()
						{
							if let Some(ac::Statement::Label { label, .. }) = list.last()
							{
								if label.name == "return"
								{
									list = &list[..list.len() - 1];
								}
							}
						}
						for s in list
						{
							stmts = stmts.child(self.stmt(s));
						}
						let mut bn = Node::new("Body").child(stmts);
						if let Some(r) = &b.return_value
						{
							bn = bn.child(Node::new("ReturnValue").child(self.expr(r)));
						}
						n = n.child(bn);
					}
					Err(p) =>
					{
						n = n.child(self.poison(p));
					}
				}
				n
			}
			D::FunctionHead { name, parameters, return_type, flags, .. } => self.fn_head(name, parameters, return_type, flags),
			D::Structure { name, members, structural_type, flags, .. } =>
			{
				let word = match structural_type
				{
					Ok(ValueType::Word { size_in_bytes, .. }) => *size_in_bytes as i32,
					Ok(_) => -1,
					Err(p) =>
					{
						self.poison(p);
						-2
					}
				};
				let mut n = Node::new("Struct").attr("name", &name.name).attr("flags", self.flags(flags)).attr("word_bytes", word);
				for m in members
				{
					let mname = match &m.name
					{
						Ok(i) => i.name.clone(),
						Err(p) =>
						{
							self.poison(p);
							"?".into()
						}
					};
					n = n.child(Node::new("Member").attr("name", mname).child(self.pty(&m.value_type)));
				}
				n
			}
			D::Import { filename, .. } => Node::new("Import").attr("flags", "").attr("path", filename),
			D::Poison(p) => self.poison(p),
		}
	}

	fn fn_head(
		&mut self,
		name: &ac::Identifier,
		parameters: &[ac::Parameter],
		return_type: &ac::Poisonable<ValueType<ac::Identifier>>,
		flags: &enumset::EnumSet<ac::DeclarationFlag>,
	) -> Node
	{
		let mut n = Node::new("Fn").attr("name", &name.name).attr("flags", self.flags(flags));
		let mut params = Node::new("Params");
		for p in parameters
		{
			let pname = match &p.name
			{
				Ok(i) => i.name.clone(),
				Err(po) =>
				{
					self.poison(po);
					"?".into()
				}
			};
			params = params.child(Node::new("Param").attr("name", pname).child(self.pty(&p.value_type)));
		}
		n = n.child(params);
		n.child(Node::new("Returns").child(self.pty(return_type)))
	}
}

/// Lex and parse with the first generation and walk its tree.
pub fn alpha_parse(src: &str) -> AlphaParse
{
	let tokens = penne::alpha::lexer::lex(src, "m.pn");
	let declarations = penne::alpha::parser::parse(tokens);
	let mut w = Walker { codes: Vec::new() };
	let mut n = Node::new("Module");
	for d in &declarations
	{
		n = n.child(w.decl(d));
	}
	let tree = if w.codes.is_empty() { Ok(n) } else { Err(format!("parse errors {:?}", w.codes)) };
	AlphaParse { declarations, tree, error_codes: w.codes }
}
