//! C03 — every successful compilation yields valid LLVM IR.
//!
//! Every accepted program of the exhaustive spaces of the other checks (type matrix, label /
//! variable / placement bodies, declaration shapes, module histories, corpus), natively and for
//! the wasm target: the printed IR of every module and of the linked program must pass LLVM's own
//! assembler and verifier run as separate processes, and must define the functions the source
//! defines with the right visibility.

use crate::checks::{c02, c04, c05, c06, c07};
use crate::driver::Driver;
use crate::pool::{CaseOutcome, WorkerCtx};
use crate::spaces::body::BodySpace;
use crate::subjects::alpha::{self, Opts, Verdict};
use crate::subjects::trees;
use serde_json::{Value, json};
use std::io::Write;

pub fn drive(d: &mut Driver)
{
	let quick = d.quick();
	let mut jobs = Vec::new();
	// type matrix (every cell; ill-typed cells only when they are accepted)
	for f in c07::FAMILIES
	{
		let n = c07::cells(f).len();
		let mut lo = 0;
		while lo < n
		{
			let hi = (lo + 100).min(n);
			jobs.push(json!({"source": "matrix", "family": f, "lo": lo, "hi": hi}));
			lo = hi;
		}
	}
	// bodies of C04 / C05 / C06 at a small bound
	let nbody = if quick { 3 } else { 5 };
	d.bound("statements per body in the label, variable and placement spaces", json!(nbody));
	for check in ["c04", "c05"]
	{
		let atoms = if check == "c04" { 6 } else { 11 };
		let space = BodySpace::new(atoms);
		for n in 0..=nbody
		{
			for first in space.first_choices(n, 2)
			{
				jobs.push(json!({"source": check, "n": n, "first": first}));
			}
		}
	}
	for n in 0..=(nbody + 1)
	{
		for k in 1..=n.max(1)
		{
			if k <= n
			{
				jobs.push(json!({"source": "c06", "n": n, "k": k}));
			}
		}
	}
	// declaration shapes and programs that cannot be executed
	jobs.push(json!({"source": "shapes"}));
	// module histories
	for a in 0..c02::MODULE_KINDS.len()
	{
		jobs.push(json!({"source": "modules", "first": a}));
	}
	// corpus
	let files: Vec<String> = crate::util::corpus_files().into_iter().filter(|f| !f.contains("/invalid/")).collect();
	d.bound("corpus files", json!(files.len()));
	for c in files.chunks(6)
	{
		jobs.push(json!({"source": "corpus", "files": c}));
	}
	d.phase("accepted programs: assemble and verify every module and the linked program", jobs);
	d.assume("trusted base: llvm-as-14 and opt-14 (LLVM 14.0.6) as independent judges of IR validity");
	d.assume("only programs of the bounded spaces are covered; programs the compiler rejects are not C03's subject");
}

pub fn work(spec: &Value, w: &mut WorkerCtx)
{
	if let Some(case) = spec.get("replay")
	{
		let files: Vec<(String, String)> = case["files"].as_array().unwrap().iter().map(|f| (f[0].as_str().unwrap().to_string(), f[1].as_str().unwrap().to_string())).collect();
		judge(&files, case["wasm"].as_bool().unwrap_or(false), "replay", w);
		return;
	}
	match spec["source"].as_str().unwrap()
	{
		"matrix" =>
		{
			let cells = c07::cells(spec["family"].as_str().unwrap());
			for i in spec["lo"].as_u64().unwrap() as usize..spec["hi"].as_u64().unwrap() as usize
			{
				w.result.transitions += 1;
				if cells[i].expect == Some(false)
				{
					// an ill-typed cell is C07's subject, but if it is accepted its IR must still be valid
					judge_if_accepted(&[("m.pn".into(), cells[i].text.clone())], "type matrix (ill-typed cells)", w);
					continue;
				}
				judge(&[("m.pn".into(), cells[i].text.clone())], false, "type matrix", w);
			}
		}
		"c04" =>
		{
			let n = spec["n"].as_u64().unwrap() as usize;
			let first = spec["first"].as_str().unwrap().to_string();
			let mut space = BodySpace::new(6);
			space.for_each(n, 2, &first, &mut |forest| {
				for variant in 0..3
				{
					let (text, _) = c04::render(variant, forest);
					w.result.transitions += 1;
					judge_if_accepted(&[("m.pn".into(), text)], "label bodies", w);
				}
			});
		}
		"c05" =>
		{
			let n = spec["n"].as_u64().unwrap() as usize;
			let first = spec["first"].as_str().unwrap().to_string();
			let mut space = BodySpace::new(11);
			space.for_each(n, 2, &first, &mut |forest| {
				let (text, _) = c05::render(0, forest);
				w.result.transitions += 1;
				judge_if_accepted(&[("m.pn".into(), text)], "variable bodies", w);
			});
		}
		"c06" =>
		{
			let n = spec["n"].as_u64().unwrap() as usize;
			let k = spec["k"].as_u64().unwrap() as usize;
			let mut g = c06::Gen::new();
			g.for_each(n, 3, k, 0, 1, &mut |forest| {
				let (text, _) = c06::render(forest);
				w.result.transitions += 1;
				judge_if_accepted(&[("m.pn".into(), text)], "placement bodies", w);
			});
		}
		"shapes" =>
		{
			for (files, wasm) in shapes()
			{
				w.result.transitions += 1;
				judge(&files, wasm, "declaration shapes", w);
			}
		}
		"modules" =>
		{
			let first = spec["first"].as_u64().unwrap() as usize;
			let n = c02::MODULE_KINDS.len();
			for b in 0..n
			{
				for c in 0..n
				{
					let files: Vec<(String, String)> = [first, b, c]
						.iter()
						.enumerate()
						.map(|(i, k)| {
							let fname = if i == 2 { "main".to_string() } else { format!("f{i}") };
							let mut text = c02::MODULE_KINDS[*k].1.replace("{f}", &fname);
							if fname == "main"
							{
								text = text.replace("fn main(x: i32)", "fn main()\n{\n\tinner(1);\n}\nfn inner(x: i32)");
							}
							(format!("m{i}.pn"), text)
						})
						.collect();
					w.result.transitions += 1;
					judge(&files, false, "module histories", w);
				}
			}
		}
		"corpus" =>
		{
			for f in spec["files"].as_array().unwrap()
			{
				let path = f.as_str().unwrap();
				let Ok(text) = std::fs::read_to_string(path)
				else
				{
					continue;
				};
				w.result.transitions += 1;
				// known crashes of corpus files belong to C02
				if path.ends_with("builtin_format_array.pn") || path.ends_with("autoderef_edge_cases.pn") || path.ends_with("sized_array_parameter.pn")
				{
					w.result.count("corpus files skipped (they crash the compiler: C02 findings)", 1);
					continue;
				}
				judge_if_accepted(&[(path.to_string(), text.clone())], "corpus", w);
				judge_wasm_if_accepted(&[(path.to_string(), text)], w);
			}
		}
		other => panic!("unknown source {other}"),
	}
}

/// Declaration shapes: flags x head/body x return/void x name, natively and for wasm; programs
/// without main, with undefined behaviour, and non-terminating programs.
fn shapes() -> Vec<(Vec<(String, String)>, bool)>
{
	let mut out = Vec::new();
	for wasm in [false, true]
	{
		for flags in ["", "pub ", "extern ", "pub extern "]
		{
			for ret in [false, true]
			{
				for name in ["main", "other"]
				{
					for params in ["", "a: i32", "a: i32, b: &i32, c: []u8"]
					{
						if name == "main" && !params.is_empty()
						{
							continue;
						}
						let sig = format!("{flags}fn {name}({params}){}", if ret { " -> i32" } else { "" });
						let body = if ret { "\n{\n\treturn: 1\n}\n" } else { "\n{\n}\n" };
						out.push((vec![("m.pn".to_string(), format!("{sig}{body}"))], wasm));
						if name != "main"
						{
							// head plus a caller
							let args = match params
							{
								"" => "",
								"a: i32" => "1",
								_ => "1, &x, buf",
							};
							let call = if ret { format!("\tvar r: i32 = {name}({args});\n") } else { format!("\t{name}({args});\n") };
							let caller = format!("fn main()\n{{\n\tvar x: i32 = 1;\n\tvar buf: [2]u8 = [1, 2];\n{call}}}\n");
							out.push((vec![("m.pn".to_string(), format!("{sig};\n{caller}"))], wasm));
							out.push((vec![("m.pn".to_string(), format!("{caller}{sig}{body}"))], wasm));
						}
					}
				}
			}
		}
		// a function that shares its name with a constant of the module, or with a C function
		// that the compiler declares itself for its built-ins
		for flags in ["", "pub ", "extern ", "pub extern "]
		{
			for constant_first in [true, false]
			{
				let constant = "const value: i32 = 7;\n";
				let function = format!("{flags}fn value() -> i32\n{{\n\treturn: value\n}}\n");
				let main = "fn main() -> i32\n{\n\treturn: value()\n}\n";
				let text = if constant_first { format!("{constant}{function}{main}") } else { format!("{function}{main}{constant}") };
				out.push((vec![("m.pn".to_string(), text)], wasm));
			}
			// ... and `main` itself sharing its name with a constant
			if !flags.contains("extern")
			{
				for constant_first in [true, false]
				{
					let constant = "const main: i32 = 7;\n";
					let rest = format!("fn helper() -> i32\n{{\n\treturn: main\n}}\n{flags}fn main() -> i32\n{{\n\tvar x: i32 = helper();\n\treturn: x\n}}\n");
					let text = if constant_first { format!("{constant}{rest}") } else { format!("{rest}{constant}") };
					out.push((vec![("m.pn".to_string(), text)], wasm));
				}
			}
			for (helper, signature, builtin) in [("abort", "()", "panic!(\"x\");"), ("write", "(a: i32)", "print!(\"x\");"), ("snprintf", "(a: i32)", "print!(\"x\", 1);")]
			{
				let head_only = flags.contains("extern");
				for with_body in [true, false]
				{
					if !with_body && !head_only
					{
						continue;
					}
					let function = if with_body { format!("{flags}fn {helper}{signature}\n{{\n}}\n") } else { format!("{flags}fn {helper}{signature};\n") };
					let text = format!("{function}fn main() -> i32\n{{\n\tvar x: i32 = 1;\n\tif x == 2\n\t{{\n\t\t{builtin}\n\t}}\n\treturn: 0\n}}\n");
					out.push((vec![("m.pn".to_string(), text)], wasm));
				}
			}
		}
		// structure literals: every order of the members in the literal, constant and
		// non-constant values, in constant, local and argument position
		let members = [("a", "u64", "2"), ("b", "i32", "40"), ("c", "u8", "7")];
		for (kw, name) in [("struct", "S3"), ("word128", "W3")]
		{
			let decl = format!("{kw} {name}\n{{\n\ta: u64,\n\tb: i32,\n\tc: u8,\n}}\n");
			for perm in crate::util::permutations(3)
			{
				for mode in 0..4
				{
					let fields: Vec<String> = perm
						.iter()
						.map(|i| {
							let (m, _t, v) = members[*i];
							match mode
							{
								0 => format!("{m}: {v}"),
								1 => format!("{m}: v_{m}"),
								2 => format!("{m}"),
								_ => if *i == 1 { format!("{m}: v_{m}") } else { format!("{m}: {v}") },
							}
						})
						.collect();
					let lit = format!("{name} {{ {} }}", fields.join(", "));
					let locals = "\tvar v_a: u64 = 2;\n\tvar v_b: i32 = 40;\n\tvar v_c: u8 = 7;\n\tvar a: u64 = 2;\n\tvar b: i32 = 40;\n\tvar c: u8 = 7;\n";
					out.push((vec![("m.pn".to_string(), format!("{decl}fn main() -> i32\n{{\n{locals}\tvar s: {name} = {lit};\n\treturn: s.b\n}}\n"))], wasm));
					if mode == 0
					{
						out.push((vec![("m.pn".to_string(), format!("{decl}const K: {name} = {lit};\nfn main() -> i32\n{{\n\treturn: K.b\n}}\n"))], wasm));
						out.push((vec![("m.pn".to_string(), format!("{decl}fn get(s: {name}) -> i32\n{{\n\treturn: s.b\n}}\nfn main() -> i32\n{{\n\tvar r: i32 = get({lit});\n\treturn: r\n}}\n"))], wasm));
					}
				}
			}
		}
		// cannot be executed: undefined behaviour, non-termination, no main
		for text in [
			"fn f() -> i32\n{\n\tvar z: i32 = 0;\n\tvar x: i32 = 1 / z;\n\treturn: x\n}\n",
			"fn f() -> i32\n{\n\tvar x: i32 = 1 / 0;\n\treturn: x\n}\n",
			"fn f() -> u8\n{\n\tvar x: u8 = 1 << 9;\n\treturn: x\n}\n",
			"fn main()\n{\n\t{\n\t\tloop;\n\t}\n}\n",
			"fn main() -> i32\n{\n\tvar a: [2]i32 = [1, 2];\n\tvar i: usize = 5;\n\treturn: a[i]\n}\n",
			"const K: i32 = 5;\nstruct S\n{\n\ta: i32,\n}\nword32 W\n{\n\ta: i32,\n}\n",
			"struct S;\nextern fn use_s(s: &S);\n",
		]
		{
			out.push((vec![("m.pn".to_string(), text.to_string())], wasm));
		}
	}
	out
}

thread_local! {
	static SEEN: std::cell::RefCell<std::collections::HashSet<u64>> = std::cell::RefCell::new(std::collections::HashSet::new());
}

fn judge_if_accepted(files: &[(String, String)], family: &str, w: &mut WorkerCtx)
{
	judge_inner(files, false, family, w, true);
}

fn judge_wasm_if_accepted(files: &[(String, String)], w: &mut WorkerCtx)
{
	judge_inner(files, true, "corpus (wasm)", w, true);
}

fn judge(files: &[(String, String)], wasm: bool, family: &str, w: &mut WorkerCtx)
{
	judge_inner(files, wasm, family, w, false);
}

fn run_tool(tool: &str, args: &[&str], input: &str) -> (bool, String)
{
	let child = std::process::Command::new(tool)
		.args(args)
		.stdin(std::process::Stdio::piped())
		.stdout(std::process::Stdio::null())
		.stderr(std::process::Stdio::piped())
		.spawn();
	let Ok(mut child) = child
	else
	{
		return (false, format!("cannot spawn {tool}"));
	};
	{
		let mut stdin = child.stdin.take().unwrap();
		let _ = stdin.write_all(input.as_bytes());
	}
	let out = child.wait_with_output().unwrap();
	(out.status.success(), String::from_utf8_lossy(&out.stderr).to_string())
}

fn judge_inner(files: &[(String, String)], wasm: bool, family: &str, w: &mut WorkerCtx, only_if_accepted: bool)
{
	let desc = || json!({"files": files.iter().map(|f| json!([f.0, f.1])).collect::<Vec<_>>(), "wasm": wasm, "sig_hint": family});
	let d = desc().to_string().into_bytes();
	let size: u64 = files.iter().map(|f| f.1.len() as u64).sum();
	let opts = Opts { for_wasm: wasm, generate_ir: true, link: true };
	let outcome = w.run_case(&d, || alpha::alpha_pipeline(files, opts));
	match outcome
	{
		CaseOutcome::Done(Verdict::Ok { irs, linked, .. }) =>
		{
			w.result.states += 1;
			w.result.validated += 1;
			let mut ok = true;
			let mut texts: Vec<(String, &String)> = irs.iter().enumerate().map(|(i, t)| (format!("module {}", files[i].0), t)).collect();
			if let Some(l) = &linked
			{
				texts.push(("linked program".to_string(), l));
			}
			let quick = w.tier == "quick";
			for (which, ir) in &texts
			{
				// identical IR text (e.g. the linked program of a single module, or the same body
				// reached from two sources) is judged once per worker
				let body: String = ir.lines().filter(|l| !l.starts_with("; ModuleID") && !l.starts_with("source_filename")).collect::<Vec<_>>().join("\n");
				let h = crate::driver::fnv(body.as_bytes());
				let seen = SEEN.with(|s| !s.borrow_mut().insert(h));
				if seen
				{
					w.result.count("IR texts identical to one already judged", 1);
					continue;
				}
				w.result.count("distinct IR texts judged by llvm-as", 1);
				let (ok1, err1) = run_tool("llvm-as-14", &["-o", "/dev/null", "-"], ir);
				if !ok1
				{
					ok = false;
					let msg = err1.lines().next().unwrap_or("").to_string();
					let sig: String = crate::pool::normalise_message(msg.trim_start_matches("llvm-as-14: ").trim_start_matches("<stdin>:")).chars().take(60).collect();
					w.result.violation(&format!("llvm-as-rejects:{}:{sig}", if which.starts_with("linked") { "linked" } else { "module" }), size, &desc, || {
						format!("{which} ({family}{}): llvm-as-14 rejects the emitted IR: {err1}\n{ir}", if wasm { ", wasm" } else { "" })
					});
					continue;
				}
				// LangRef: "The calling convention of the call must match the calling convention
				// of the target function, or else the behavior is undefined" - not a verifier rule
				if let Some(problem) = call_convention_mismatch(ir)
				{
					ok = false;
					w.result.violation(&format!("call-with-another-calling-convention-than-its-callee:{}", if which.starts_with("linked") { "linked" } else { "module" }), size, &desc, || format!("{which} ({family}): {problem}\n{ir}"));
				}
				if quick && h % 4 != 0
				{
					continue;
				}
				w.result.count("distinct IR texts judged by opt -passes=verify", 1);
				let (ok2, err2) = run_tool("opt-14", &["-passes=verify", "-disable-output", "-"], ir);
				if !ok2
				{
					ok = false;
					let msg = err2.lines().next().unwrap_or("").to_string();
					let sig: String = crate::pool::normalise_message(&msg).chars().take(60).collect();
					w.result.violation(&format!("opt-verify-rejects:{sig}"), size, &desc, || format!("{which}: opt-14 -passes=verify rejects the emitted IR: {err2}\n{ir}"));
				}
			}
			// linkage model
			for (i, (_, source)) in files.iter().enumerate()
			{
				let parsed = trees::alpha_parse(source);
				let Ok(tree) = parsed.tree
				else
				{
					continue;
				};
				for decl in &tree.children
				{
					if decl.kind != "Fn"
					{
						continue;
					}
					let name = decl.get("name").unwrap_or("?");
					let flags = decl.get("flags").unwrap_or("");
					let has_body = decl.children.iter().any(|c| c.kind == "Body");
					let ir = &irs[i];
					let must_be_visible = name == "main" || flags.contains("Public");
					// the LLVM name of a private function is immaterial: when the name is needed for
					// something the linker must find, LLVM's numeric suffix is acceptable
					let suffixed = |l: &str| -> bool {
						l.split(&format!("@{name}.")).skip(1).any(|rest| {
							let digits: String = rest.chars().take_while(|c| c.is_ascii_digit()).collect();
							!digits.is_empty() && rest[digits.len()..].starts_with('(')
						})
					};
					let def = ir.lines().find(|l| l.starts_with("define") && (l.contains(&format!("@{name}(")) || (!must_be_visible && suffixed(l))));
					let decl_line = ir.lines().find(|l| l.starts_with("declare") && l.contains(&format!("@{name}(")));
					if has_body
					{
						match def
						{
							None =>
							{
								ok = false;
								w.result.violation("function-not-defined-in-IR", size, &desc, || format!("the source defines `{name}` but the IR of its module has no `define ... @{name}(`\n{ir}"));
							}
							Some(line) =>
							{
								let hidden = line.contains(" private ") || line.contains(" internal ");
								if must_be_visible && hidden
								{
									ok = false;
									w.result.violation("public-function-not-externally-visible", size, &desc, || format!("`{name}` (flags {flags}) is defined as: {line}"));
								}
								if !must_be_visible && !hidden
								{
									// a function that is not `pub` (extern or not) is private to its
									// module: two modules may each have one of the same name
									ok = false;
									w.result.violation(&format!("private-function-externally-visible:{}", if flags.contains("External") { "extern" } else { "plain" }), size, &desc, || format!("`{name}` (flags {flags}) is not `pub`, but is defined as: {line}"));
								}
							}
						}
					}
					else if decl_line.is_none() && def.is_none()
					{
						w.result.soft("function head without declare/define in IR", || format!("{name}: {}", files[i].1.chars().take(80).collect::<String>()));
					}
				}
			}
			// observation: `declare ... @abort.1()` names nothing that exists at link or run time
			// (LLVM renames on a clash within the module)
			for (which, ir) in &texts
			{
				for line in ir.lines().filter(|l| l.starts_with("declare"))
				{
					let Some(at) = line.find('@')
					else
					{
						continue;
					};
					let symbol: String = line[at + 1..].chars().take_while(|c| *c != '(').collect();
					if symbol.starts_with("llvm.")
					{
						continue;
					}
					if let Some((base, suffix)) = symbol.rsplit_once('.')
					{
						if !base.is_empty() && !suffix.is_empty() && suffix.chars().all(|c| c.is_ascii_digit())
						{
							// valid IR, hence not C03's subject: C01 runs such programs
							w.result.soft("external symbol declared under a renamed name", || format!("{which}: `{line}` (the module uses `{base}` for something else)"));
						}
					}
				}
			}
			// target
			if wasm
			{
				for (which, ir) in &texts
				{
					if !ir.contains("target triple = \"wasm32")
					{
						w.result.soft("wasm build whose IR does not name a wasm32 target triple", || format!("{which}: {}", ir.lines().take(4).collect::<Vec<_>>().join(" | ")));
					}
				}
			}
			w.result.outcome(&format!("{family}{}:{}", if wasm { " (wasm)" } else { "" }, if ok { "valid IR" } else { "INVALID" }));
			if ok && size > 60
			{
				w.result.sample(|| json!({"family": family, "source": files[0].1.chars().take(200).collect::<String>(), "ir_lines": texts[0].1.lines().count()}));
			}
		}
		CaseOutcome::Done(v) =>
		{
			if !only_if_accepted
			{
				w.result.states += 1;
				w.result.outcome(&format!("{family}: not accepted ({})", v.codes().first().map(|c| format!("E{c}")).unwrap_or("internal".into())));
			}
			else
			{
				w.result.count("enumerated programs the compiler rejects (not C03's subject)", 1);
			}
		}
		CaseOutcome::Panicked { site, message } =>
		{
			// crashes belong to C02; recorded softly
			w.result.soft("compiler panics (C02's subject)", || format!("{site}: {message}"));
		}
		CaseOutcome::Crashed { .. } =>
		{}
	}
}

const CALLING_CONVENTIONS: [&str; 11] = ["ccc", "fastcc", "coldcc", "tailcc", "swiftcc", "swifttailcc", "webkit_jscc", "anyregcc", "preserve_mostcc", "preserve_allcc", "ghccc"];

/// The first direct call whose calling convention differs from that of the function it names
/// (as defined or declared in the same module), described; None if all agree.
pub fn call_convention_mismatch(ir: &str) -> Option<String>
{
	let convention_in = |words: &str| -> String {
		let mut it = words.split_whitespace().peekable();
		while let Some(wd) = it.next()
		{
			if CALLING_CONVENTIONS.contains(&wd)
			{
				return wd.to_string();
			}
			if wd == "cc"
			{
				if let Some(n) = it.peek()
				{
					return format!("cc {n}");
				}
			}
		}
		"ccc".to_string()
	};
	let mut functions: std::collections::HashMap<String, String> = std::collections::HashMap::new();
	for line in ir.lines()
	{
		if line.starts_with("define ") || line.starts_with("declare ")
		{
			if let Some(at) = line.find('@')
			{
				let name: String = line[at + 1..].chars().take_while(|c| *c != '(').collect();
				functions.insert(name, convention_in(&line[..at]));
			}
		}
	}
	for line in ir.lines()
	{
		let Some(pos) = line.find("call ").or_else(|| line.find("invoke "))
		else
		{
			continue;
		};
		if line.starts_with("define") || line.starts_with("declare")
		{
			continue;
		}
		let rest = &line[pos..];
		let Some(at) = rest.find('@')
		else
		{
			continue;
		};
		let name: String = rest[at + 1..].chars().take_while(|c| *c != '(' && !c.is_whitespace() && *c != ',').collect();
		// only direct calls: the callee directly precedes the argument list
		if !rest[at + 1 + name.len()..].starts_with('(')
		{
			continue;
		}
		if let Some(callee) = functions.get(&name)
		{
			let used = convention_in(&rest[..at]);
			if &used != callee
			{
				return Some(format!("`{}` calls @{name} with convention {used}, but @{name} has convention {callee}", line.trim()));
			}
		}
	}
	None
}
