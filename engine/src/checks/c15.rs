//! C15 — the second-generation front end is total and memory-safe on any bytes.
//!
//! Exhaustive spaces: byte-extended S-CHAR, S-FRAG, S-TOK (full and viable-prefix breadth-first
//! search from the empty input and from non-initial contexts), density/nesting pumps and limit
//! probes. Oracle: totality (no panic, no crash, no timeout), rejection of every input with an
//! illegal lexeme, no lexical error on inputs made of legal lexemes, resource limits reported as
//! E102/E103, acceptance of the well-formed pump programs.

use crate::checks::c14;
use crate::driver::Driver;
use crate::model::reflex::{self, RKind};
use crate::pool::{CaseOutcome, WorkerCtx};
use crate::spaces::tok;
use crate::subjects::delta::{DeltaFront, delta_front};
use serde_json::{Value, json};

pub const CONTEXTS: [&str; 14] = [
	"",
	"fn x ( ) {",
	"fn x ( ) { x =",
	"fn x ( ) { var x :",
	"fn x ( ) { if",
	"fn x ( ) { if x == x",
	"fn x ( x :",
	"struct x {",
	"const x : i32 =",
	"fn x ( ) { x (",
	"fn x ( ) { x = [",
	"fn x ( ) { x = x {",
	"fn x ( ) { return :",
	"import",
];

/// (name, prefix, unit, suffix, nested, well-formed up to this many repetitions (0 = never))
/// The finite bounds are the documented limits of E390: 127 address markers, 127 access steps and
/// 127 levels of nesting in one declaration, where every statement, expression or type inside
/// another one is a level (a statement of a function body is level 1, the value of an assignment
/// level 2, the type of a parameter level 1).
pub const PUMPS: [(&str, &str, &str, &str, bool, usize); 39] = [
	("call arguments", "fn f(){g(", "a,", ");}", false, usize::MAX),
	("call arguments literal", "fn f(){g(", "1,", ");}", false, usize::MAX),
	("array elements", "fn f(){x=[", "a,", "];}", false, usize::MAX),
	("field shorthand", "fn f(){x=S{", "a,", "};}", false, usize::MAX),
	("field initialisers", "fn f(){x=S{", "a:1,", "};}", false, usize::MAX),
	("parameters", "fn f(", "a:i32,", "){}", false, usize::MAX),
	("members", "struct S{", "a:i32,", "}", false, usize::MAX),
	("assignments", "fn f(){", "x=1;", "}", false, usize::MAX),
	("identifier assignments", "fn f(){", "x=a;", "}", false, usize::MAX),
	("labels", "fn f(){", "a:", "}", false, usize::MAX),
	("gotos", "fn f(){", "goto a;", "}", false, usize::MAX),
	("variable declarations", "fn f(){", "var a=1;", "}", false, usize::MAX),
	("call statements", "fn f(){", "g();", "}", false, usize::MAX),
	("empty blocks", "fn f(){", "{}", "}", false, usize::MAX),
	("additions", "fn f(){x=a", "+a", ";}", false, usize::MAX),
	("multiplications", "fn f(){x=a", "*a", ";}", false, usize::MAX),
	("bitwise ands", "fn f(){x=a", "&a", ";}", false, usize::MAX),
	("index steps", "fn f(){x=a", "[1]", ";}", false, 126),
	("member steps", "fn f(){x=a", ".m", ";}", false, 126),
	("casts", "fn f(){x=a", " as i32", ";}", false, usize::MAX),
	("string concatenation", "fn f(){x=\"a\"", " \"a\"", ";}", false, usize::MAX),
	("address-of", "fn f(){x=", "&", "a;}", false, 127),
	("pointer types", "fn f(a:", "&", "i32){}", false, 126),
	("arraylike types", "fn f(a:", "[]", "i32){}", false, 126),
	("declarations", "", "fn f(){}", "\n", false, usize::MAX),
	// many declarations that each nest a little: a depth counter that is not balanced within one
	// declaration (return values, blocks, parentheses, types, literals) adds up across them
	("functions with a return value", "", "fn f()->i32{return:(1)}", "\n", false, usize::MAX),
	("functions with nested blocks", "", "fn f(){{{x=[1];}}}", "\n", false, usize::MAX),
	("constants with parentheses", "", "const a:i32=((1)+(2));", "\n", false, usize::MAX),
	("structures with nested types", "", "struct S{a:&&[1][]i32,}", "\n", false, usize::MAX),
	("functions with nested parameter types and a broken body", "", "fn f(a:&[2]&i32){x=((1);}", "\n", false, 0),
	("imports", "", "import \"a\";", "\n", false, usize::MAX),
	("constants", "", "const a:i32=1;", "\n", false, usize::MAX),
	("else-if chain", "fn f(){", "if a==a{}else ", "{}}", false, 126),
	("comments", "", "//c\n", "fn f(){}", false, usize::MAX),
	("lexical errors", "fn f(){", "@", "}", false, 0),
	("parse errors", "", "fn ;", "", false, 0),
	("nested parentheses", "fn f(){x=", "(", "a;}", true, 125),
	("nested blocks", "fn f(){", "{", "}", true, 127),
	("nested array literals", "fn f(){x=", "[", ";}", true, 126),
];

fn pump_text(k: usize, r: usize) -> Vec<u8>
{
	let (_, prefix, unit, suffix, nested, _) = PUMPS[k];
	let mut s = String::with_capacity(prefix.len() + suffix.len() + 2 * unit.len() * r + 8);
	s.push_str(prefix);
	for _ in 0..r
	{
		s.push_str(unit);
	}
	if nested
	{
		let close = match unit
		{
			"(" => ")",
			"{" => "}",
			"[" => "]",
			_ => "",
		};
		if unit == "("
		{
			// prefix ( ( ( a ) ) ) ;}
			let (head, tail) = suffix.split_at(1);
			s.push_str(head);
			for _ in 0..r
			{
				s.push_str(close);
			}
			s.push_str(tail);
		}
		else
		{
			for _ in 0..r
			{
				s.push_str(close);
			}
			s.push_str(suffix);
		}
	}
	else
	{
		s.push_str(suffix);
	}
	s.into_bytes()
}

pub fn drive(d: &mut Driver)
{
	let quick = d.quick();
	let nsym = c14::SIGMA_TEXT.len() + c14::SIGMA_BYTES.len();
	let (lbytes, kfrag, ltok, bfs_depth, ctx_depth) = if quick { (3usize, 2usize, 3usize, 6usize, 4usize) } else { (4, 3, 4, 8, 6) };
	d.bound("S-CHAR byte-extended alphabet", json!(nsym));
	d.bound("S-CHAR max length", json!(lbytes));
	d.bound("S-FRAG max fragments", json!(kfrag));
	d.bound("S-TOK token kinds", json!(tok::TOKS.len()));
	d.bound("S-TOK full max length", json!(ltok));
	d.bound("S-TOK viable-prefix depth from empty input", json!(bfs_depth));
	d.bound("S-TOK viable-prefix extra depth from each of the non-initial contexts", json!(ctx_depth));
	d.bound("non-initial contexts", json!(CONTEXTS[1..]));

	let mut jobs = Vec::new();
	for len in 0..=lbytes
	{
		push_prefix_jobs(&mut jobs, "bytes", nsym, len);
	}
	let nfrag = c14::fragments().len();
	for len in 1..=kfrag
	{
		push_prefix_jobs(&mut jobs, "frag", nfrag, len);
	}
	d.phase("S-CHAR bytes + S-FRAG", jobs);

	let nforms = c14::numeric_forms().len();
	d.bound("numeric boundary forms x suffixes x followers x 2 contexts", json!([nforms, c14::NUMERIC_SUFFIXES.len(), c14::NUMERIC_FOLLOWERS.len()]));
	let jobs: Vec<Value> = (0..nforms).step_by(8).map(|lo| json!({"space": "numeric", "lo": lo, "hi": (lo + 8).min(nforms)})).collect();
	d.phase("numeric boundary forms", jobs);
	// every sequence of declarations (kinds x visibility, C17's space): header extraction and the
	// header dump are only reached by well-formed modules with several declarations
	let ndecl = crate::checks::c17::KINDS.len() * crate::checks::c17::FLAGS.len();
	let dlen = if quick { 3 } else { 4 };
	d.bound("declaration sequences (9 kinds x 3 visibilities): max declarations", json!(dlen));
	let mut jobs = Vec::new();
	jobs.push(json!({"space": "decls", "len": 0, "prefix": []}));
	jobs.push(json!({"space": "decls", "len": 1, "prefix": []}));
	for len in 2..=dlen
	{
		for a in 0..ndecl
		{
			jobs.push(json!({"space": "decls", "len": len, "prefix": [a]}));
		}
	}
	d.phase("declaration sequences through lexer, parser, header extraction and all dumps", jobs);
	let nq = c14::quoted_forms().len();
	d.bound("closed quoted literals around every escape form, as a file and as a constant", json!(nq));
	let jobs: Vec<Value> = (0..nq).step_by(64).map(|lo| json!({"space": "quoted", "lo": lo, "hi": (lo + 64).min(nq)})).collect();
	d.phase("quoted literals around every escape form", jobs);

	let mut jobs = Vec::new();
	for len in 0..=ltok
	{
		push_prefix_jobs(&mut jobs, "tok", tok::TOKS.len(), len);
	}
	d.phase("S-TOK full", jobs);

	// Viable-prefix breadth-first search.
	for (ci, ctx) in CONTEXTS.iter().enumerate()
	{
		let base = tok::parse_context(ctx);
		let max_extra = if ci == 0 { bfs_depth } else { ctx_depth };
		let mut frontier: Vec<String> = vec![format!("{}:0", tok::encode(&base))];
		for depth in 1..=max_extra
		{
			if frontier.is_empty()
			{
				break;
			}
			if d.time_left() < 5.0
			{
				d.cap_hit(&format!("time budget reached in viable-prefix search, context '{ctx}', before depth {depth}"));
				break;
			}
			let jobs: Vec<Value> = frontier.chunks(64.max(frontier.len() / 256)).map(|c| json!({"space": "tokbfs", "items": c})).collect();
			let r = d.phase(&format!("viable-prefix ctx='{ctx}' depth {depth}"), jobs);
			frontier = r.frontier;
			frontier.sort();
			frontier.dedup();
		}
	}

	// Pumps.
	let reps: Vec<usize> = if quick { vec![1, 2, 3, 4, 8, 64, 124, 125, 126, 127, 128, 1024] } else { vec![1, 2, 3, 4, 5, 8, 16, 64, 124, 125, 126, 127, 128, 129, 256, 1024, 8192, 40000] };
	d.bound("pump units", json!(PUMPS.iter().map(|p| p.0).collect::<Vec<_>>()));
	d.bound("pump repetitions", json!(reps));
	let mut jobs = Vec::new();
	for k in 0..PUMPS.len()
	{
		for r in &reps
		{
			jobs.push(json!({"space": "pump", "k": k, "r": r}));
		}
	}
	d.phase("density and nesting pumps", jobs);

	// Limit probes.
	let mut jobs = Vec::new();
	let mut probes = vec!["dense-131071", "dense-131072", "dense-131073", "dense-200000", "sparse-200000", "errors-150", "parse-errors-150", "payloads-70000", "labels-70000"];
	if !quick
	{
		probes.extend(["tokens-2^24+1", "payloads-2^24+1", "bytes-2^31+1"]);
	}
	for p in &probes
	{
		jobs.push(json!({"space": "limit", "probe": p}));
	}
	d.bound("limit probes", json!(probes));
	d.phase("limit probes", jobs);

	d.assume("totality is decided per case with a 20 s watchdog; a hang shorter than that is not distinguished from slow progress");
	d.assume("memory safety is observed through debug assertions, bounds checks and overflow checks of the checked build (opt-level 1); reads of uninitialised but in-bounds memory are only caught by the separate sanitizer side pass (tools/asan_side_pass.sh), which is a detector, not part of the exhaustive verdict");
	d.assume("XML dumps are only produced for valid UTF-8 inputs without diagnostics, as in src/main.rs");
}

fn push_prefix_jobs(jobs: &mut Vec<Value>, space: &str, n: usize, len: usize)
{
	if len <= 2
	{
		jobs.push(json!({"space": space, "n": n, "len": len, "prefix": []}));
	}
	else
	{
		let two = (n as u64).pow(len as u32) > 1_000_000;
		for a in 0..n
		{
			if two
			{
				for b in 0..n
				{
					jobs.push(json!({"space": space, "n": n, "len": len, "prefix": [a, b]}));
				}
			}
			else
			{
				jobs.push(json!({"space": space, "n": n, "len": len, "prefix": [a]}));
			}
		}
	}
}

pub fn work(spec: &Value, w: &mut WorkerCtx)
{
	if let Some(case) = spec.get("replay")
	{
		let bytes = case_bytes(case);
		judge(&bytes, || case.clone(), w, None);
		return;
	}
	let space = spec["space"].as_str().unwrap();
	match space
	{
		"bytes" | "frag" | "tok" =>
		{
			let n = spec["n"].as_u64().unwrap() as usize;
			let len = spec["len"].as_u64().unwrap() as usize;
			let prefix: Vec<usize> = spec["prefix"].as_array().unwrap().iter().map(|x| x.as_u64().unwrap() as usize).collect();
			let frags;
			let symbols: Vec<&[u8]> = match space
			{
				"bytes" => c14::SIGMA_TEXT.iter().map(|s| s.as_bytes()).chain(c14::SIGMA_BYTES.iter().copied()).collect(),
				"frag" =>
				{
					frags = c14::fragments();
					frags.iter().map(|f| f.as_slice()).collect()
				}
				_ => tok::TOKS.iter().map(|t| t.1.as_bytes()).collect(),
			};
			assert_eq!(symbols.len(), n);
			let sep: &[u8] = if space == "tok" { b" " } else { b"" };
			let mut idx = vec![0usize; len];
			for (k, p) in prefix.iter().enumerate()
			{
				idx[k] = *p;
			}
			let fixed = prefix.len();
			let mut buf: Vec<u8> = Vec::new();
			loop
			{
				buf.clear();
				for (k, i) in idx.iter().enumerate()
				{
					if k > 0
					{
						buf.extend_from_slice(sep);
					}
					buf.extend_from_slice(symbols[*i]);
				}
				w.result.transitions += if len > 0 { 1 } else { 0 };
				let b = &buf;
				judge(b, || json!({"text": String::from_utf8_lossy(b), "bytes": b}), w, None);
				let mut k = len;
				loop
				{
					if k == fixed
					{
						return;
					}
					k -= 1;
					idx[k] += 1;
					if idx[k] < n
					{
						break;
					}
					idx[k] = 0;
				}
			}
		}
		"decls" =>
		{
			use crate::checks::c17;
			use crate::model::grammar::{self, Layout};
			let n = c17::KINDS.len() * c17::FLAGS.len();
			let len = spec["len"].as_u64().unwrap() as usize;
			let prefix: Vec<usize> = spec["prefix"].as_array().unwrap().iter().map(|x| x.as_u64().unwrap() as usize).collect();
			let mut idx = vec![0usize; len];
			for (k, p) in prefix.iter().enumerate()
			{
				idx[k] = *p;
			}
			let fixed = prefix.len();
			loop
			{
				let module: Vec<grammar::Decl> = idx.iter().enumerate().map(|(i, s)| c17::make_decl(*s, i)).collect();
				let text = if module.is_empty() { "\n".to_string() } else { grammar::render_module(&module, Layout::OneLine) };
				w.result.transitions += 1;
				let t = text.as_bytes();
				judge(t, || json!({"text": text, "sig_hint": "declaration sequence"}), w, Some(true));
				let mut k = len;
				loop
				{
					if k == fixed
					{
						return;
					}
					k -= 1;
					idx[k] += 1;
					if idx[k] < n
					{
						break;
					}
					idx[k] = 0;
				}
			}
		}
		"quoted" =>
		{
			let forms = c14::quoted_forms();
			for i in spec["lo"].as_u64().unwrap() as usize..spec["hi"].as_u64().unwrap() as usize
			{
				for (pre, post) in [("", ""), ("const K: []u8 = ", ";")]
				{
					let text = format!("{pre}{}{post}", forms[i]);
					w.result.transitions += 1;
					let t = text.as_bytes();
					judge(t, || json!({"text": text}), w, None);
				}
			}
		}
		"numeric" =>
		{
			let forms = c14::numeric_forms();
			for i in spec["lo"].as_u64().unwrap() as usize..spec["hi"].as_u64().unwrap() as usize
			{
				for suffix in c14::NUMERIC_SUFFIXES
				{
					for follower in c14::NUMERIC_FOLLOWERS
					{
						for (pre, post) in [("", ""), ("const K: u128 = ", ";")]
						{
							let text = format!("{pre}{}{}{}{post}", forms[i], suffix, follower);
							w.result.transitions += 1;
							let t = text.as_bytes();
							judge(t, || json!({"text": text}), w, None);
						}
					}
				}
			}
		}
		"tokbfs" =>
		{
			for item in spec["items"].as_array().unwrap()
			{
				let item = item.as_str().unwrap();
				let (hex, tail) = item.split_once(':').unwrap();
				let base = tok::decode(hex);
				let skipped_tail: usize = tail.parse().unwrap();
				for t in 0..tok::TOKS.len()
				{
					let mut seq = base.clone();
					seq.push(t as u8);
					let text = tok::render(&seq).into_bytes();
					w.result.transitions += 1;
					let front = judge(&text, || json!({"text": String::from_utf8_lossy(&text), "tokens": tok::encode(&seq)}), w, None);
					let Some(front) = front
					else
					{
						continue;
					};
					// Expandable: only "unexpected end of file" so far, or accepted.
					if !front.lex_error_codes.is_empty()
					{
						continue;
					}
					if front.parse_error_codes.is_empty()
					{
						// Accepted: tokens after a complete declaration are skipped up to the next
						// declaration-starting token; keep skipped tails of length <= 2 only.
						let new_tail = if tok::TOKS[t].2 || front.num_declarations == 0 && base.is_empty() { 0 } else { skipped_tail + 1 };
						let new_tail = if tok::TOKS[t].2 { 0 } else { new_tail };
						if new_tail <= 2
						{
							w.result.frontier.push(format!("{}:{}", tok::encode(&seq), new_tail));
						}
					}
					else if front.parse_error_codes.iter().all(|c| *c == 100)
					{
						w.result.frontier.push(format!("{}:0", tok::encode(&seq)));
					}
				}
			}
		}
		"pump" =>
		{
			let k = spec["k"].as_u64().unwrap() as usize;
			let r = spec["r"].as_u64().unwrap() as usize;
			let text = pump_text(k, r);
			let wellformed = r <= PUMPS[k].5;
			w.result.transitions += 1;
			let name = PUMPS[k].0;
			let front = judge(&text, || json!({"pump": name, "k": k, "r": r, "size": r, "sig_hint": format!("pump={name}"), "text_prefix": String::from_utf8_lossy(&text[..text.len().min(80)])}), w, Some(wellformed));
			if let Some(front) = front
			{
				if front.accepted() && front.num_tokens > 0
				{
					let ratio = (front.num_nodes as u64 * 100) / (front.num_tokens as u64);
					w.result.max_counter(&format!("max_nodes_per_100_tokens[{name}]"), ratio);
				}
			}
		}
		"limit" =>
		{
			let probe = spec["probe"].as_str().unwrap();
			limit_probe(probe, w);
		}
		_ => panic!("unknown space {space}"),
	}
}

pub fn case_bytes(case: &Value) -> Vec<u8>
{
	if let Some(k) = case.get("pump").and_then(|_| case["k"].as_u64())
	{
		return pump_text(k as usize, case["r"].as_u64().unwrap() as usize);
	}
	if let Some(p) = case.get("probe").and_then(|p| p.as_str())
	{
		return probe_text(p);
	}
	if let Some(a) = case["bytes"].as_array()
	{
		return a.iter().map(|x| x.as_u64().unwrap() as u8).collect();
	}
	case["text"].as_str().unwrap_or("").as_bytes().to_vec()
}

fn probe_text(probe: &str) -> Vec<u8>
{
	let fill = |unit: &str, total: usize| -> Vec<u8> {
		let mut s = Vec::with_capacity(total + unit.len());
		while s.len() + unit.len() <= total
		{
			s.extend_from_slice(unit.as_bytes());
		}
		while s.len() < total
		{
			s.push(b' ');
		}
		s
	};
	match probe
	{
		"dense-131071" => fill(";", 131071),
		"dense-131072" => fill(";", 131072),
		"dense-131073" => fill(";", 131073),
		"dense-200000" => fill(";", 200000),
		"sparse-200000" => fill("x=1;      ", 200000),
		"errors-150" => fill("@ ", 300),
		"parse-errors-150" => fill("fn ; ", 750),
		"payloads-70000" => fill("1 ", 140000),
		"labels-70000" =>
		{
			let mut s = b"fn f(){".to_vec();
			s.extend(fill("a:", 140000));
			s.push(b'}');
			s
		}
		"tokens-2^24+1" => fill("; ", 2 * ((1 << 24) + 1)),
		"payloads-2^24+1" => fill("1      ", 7 * ((1 << 24) + 1)),
		"bytes-2^31+1" => vec![b' '; (1usize << 31) + 1],
		_ => panic!("unknown probe"),
	}
}

fn limit_probe(probe: &str, w: &mut WorkerCtx)
{
	let text = probe_text(probe);
	w.result.transitions += 1;
	// Model of the resource arithmetic documented in E102/E103: more than 2 GiB of source is
	// E102; more tokens than the lexer's budget is E103; more than 100 errors are truncated.
	let front = judge(&text, || json!({"probe": probe}), w, None);
	let Some(front) = front
	else
	{
		return;
	};
	let expect: Option<Vec<u16>> = match probe
	{
		"bytes-2^31+1" => Some(vec![102]),
		"dense-131073" | "dense-200000" | "tokens-2^24+1" | "payloads-2^24+1" | "labels-70000" => Some(vec![103]),
		"sparse-200000" => None,
		_ => None,
	};
	if let Some(expect) = expect
	{
		if front.codes() != expect
		{
			let codes = front.codes();
			w.result.violation(
				&format!("limit:{probe}:expected={expect:?}"),
				text.len() as u64,
				|| json!({"probe": probe}),
				|| format!("limit probe {probe}: expected exactly {expect:?}, observed {:?}", &codes[..codes.len().min(10)]),
			);
		}
	}
	if probe == "errors-150" && (front.lex_error_codes.is_empty() || front.lex_error_codes.len() > 150)
	{
		w.result.violation("limit:errors-150", 300, || json!({"probe": probe}), || format!("{} lexical errors reported", front.lex_error_codes.len()));
	}
	if probe == "parse-errors-150" && (front.parse_error_codes.is_empty() || front.parse_error_codes.len() > 150)
	{
		w.result.violation("limit:parse-errors-150", 750, || json!({"probe": probe}), || format!("{} parse errors reported", front.parse_error_codes.len()));
	}
	w.result.count(&format!("limit[{probe}] codes={:?}", { let mut c = front.codes(); c.dedup(); c.truncate(3); c }), 1);
}

/// Judge one input. `wellformed`: Some(true) when the model grammar says the module is well
/// formed (must be accepted, unless a resource limit applies), Some(false) when it is not,
/// None when unknown.
pub fn judge(src: &[u8], desc: impl Fn() -> Value, w: &mut WorkerCtx, wellformed: Option<bool>) -> Option<DeltaFront>
{
	w.result.states += 1;
	let size = src.len() as u64;
	let d = desc().to_string().into_bytes();
	let outcome = w.run_case(&d, || delta_front(src, src.len() < 100_000));
	match outcome
	{
		CaseOutcome::Done(front) =>
		{
			w.result.validated += 1;
			let mut conform = true;
			if src.len() < 20_000
			{
				let refs = reflex::lex(src);
				let illegal = refs.iter().find(|t| matches!(t.kind, RKind::Err { .. }));
				match illegal
				{
					Some(t) =>
					{
						if front.accepted()
						{
							conform = false;
							let shape = format!("{:?}", t.kind);
							w.result.violation(
								&format!("accepted-illegal-lexeme:{}", shape.chars().filter(|c| c.is_alphanumeric()).take(24).collect::<String>()),
								size,
								&desc,
								|| format!("the reference lexer finds the illegal lexeme {:?} but the front end reports no diagnostic", t),
							);
						}
					}
					None =>
					{
						let budget = std::cmp::max(src.len() / 2, 1 << 16);
						let within_budget = refs.len() + 2 <= budget;
						if !front.lex_error_codes.is_empty() && within_budget
						{
							conform = false;
							w.result.violation(
								&format!("lexical-error-on-legal-lexemes:E{}", front.lex_error_codes.first().copied().unwrap_or(0)),
								size,
								&desc,
								|| format!("all lexemes are legal according to the reference lexer, but lexical errors {:?} are reported", front.lex_error_codes),
							);
						}
						if wellformed == Some(true) && within_budget && !front.accepted()
						{
							conform = false;
							w.result.violation(
								&format!("wellformed-rejected:E{}", front.codes()[0]),
								size,
								&desc,
								|| format!("well-formed module rejected with {:?}", front.codes()),
							);
						}
						if wellformed == Some(false) && front.accepted()
						{
							w.result.soft("ill-formed pump accepted", || String::from_utf8_lossy(&src[..src.len().min(60)]).to_string());
						}
					}
				}
			}
			let key = if front.accepted()
			{
				format!("accepted:{}decl", front.num_declarations.min(3))
			}
			else if !front.lex_error_codes.is_empty()
			{
				format!("rejected:lexical:E{}", front.lex_error_codes.first().copied().unwrap_or(0))
			}
			else
			{
				format!("rejected:syntax:E{}", front.parse_error_codes.first().copied().unwrap_or(0))
			};
			w.result.outcome(&if conform { key } else { format!("{key}:NONCONFORMING") });
			if front.accepted() && front.num_declarations > 0
			{
				w.result.sample(|| json!({"input": String::from_utf8_lossy(&src[..src.len().min(120)]), "tokens": front.num_tokens, "nodes": front.num_nodes, "declarations": front.num_declarations}));
			}
			Some(front)
		}
		CaseOutcome::Panicked { site, message } =>
		{
			w.result.outcome("panicked");
			let sig = format!("panic@{}", crate::util::site_signature(&site, &message));
			w.result.violation(&sig, size, &desc, || format!("panic at {site}: {message}"));
			None
		}
		CaseOutcome::Crashed { .. } => None,
	}
}
