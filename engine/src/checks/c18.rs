//! C18 — the command line tool reports outcomes faithfully.
//!
//! The real `penne` binary (built from /repo's working tree with the alpha features, hooks off)
//! is run on the product of subcommand x input class x path form x verbosity x colour x arrows
//! x out-dir x wasm, and on the backend table flag x environment x config x answer of the
//! backend with recording stub backends. A reference model of the command line (below) predicts
//! the exit status, which files appear where, what the backend receives, and what must (not)
//! appear on the terminal; the IR files are compared with the library API's own result.

use crate::driver::Driver;
use crate::pool::{CaseOutcome, WorkerCtx};
use crate::subjects::alpha::{self, Verdict};
use serde_json::{Value, json};
use std::path::{Path, PathBuf};

fn cli() -> String
{
	std::env::var("PVMC_PENNE_CLI").unwrap_or_else(|_| "/verif/target/cli/debug/penne".to_string())
}

// ---------------------------------------------------------------------------------------------
// Inputs

pub struct InputClass
{
	pub name: &'static str,
	/// (file name, text); the first one is given first on the command line
	pub files: Vec<(&'static str, &'static str)>,
	/// a file given on the command line that does not exist
	pub missing: bool,
	/// what the compiled program prints and returns
	pub program: Option<(&'static str, i32)>,
	/// the library API cannot be asked (LLVM ends the process): the compilation must fail with a report
	pub link_conflict: bool,
}

const OK: &str = "fn main() -> u8\n{\n\tprint!(\"hi\\n\");\n\treturn: 7\n}\n";
const MAIN2: &str = "import \"lib.pn\";\n\nfn main() -> u8\n{\n\tprint!(\"two \", lib_value(), \"\\n\");\n\treturn: lib_value()\n}\n";
const LIB: &str = "pub fn lib_value() -> u8\n{\n\treturn: 3\n}\n";
const LEXERR: &str = "fn main() -> u8\n{\n\tvar x: u8 = 1 $ 2;\n\treturn: x\n}\n";
const TYPEERR: &str = "fn main() -> u8\n{\n\tvar flag: bool = true;\n\tvar x: u8 = flag;\n\tvar y: u8 = missing;\n\treturn: x\n}\n";
const BADLIB: &str = "pub fn lib_value() -> u8\n{\n\tvar flag: bool = true;\n\treturn: flag\n}\n";
const LINT: &str = "fn main() -> u8\n{\n\tvar x: u8 = 300;\n\treturn: x\n}\n";
const PUBVALUE: &str = "pub fn value() -> u8\n{\n\treturn: 1\n}\n";
const PUBEXTVALUE: &str = "pub extern fn value() -> u8\n{\n\treturn: 2\n}\n";
const MAINPUBVALUE: &str = "pub fn value() -> u8\n{\n\treturn: 3\n}\nfn main() -> u8\n{\n\treturn: value()\n}\n";
const MAINPUBEXTVALUE: &str = "pub extern fn value() -> u8\n{\n\treturn: 4\n}\nfn main() -> u8\n{\n\treturn: value()\n}\n";
// two modules joined by the linker instead of an import: a public head in one, the definition in the other,
// and the same public head of a C function in both
const HEADMAIN: &str = "pub extern fn abs(x: i32) -> i32;\npub extern fn helper(x: i32) -> i32;\n\nfn main() -> u8\n{\n\tvar r: i32 = abs(-3);\n\tvar h: i32 = helper(r);\n\tprint!(\"linked \", h, \"\\n\");\n\treturn: h as u8\n}\n";
const HEADHELPER: &str = "pub extern fn abs(x: i32) -> i32;\n\npub extern fn helper(x: i32) -> i32\n{\n\tvar r: i32 = abs(x - 10);\n\treturn: r\n}\n";
// the imported module two directories below the importer
const MAINDEEP: &str = "import \"lib/deep/lib.pn\";\n\nfn main() -> u8\n{\n\tprint!(\"two \", lib_value(), \"\\n\");\n\treturn: lib_value()\n}\n";
const UNRESOLVED: &str = "import \"vendor:nothing/here.pn\";\nimport \"core:text\";\n\nfn main() -> u8\n{\n\treturn: 1\n}\n";

pub fn inputs() -> Vec<InputClass>
{
	vec![
		InputClass { name: "valid, one file", files: vec![("ok.pn", OK)], missing: false, link_conflict: false, program: Some(("hi\n", 7)) },
		InputClass { name: "valid, two files with an import", files: vec![("main.pn", MAIN2), ("lib.pn", LIB)], missing: false, link_conflict: false, program: Some(("two 3\n", 3)) },
		InputClass { name: "valid, library first", files: vec![("lib.pn", LIB), ("main.pn", MAIN2)], missing: false, link_conflict: false, program: Some(("two 3\n", 3)) },
		InputClass { name: "valid, two files joined by public heads", files: vec![("headmain.pn", HEADMAIN), ("headhelper.pn", HEADHELPER)], missing: false, link_conflict: false, program: Some(("linked 7\n", 7)) },
		InputClass { name: "valid, two files joined by public heads, definition first", files: vec![("headhelper.pn", HEADHELPER), ("headmain.pn", HEADMAIN)], missing: false, link_conflict: false, program: Some(("linked 7\n", 7)) },
		InputClass { name: "valid, the second file two directories below the first", files: vec![("top.pn", MAINDEEP), ("lib/deep/lib.pn", LIB)], missing: false, link_conflict: false, program: Some(("two 3\n", 3)) },
		InputClass { name: "valid, the first file two directories below the second", files: vec![("lib/deep/lib.pn", LIB), ("top.pn", MAINDEEP)], missing: false, link_conflict: false, program: Some(("two 3\n", 3)) },
		InputClass { name: "valid with a lint", files: vec![("lint.pn", LINT)], missing: false, link_conflict: false, program: Some(("", 44)) },
		InputClass { name: "lexical error", files: vec![("lex.pn", LEXERR)], missing: false, link_conflict: false, program: None },
		InputClass { name: "type errors", files: vec![("type.pn", TYPEERR)], missing: false, link_conflict: false, program: None },
		InputClass { name: "error in the second file", files: vec![("main.pn", MAIN2), ("lib.pn", BADLIB)], missing: false, link_conflict: false, program: None },
		InputClass { name: "unresolved imports", files: vec![("unresolved.pn", UNRESOLVED)], missing: false, link_conflict: false, program: None },
		InputClass { name: "empty file", files: vec![("empty.pn", "")], missing: false, link_conflict: false, program: None },
		InputClass { name: "two files that both define main", files: vec![("ok.pn", OK), ("other.pn", LINT)], missing: false, link_conflict: true, program: None },
		InputClass { name: "two files that both define a pub function", files: vec![("mainv.pn", MAINPUBVALUE), ("value.pn", PUBVALUE)], missing: false, link_conflict: true, program: None },
		InputClass { name: "two files that both define a pub extern function", files: vec![("mainxv.pn", MAINPUBEXTVALUE), ("xvalue.pn", PUBEXTVALUE)], missing: false, link_conflict: true, program: None },
		InputClass { name: "a pub function and a pub extern function of the same name", files: vec![("mainv.pn", MAINPUBVALUE), ("xvalue.pn", PUBEXTVALUE)], missing: false, link_conflict: true, program: None },
		InputClass { name: "a pub extern function and a pub function of the same name", files: vec![("mainxv.pn", MAINPUBEXTVALUE), ("value.pn", PUBVALUE)], missing: false, link_conflict: true, program: None },
		InputClass { name: "missing file", files: vec![("ok.pn", OK), ("nowhere.pn", "")], missing: true, link_conflict: false, program: None },
	]
}

pub const PATH_FORMS: [&str; 5] = ["relative", "./relative", "absolute", "in a sub-directory", "through the parent directory"];
pub const SUBCOMMANDS: [&str; 4] = ["(default)", "build", "run", "emit"];
pub const VERBOSITY: [&str; 3] = ["", "--silent", "--verbose"];

#[derive(Debug, Clone)]
pub struct Case
{
	pub sub: usize,
	pub input: usize,
	pub path_form: usize,
	pub verbosity: usize,
	pub colour_always: bool,
	pub arrows_unicode: bool,
	pub out_dir: bool,
	pub wasm: bool,
	// backend table
	pub flag_backend: bool,
	pub env_backend: bool,
	pub config_backend: bool,
	/// 0: exit 0, 1: exit 1, 2: exit 3, 3: killed by SIGSEGV, 4: not executable
	pub answer: usize,
	pub backend_args: bool,
	pub real_backend: bool,
	/// build only: `-o custom.bin`
	pub output_flag: bool,
	/// build only, with a config file: the config file says `wasm = true`
	pub config_wasm: bool,
}

impl Case
{
	fn to_json(&self) -> Value
	{
		json!({"sub": self.sub, "input": self.input, "path_form": self.path_form, "verbosity": self.verbosity, "colour_always": self.colour_always, "arrows_unicode": self.arrows_unicode,
			"out_dir": self.out_dir, "wasm": self.wasm, "flag_backend": self.flag_backend, "env_backend": self.env_backend, "config_backend": self.config_backend, "answer": self.answer,
			"backend_args": self.backend_args, "real_backend": self.real_backend, "output_flag": self.output_flag, "config_wasm": self.config_wasm})
	}

	fn from_json(v: &Value) -> Case
	{
		let b = |k: &str| v[k].as_bool().unwrap_or(false);
		let u = |k: &str| v[k].as_u64().unwrap_or(0) as usize;
		Case {
			sub: u("sub"),
			input: u("input"),
			path_form: u("path_form"),
			verbosity: u("verbosity"),
			colour_always: b("colour_always"),
			arrows_unicode: b("arrows_unicode"),
			out_dir: b("out_dir"),
			wasm: b("wasm"),
			flag_backend: b("flag_backend"),
			env_backend: b("env_backend"),
			config_backend: b("config_backend"),
			answer: u("answer"),
			backend_args: b("backend_args"),
			real_backend: b("real_backend"),
			output_flag: b("output_flag"),
			config_wasm: b("config_wasm"),
		}
	}

	fn describe(&self) -> String
	{
		let ins = inputs();
		format!(
			"penne {} [{}] paths {} {} --color={} --arrows={}{}{}{}{}{} backend answer {}{}",
			SUBCOMMANDS[self.sub],
			ins[self.input].name,
			PATH_FORMS[self.path_form],
			VERBOSITY[self.verbosity],
			if self.colour_always { "always" } else { "never" },
			if self.arrows_unicode { "unicode" } else { "ascii" },
			if self.out_dir { " --out-dir D" } else { "" },
			if self.wasm { " --wasm" } else { "" },
			if self.flag_backend { " --backend A" } else { "" },
			if self.env_backend { " env=B" } else { "" },
			if self.config_backend { " --config(backend=C)" } else { "" },
			["exit 0", "exit 1", "exit 3", "SIGSEGV", "not executable"][self.answer],
			if self.real_backend { " (real lli/clang)" } else { "" },
		) + if self.output_flag { " -o custom.bin" } else { "" } + if self.config_wasm { " config: wasm = true" } else { "" }
	}
}

// ---------------------------------------------------------------------------------------------
// Drive

pub fn drive(d: &mut Driver)
{
	let quick = d.quick();
	let ins = inputs();
	d.bound("subcommands", json!(SUBCOMMANDS));
	d.bound("input classes", json!(ins.iter().map(|i| i.name).collect::<Vec<_>>()));
	d.bound("path forms", json!(if quick { vec![PATH_FORMS[0], PATH_FORMS[2], PATH_FORMS[3], PATH_FORMS[4]] } else { PATH_FORMS.to_vec() }));
	d.bound("options", json!({"verbosity": VERBOSITY, "--color": ["never", "always"], "--arrows": ["ascii", "unicode"], "--out-dir": ["absent", "D"], "--wasm": ["off", "on (build, emit)"]}));
	let mut cases: Vec<Case> = Vec::new();
	let forms: Vec<usize> = if quick { vec![0, 2, 3, 4] } else { vec![0, 1, 2, 3, 4] };
	for sub in 0..4
	{
		for input in 0..ins.len()
		{
			for &path_form in &forms
			{
				for verbosity in 0..3
				{
					for colour_always in [false, true]
					{
						for arrows_unicode in [false, true]
						{
							for out_dir in [false, true]
							{
								for wasm in [false, true]
								{
									if wasm && sub == 2
									{
										continue;
									}
									cases.push(Case { sub, input, path_form, verbosity, colour_always, arrows_unicode, out_dir, wasm, flag_backend: false, env_backend: true, config_backend: false, answer: 0, backend_args: false, real_backend: false, output_flag: false, config_wasm: false });
								}
							}
						}
					}
				}
			}
		}
	}
	let product = cases.len();
	// backend table: flag x env x config x answer x subcommand {build, run} x backend arguments
	let mut table = 0;
	for sub in [0usize, 1, 2]
	{
		for flag_backend in [false, true]
		{
			for env_backend in [false, true]
			{
				for config_backend in [false, true]
				{
					if config_backend && sub == 2
					{
						continue;
					}
					for answer in 0..5
					{
						// a default backend that is not executable is simply not the first `lli` / `clang` on PATH
						if answer == 4 && !flag_backend && !env_backend && !(config_backend && sub != 2)
						{
							continue;
						}
						for backend_args in [false, true]
						{
							for input in [0usize, 1]
							{
								cases.push(Case { sub, input, path_form: 0, verbosity: 0, colour_always: false, arrows_unicode: false, out_dir: input == 1, wasm: false, flag_backend, env_backend, config_backend, answer, backend_args, real_backend: false, output_flag: false, config_wasm: false });
								table += 1;
							}
						}
					}
				}
			}
		}
	}
	// build: -o and `wasm = true` in the config file
	for sub in [0usize, 1]
	{
		for output_flag in [false, true]
		{
			for config_wasm in [false, true]
			{
				for out_dir in [false, true]
				{
					for wasm in [false, true]
					{
						cases.push(Case { sub, input: 0, path_form: 0, verbosity: 0, colour_always: false, arrows_unicode: false, out_dir, wasm, flag_backend: false, env_backend: true, config_backend: config_wasm, answer: 0, backend_args: false, real_backend: false, output_flag, config_wasm });
						table += 1;
					}
				}
			}
		}
	}
	// end to end with the real lli and clang
	let mut real = 0;
	for sub in [1usize, 2]
	{
		for input in 0..ins.len()
		{
			for verbosity in 0..3
			{
				for out_dir in [false, true]
				{
					cases.push(Case { sub, input, path_form: 0, verbosity, colour_always: false, arrows_unicode: false, out_dir, wasm: false, flag_backend: false, env_backend: false, config_backend: false, answer: 0, backend_args: false, real_backend: true, output_flag: false, config_wasm: false });
					real += 1;
				}
			}
		}
	}
	d.bound("process runs", json!({"option product": product, "backend table": table, "end to end with the real lli-14 / clang-14": real}));
	let jobs: Vec<Value> = cases.chunks(12).map(|c| json!({"cases": c.iter().map(|x| x.to_json()).collect::<Vec<_>>()})).collect();
	d.phase("command line runs against the reference model", jobs);
	d.assume("the binary is built from /repo's working tree with `--features alpha,llvm-sys` and without the verification cfg; the library API (same tree, hooks compiled in but inactive) provides the expected diagnostics and IR");
	d.assume("stub backends record their name, arguments and standard input and answer as instructed; the default backends `lli` and `clang` are stubs placed first on PATH, except in the end-to-end block which uses lli-14 and clang-14");
	d.assume("model: exit status 0 <=> compilation succeeded and (no backend ran, or build: the backend exited 0, or run: the backend exited with any status); backend = flag, else PENNE_BACKEND / PENNE_LLI, else the config file (build only), else the default");
}

// ---------------------------------------------------------------------------------------------
// Work

pub fn work(spec: &Value, w: &mut WorkerCtx)
{
	if let Some(case) = spec.get("replay")
	{
		judge(&Case::from_json(&case["case"]), w);
		return;
	}
	for c in spec["cases"].as_array().unwrap()
	{
		w.result.transitions += 1;
		judge(&Case::from_json(c), w);
	}
}

struct Run
{
	status: Option<i32>,
	signal: Option<i32>,
	stdout: String,
	stderr: String,
	new_files: Vec<PathBuf>,
	stub_log: Vec<(String, Vec<String>, String)>,
}

fn list_files(dir: &Path, out: &mut Vec<PathBuf>)
{
	if let Ok(rd) = std::fs::read_dir(dir)
	{
		for e in rd.flatten()
		{
			let p = e.path();
			if p.is_dir()
			{
				list_files(&p, out);
			}
			else
			{
				out.push(p);
			}
		}
	}
}

static COUNTER: std::sync::atomic::AtomicUsize = std::sync::atomic::AtomicUsize::new(0);

fn stub_script(name: &str, answer: usize) -> String
{
	let tail = match answer
	{
		0 => "exit 0",
		1 => "exit 1",
		2 => "exit 3",
		_ => "kill -SEGV $$",
	};
	format!("#!/bin/sh\nn=$(ls \"$STUB_DIR\"/call-* 2>/dev/null | wc -l)\nf=\"$STUB_DIR/call-$n\"\necho {name} > \"$f.name\"\nfor a in \"$@\"; do printf '%s\\n' \"$a\" >> \"$f.args\"; done\ntouch \"$f.args\"\ncat > \"$f.stdin\"\n{tail}\n")
}

/// Does some line of the text show this number as a whole number?
fn shows_number(text: &str, n: i32) -> bool
{
	let needle = n.to_string();
	text.lines().any(|line| {
		let bytes = line.as_bytes();
		let mut from = 0;
		while let Some(pos) = line[from..].find(&needle)
		{
			let start = from + pos;
			let end = start + needle.len();
			let before_ok = start == 0 || !(bytes[start - 1].is_ascii_digit() || bytes[start - 1] == b'-');
			let after_ok = end == bytes.len() || !bytes[end].is_ascii_digit();
			if before_ok && after_ok
			{
				return true;
			}
			from = end;
		}
		false
	})
}

/// Are the wanted arguments present in this order (other arguments may stand between them)?
fn contains_in_order(args: &[String], wanted: &[String]) -> bool
{
	let mut it = args.iter();
	wanted.iter().all(|w| it.any(|a| a == w))
}

fn judge(c: &Case, w: &mut WorkerCtx)
{
	use std::os::unix::fs::PermissionsExt;
	use std::os::unix::process::ExitStatusExt;
	w.result.states += 1;
	let ins = inputs();
	let input = &ins[c.input];
	let desc = || json!({"case": c.to_json(), "what": c.describe(), "sig_hint": SUBCOMMANDS[c.sub]});
	let dbytes = desc().to_string().into_bytes();
	let size = (c.path_form + c.verbosity + c.colour_always as usize + c.arrows_unicode as usize + c.out_dir as usize + c.wasm as usize + c.flag_backend as usize + c.config_backend as usize + c.answer + c.backend_args as usize + c.input) as u64;
	let n = COUNTER.fetch_add(1, std::sync::atomic::Ordering::SeqCst);
	let root = PathBuf::from(format!("/verif/run/c18-scratch-{}-{}", std::process::id(), n));
	let _ = std::fs::remove_dir_all(&root);
	let work_dir = root.join("work");
	let stub_dir = root.join("stubs");
	std::fs::create_dir_all(&work_dir).unwrap();
	std::fs::create_dir_all(&stub_dir).unwrap();
	// files and the path strings given on the command line
	let mut args_paths: Vec<String> = Vec::new();
	let mut lib_files: Vec<(String, String)> = Vec::new();
	for (name, text) in &input.files
	{
		let rel = match c.path_form
		{
			3 => format!("src/{name}"),
			4 => format!("shared/{name}"),
			_ => name.to_string(),
		};
		let on_disk = work_dir.join(&rel);
		std::fs::create_dir_all(on_disk.parent().unwrap()).unwrap();
		let is_missing = input.missing && *name == "nowhere.pn";
		if !is_missing
		{
			std::fs::write(&on_disk, text).unwrap();
		}
		let given = match c.path_form
		{
			1 => format!("./{rel}"),
			2 => on_disk.to_string_lossy().to_string(),
			4 => format!("../{rel}"),
			_ => rel.clone(),
		};
		args_paths.push(given.clone());
		lib_files.push((given, text.to_string()));
	}
	// stubs
	let answers_not_executable = c.answer == 4;
	for name in ["A", "B", "C", "lli", "clang"]
	{
		let p = stub_dir.join(name);
		std::fs::write(&p, stub_script(name, c.answer)).unwrap();
		let mode = if answers_not_executable && !c.real_backend { 0o644 } else { 0o755 };
		std::fs::set_permissions(&p, std::fs::Permissions::from_mode(mode)).unwrap();
	}
	let stub = |n: &str| stub_dir.join(n).to_string_lossy().to_string();
	// command line
	let mut cmd = std::process::Command::new(cli());
	// "through the parent directory": the tool runs in work/app and the modules are ../shared/<name>
	let cwd = if c.path_form == 4 { work_dir.join("app") } else { work_dir.clone() };
	std::fs::create_dir_all(&cwd).unwrap();
	cmd.current_dir(&cwd);
	cmd.env_clear();
	let path = if c.real_backend { "/usr/bin:/bin".to_string() } else { format!("{}:/usr/bin:/bin", stub_dir.to_string_lossy()) };
	cmd.env("PATH", &path);
	cmd.env("STUB_DIR", &stub_dir);
	cmd.env("TERM", "xterm");
	let mut argv: Vec<String> = Vec::new();
	if c.sub > 0
	{
		argv.push(SUBCOMMANDS[c.sub].to_string());
	}
	if !VERBOSITY[c.verbosity].is_empty()
	{
		argv.push(VERBOSITY[c.verbosity].to_string());
	}
	argv.push(format!("--color={}", if c.colour_always { "always" } else { "never" }));
	argv.push(format!("--arrows={}", if c.arrows_unicode { "unicode" } else { "ascii" }));
	let out_dir_given = if c.path_form == 2 { cwd.join("D").to_string_lossy().to_string() } else { "D".to_string() };
	if c.out_dir
	{
		argv.push("--out-dir".to_string());
		argv.push(out_dir_given.clone());
	}
	if c.wasm
	{
		argv.push("--wasm".to_string());
	}
	let is_run = c.sub == 2;
	let is_emit = c.sub == 3;
	let is_build = c.sub <= 1;
	let mut expected_backend: Option<String> = None;
	if !is_emit
	{
		// model of the precedence: flag > environment > config file (build only) > default
		if !c.real_backend
		{
			expected_backend = Some(if c.flag_backend
			{
				"A"
			}
			else if c.env_backend
			{
				"B"
			}
			else if c.config_backend && is_build
			{
				"C"
			}
			else if is_run
			{
				"lli"
			}
			else
			{
				"clang"
			}
			.to_string());
		}
		if c.flag_backend
		{
			argv.push("--backend".to_string());
			argv.push(stub("A"));
		}
		if c.env_backend
		{
			cmd.env(if is_run { "PENNE_LLI" } else { "PENNE_BACKEND" }, stub("B"));
			// the other variable must be ignored
			cmd.env(if is_run { "PENNE_BACKEND" } else { "PENNE_LLI" }, stub("C"));
		}
		if c.config_backend && is_build
		{
			std::fs::write(work_dir.join("cfg.toml"), format!("backend = \"{}\"\nbackend_args = \"-from -config\"\nlink_args = \"-lconfig\"\n{}", stub("C"), if c.config_wasm { "wasm = true\n" } else { "" })).unwrap();
			argv.push("--config".to_string());
			argv.push("cfg.toml".to_string());
		}
		if c.backend_args
		{
			argv.push("--backend-args=-first -second".to_string());
			if is_build
			{
				argv.push("--link-args=-lfoo".to_string());
			}
		}
	}
	if c.output_flag && is_build
	{
		argv.push("-o".to_string());
		argv.push("custom.bin".to_string());
	}
	for p in &args_paths
	{
		argv.push(p.clone());
	}
	cmd.args(&argv);
	// history of the output directory: in half of the configurations with --out-dir (relative path
	// forms, default verbosity) the directory already holds a stale `.pn.ll` for every module, of
	// exactly the length of the IR that is due but with other content (an earlier build of an
	// edited source): the tool must still leave the module's IR there
	let stale_outputs = c.out_dir && c.verbosity == 0 && matches!(c.path_form, 0 | 1 | 3) && !input.missing && !input.link_conflict;
	if stale_outputs
	{
		let wasm_pre = c.wasm || (c.config_wasm && c.config_backend && c.sub <= 1);
		if let Verdict::Ok { irs, .. } = alpha::alpha_pipeline(&lib_files, alpha::Opts { for_wasm: wasm_pre, generate_ir: true, link: true })
		{
			for (i, (given, _)) in lib_files.iter().enumerate()
			{
				let relative: PathBuf = Path::new(given).components().filter(|x| matches!(x, std::path::Component::Normal(_))).collect();
				let mut p = cwd.join("D").join(relative);
				p.set_extension("pn.ll");
				if let Some(parent) = p.parent()
				{
					let _ = std::fs::create_dir_all(parent);
				}
				let stale: String = irs[i].chars().map(|ch| if ch == 'r' { 'R' } else { ch }).collect();
				let _ = std::fs::write(&p, stale);
			}
		}
	}
	let mut before = Vec::new();
	list_files(&work_dir, &mut before);
	let argv_shown = argv.join(" ");
	let outcome = w.run_case(&dbytes, || {
		let out = cmd.stdin(std::process::Stdio::null()).output();
		out
	});
	let out = match outcome
	{
		CaseOutcome::Done(Ok(o)) => o,
		CaseOutcome::Done(Err(e)) => panic!("cannot run the penne binary {}: {e}", cli()),
		_ =>
		{
			let _ = std::fs::remove_dir_all(&root);
			return;
		}
	};
	let mut after = Vec::new();
	list_files(&work_dir, &mut after);
	let mut stub_log = Vec::new();
	for i in 0..8
	{
		let f = stub_dir.join(format!("call-{i}"));
		let Ok(name) = std::fs::read_to_string(format!("{}.name", f.to_string_lossy()))
		else
		{
			break;
		};
		let args: Vec<String> = std::fs::read_to_string(format!("{}.args", f.to_string_lossy())).unwrap_or_default().lines().map(|l| l.to_string()).collect();
		let stdin = std::fs::read_to_string(format!("{}.stdin", f.to_string_lossy())).unwrap_or_default();
		stub_log.push((name.trim().to_string(), args, stdin));
	}
	let run = Run {
		status: out.status.code(),
		signal: out.status.signal(),
		stdout: String::from_utf8_lossy(&out.stdout).to_string(),
		stderr: String::from_utf8_lossy(&out.stderr).to_string(),
		new_files: after.iter().filter(|p| !before.contains(p)).cloned().collect(),
		stub_log,
	};
	w.result.validated += 1;
	// the library's view of the same input
	let wasm = c.wasm || (c.config_wasm && c.config_backend && c.sub <= 1);
	let lib = if input.missing || input.link_conflict { None } else { Some(alpha::alpha_pipeline(&lib_files, alpha::Opts { for_wasm: wasm, generate_ir: true, link: true })) };
	let compile_ok = matches!(lib, Some(Verdict::Ok { .. }));
	// `derive_output_filepath` always yields a path when there is an input file, so the backend runs for build and run
	let backend_invoked = compile_ok && !is_emit;
	let backend_ok = if !backend_invoked
	{
		true
	}
	else if c.real_backend
	{
		true
	}
	else if is_run
	{
		c.answer <= 2
	}
	else
	{
		c.answer == 0
	};
	let expect_zero = compile_ok && backend_ok;
	let what = c.describe();
	let transcript = || {
		format!(
			"$ penne {argv_shown}\nstatus {:?} signal {:?}\n--- stdout\n{}\n--- stderr\n{}\n--- new files {:?}\n--- backend calls {:?}",
			run.status,
			run.signal,
			crate::driver::first_lines(&run.stdout, 30),
			crate::driver::first_lines(&run.stderr, 40),
			run.new_files,
			run.stub_log.iter().map(|(n, a, s)| (n.clone(), a.clone(), s.len())).collect::<Vec<_>>()
		)
	};
	// the valid input classes are valid by construction (plain documented programs with a pinned output):
	// a tool that cannot compile them does not show "the program's exit status"
	if input.program.is_some() && !compile_ok
	{
		let codes = lib.as_ref().map(|l| l.codes()).unwrap_or_default();
		w.result.violation(&format!("valid-input-rejected:{}:E{}", input.name, codes.first().copied().unwrap_or(0)), 1, &|| c.to_json(), || format!("{}: the input class is valid by construction but the compilation fails with {codes:?}", c.describe()));
	}
	let kind = if input.missing { "missing file" } else if input.link_conflict { "link conflict" } else if compile_ok { "valid" } else { "invalid" };
	let mut ok = true;
	let mut violation = |w: &mut WorkerCtx, sig: String, detail: String| {
		ok = false;
		w.result.violation(&sig, size, &desc, || format!("{what}: {detail}\n{}", transcript()));
	};
	// (1) exit status
	if run.signal.is_some()
	{
		violation(w, format!("penne-killed-by-signal:{}", SUBCOMMANDS[c.sub]), format!("the tool itself died with signal {:?}", run.signal));
	}
	else if (run.status == Some(0)) != expect_zero
	{
		let why = if !compile_ok { "compilation fails" } else if !backend_ok { "the backend failed" } else { "everything succeeded" };
		violation(w, format!("wrong-exit-status:{}:{kind}:{}", SUBCOMMANDS[c.sub], if expect_zero { "nonzero although all succeeded" } else if !compile_ok { "zero although compilation failed" } else { "zero although the backend failed" }), format!("exit status {:?} although {why}", run.status));
	}
	let all_output = format!("{}{}", run.stdout, run.stderr);
	// (2) diagnostics
	if let Some(v) = &lib
	{
		let mut codes: Vec<String> = v.diags().iter().map(|d| format!("[E{}]", d.code)).collect();
		codes.extend(v.lints().iter().map(|d| format!("[L{}]", d.code)));
		if c.verbosity != 1
		{
			let mut pos = 0;
			for code in &codes
			{
				match all_output[pos..].find(code.as_str())
				{
					Some(i) => pos += i + code.len(),
					None =>
					{
						violation(w, format!("diagnostic-not-shown:{kind}"), format!("the library reports {codes:?} for this input, the tool does not show {code} (in this order)"));
						break;
					}
				}
			}
		}
		else if codes.iter().any(|code| all_output.contains(code.as_str()))
		{
			violation(w, "diagnostics-shown-although-silent".to_string(), "a report is printed although --silent was given".to_string());
		}
	}
	if input.link_conflict && c.verbosity != 1 && !all_output.contains("[E")
	{
		violation(w, "failure-without-rendered-diagnostic:two modules define the same symbol".to_string(), "the compilation fails, but no diagnostic with a code from the catalogue is shown".to_string());
	}
	// (3) colour and charset
	if !c.colour_always && all_output.contains('\u{1b}')
	{
		violation(w, format!("escape-sequence-with-color-never:{kind}:{}", if run.stderr.contains('\u{1b}') { "stderr" } else { "stdout" }), "the output contains an ESC byte although --color=never was given".to_string());
	}
	if !c.arrows_unicode
	{
		let bad: String = all_output.chars().filter(|ch| ('\u{2500}'..='\u{25ff}').contains(ch) || *ch == '\u{1fb6f}').take(6).collect();
		if !bad.is_empty()
		{
			violation(w, format!("box-drawing-with-arrows-ascii:{kind}"), format!("the output contains {bad:?} although --arrows=ascii was given"));
		}
	}
	// (4) files
	let d_dir = cwd.join("D");
	let mut expected_files: Vec<PathBuf> = Vec::new();
	if let Some(Verdict::Ok { irs, .. }) = &lib
	{
		if c.out_dir
		{
			for (i, (given, _)) in lib_files.iter().enumerate()
			{
				// the module's path below D: for relative paths D/<path>.pn.ll; for absolute paths and
				// paths through a parent directory any place below D with the module's file name
				let file_name = format!("{}.ll", Path::new(given).file_name().unwrap().to_string_lossy());
				let p = if c.path_form == 2 || c.path_form == 4
				{
					run.new_files.iter().chain(after.iter()).find(|f| f.starts_with(&d_dir) && f.file_name().map(|n| n.to_string_lossy() == file_name).unwrap_or(false)).cloned().unwrap_or(d_dir.join(&file_name))
				}
				else
				{
					let relative: PathBuf = Path::new(given).components().filter(|x| matches!(x, std::path::Component::Normal(_))).collect();
					let mut p = d_dir.join(relative);
					p.set_extension("pn.ll");
					p
				};
				match std::fs::read_to_string(&p)
				{
					Ok(text) =>
					{
						if text != irs[i]
						{
							violation(w, format!("emitted-ir-differs-from-library:{}", if wasm { "wasm" } else { "host" }), format!("{} differs from the IR that the library API produces for module {given}:\n--- file\n{}\n--- library\n{}", p.display(), crate::driver::first_lines(&text, 12), crate::driver::first_lines(&irs[i], 12)));
						}
						if wasm && !text.contains("target triple = \"wasm32-unknown-wasi\"")
						{
							let triple = text.lines().find(|l| l.starts_with("target triple")).unwrap_or("(none)").to_string();
							violation(w, "wasm-module-with-another-triple".to_string(), format!("{} was emitted with --wasm but has {triple}", p.display()));
						}
					}
					Err(_) =>
					{
						violation(w, format!("ir-file-missing-under-out-dir:{}", PATH_FORMS[c.path_form]), format!("no file {} although the compilation of module {given} succeeded with --out-dir", p.display()));
					}
				}
				expected_files.push(p);
			}
		}
	}
	// the real backends may leave the executable
	for f in &run.new_files
	{
		let under_d = f.starts_with(&d_dir);
		let is_cfg = f.file_name().map(|n| n == "cfg.toml").unwrap_or(false);
		let is_binary_of_real_build = c.real_backend && is_build && !f.to_string_lossy().ends_with(".ll");
		if is_cfg || is_binary_of_real_build
		{
			continue;
		}
		if !c.out_dir
		{
			violation(w, format!("file-written-without-out-dir:{}", SUBCOMMANDS[c.sub]), format!("{} appeared although no --out-dir was given", f.display()));
		}
		else if !under_d
		{
			violation(w, format!("file-written-outside-out-dir:{}", PATH_FORMS[c.path_form]), format!("{} appeared outside the output directory {}", f.display(), d_dir.display()));
		}
		else if !compile_ok && !expected_files.contains(f) && input.files.len() == 1
		{
			violation(w, "ir-file-for-failed-module".to_string(), format!("{} was written although the compilation failed", f.display()));
		}
	}
	// (5) backend
	if let Some(Verdict::Ok { linked, .. }) = &lib
	{
		if !c.real_backend && !is_emit
		{
			if answers_not_executable
			{
				if !run.stub_log.is_empty()
				{
					violation(w, "backend-ran-although-not-executable".to_string(), "a stub ran although none is executable".to_string());
				}
			}
			else if run.stub_log.len() != 1
			{
				violation(w, format!("backend-invoked-{}-times", run.stub_log.len()), format!("the backend must be invoked exactly once, it was invoked {} times", run.stub_log.len()));
			}
			else
			{
				let (name, args, stdin) = &run.stub_log[0];
				let want = expected_backend.clone().unwrap();
				if name != &want
				{
					violation(w, format!("wrong-backend:{}:expected {want} got {name}", SUBCOMMANDS[c.sub]), format!("flag > environment > config > default selects {want}, but {name} was invoked"));
				}
				if Some(stdin) != linked.as_ref()
				{
					violation(w, format!("backend-input-differs-from-linked-ir:{}", SUBCOMMANDS[c.sub]), format!("the backend received {} bytes on its standard input, the library's linked IR has {} bytes", stdin.len(), linked.as_ref().map(|l| l.len()).unwrap_or(0)));
				}
				// arguments
				let mut want_args: Vec<String> = Vec::new();
				if c.backend_args
				{
					want_args.extend(["-first".to_string(), "-second".to_string()]);
				}
				else if c.config_backend && is_build
				{
					want_args.extend(["-from".to_string(), "-config".to_string()]);
				}
				if is_build
				{
					if c.backend_args
					{
						want_args.push("-Wl,-lfoo".to_string());
					}
					else if c.config_backend
					{
						want_args.push("-Wl,-lconfig".to_string());
					}
					want_args.extend(["-x".to_string(), "ir".to_string()]);
				}
				want_args.push("-".to_string());
				if is_build
				{
					want_args.push("-o".to_string());
					let first = Path::new(&args_paths[0]).file_name().unwrap().to_string_lossy().to_string();
					let mut o = if c.out_dir { PathBuf::from(&out_dir_given) } else { PathBuf::new() };
					o.push(first);
					o.set_extension(if wasm { "wasm" } else { std::env::consts::ARCH });
					want_args.push(if c.output_flag { "custom.bin".to_string() } else { o.to_string_lossy().to_string() });
				}
				// the documented arguments, in this order; further arguments are the tool's business
				if !contains_in_order(args, &want_args)
				{
					violation(w, format!("wrong-backend-arguments:{}", SUBCOMMANDS[c.sub]), format!("the backend was invoked with {args:?}, which does not contain the documented arguments {want_args:?} in this order"));
				}
			}
		}
	}
	else if !run.stub_log.is_empty()
	{
		violation(w, "backend-ran-after-failed-compilation".to_string(), "the backend was invoked although the compilation failed".to_string());
	}
	if is_emit && !run.stub_log.is_empty()
	{
		violation(w, "backend-ran-for-emit".to_string(), "`penne emit` must not invoke a backend".to_string());
	}
	// (6) run: output passed through and exit status shown
	if is_run && compile_ok
	{
		if c.real_backend
		{
			let (text, status) = input.program.unwrap();
			if !run.stdout.contains(text)
			{
				violation(w, "program-output-not-passed-through".to_string(), format!("the program prints {text:?}, which is not in the tool's standard output"));
			}
			// the tool's own lines: everything but the program's output
			let own = run.stdout.replacen(text, "", 1);
			if c.verbosity != 1 && !shows_number(&own, status)
			{
				violation(w, "exit-status-of-program-not-shown".to_string(), format!("the program exits with {status}, which the tool does not show"));
			}
		}
		else if c.answer <= 2 && c.verbosity != 1
		{
			let status = [0, 1, 3][c.answer];
			// lines that show the command line of the backend do not count
			let own: String = run.stdout.lines().filter(|l| !l.contains("stubs/")).collect::<Vec<_>>().join("\n");
			if !shows_number(&own, status)
			{
				violation(w, "exit-status-of-backend-not-shown".to_string(), format!("the backend exited with {status}, which the tool does not show"));
			}
		}
	}
	// (7) silence
	if c.verbosity == 1 && compile_ok && backend_ok
	{
		let program_text = if is_run && c.real_backend { input.program.unwrap().0 } else { "" };
		let rest = run.stdout.replacen(program_text, "", 1);
		let rest: String = rest.chars().filter(|ch| !ch.is_whitespace()).collect();
		if !rest.is_empty() || !run.stderr.trim().is_empty()
		{
			violation(w, format!("output-although-silent:{}", SUBCOMMANDS[c.sub]), "something is printed on success although --silent was given".to_string());
		}
	}
	w.result.outcome(&format!("{}:{kind}:{}{}", SUBCOMMANDS[c.sub], if run.status == Some(0) { "exit 0" } else { "exit nonzero" }, if ok { "" } else { ":MISMATCH" }));
	if ok && n % 61 == 0
	{
		w.result.sample(|| json!({"what": what, "status": run.status, "new_files": run.new_files.iter().map(|p| p.to_string_lossy().to_string()).collect::<Vec<_>>()}));
	}
	let _ = std::fs::remove_dir_all(&root);
}
