//! C20 — rebuilt source parses back to the same tree.
//!
//! Every S-AST module without builtin calls, and every corpus file the first generation parses
//! without error: parse, rebuild, parse again, rebuild again.

use crate::driver::Driver;
use crate::model::grammar::{self, Decl, Expr, Layout, Node, Stmt};
use crate::pool::{CaseOutcome, WorkerCtx};
use crate::spaces::ast;
use crate::subjects::trees;
use penne::alpha::rebuilder;
use serde_json::{Value, json};

pub fn drive(d: &mut Driver)
{
	let quick = d.quick();
	let fams = ast::families(quick);
	let mut jobs = Vec::new();
	let mut sizes = serde_json::Map::new();
	for (fi, (name, mods)) in fams.iter().enumerate()
	{
		sizes.insert(name.to_string(), json!(mods.len()));
		let mut lo = 0;
		while lo < mods.len()
		{
			let hi = (lo + 1500).min(mods.len());
			jobs.push(json!({"family": fi, "lo": lo, "hi": hi}));
			lo = hi;
		}
	}
	d.bound("S-AST family sizes (modules with builtin calls are skipped)", Value::Object(sizes));
	d.bound("expression derivations: max operators", json!(if quick { 2 } else { 3 }));
	d.phase("S-AST modules", jobs);
	let files = crate::util::corpus_files();
	d.bound("corpus files", json!(files.len()));
	let jobs: Vec<Value> = files.chunks(20).map(|c| json!({"corpus": c})).collect();
	d.phase("corpus files", jobs);
	d.assume("trees are compared modulo locations, literal spelling and literal type suffix, as the property states; resolution ids and inferred annotations are not part of the syntax tree");
	d.assume("only inputs the first-generation parser accepts without any error are judged");
}

fn expr_has_builtin(e: &Expr) -> bool
{
	match e
	{
		Expr::Call { builtin, args, .. } => *builtin || args.iter().any(expr_has_builtin),
		Expr::Paren(x) | Expr::Unary(_, x) | Expr::BitCast(x) | Expr::TypeCast(x, _) => expr_has_builtin(x),
		Expr::Binary(_, l, r) => expr_has_builtin(l) || expr_has_builtin(r),
		Expr::Array(items, _) => items.iter().any(expr_has_builtin),
		Expr::Struct { fields, .. } => fields.iter().any(|(_, v)| v.as_ref().map(expr_has_builtin).unwrap_or(false)),
		Expr::Advance(_, x) => expr_has_builtin(x),
		_ => false,
	}
}

fn stmt_has_builtin(s: &Stmt) -> bool
{
	match s
	{
		Stmt::Block(v) => v.iter().any(stmt_has_builtin),
		Stmt::If(c, t, e) => expr_has_builtin(&c.left) || expr_has_builtin(&c.right) || stmt_has_builtin(t) || e.as_ref().map(|e| stmt_has_builtin(e)).unwrap_or(false),
		Stmt::Var(_, _, v) => v.as_ref().map(expr_has_builtin).unwrap_or(false),
		Stmt::Assign(_, v) => expr_has_builtin(v),
		Stmt::Call { builtin, args, .. } => *builtin || args.iter().any(expr_has_builtin),
		_ => false,
	}
}

fn module_has_builtin(m: &[Decl]) -> bool
{
	m.iter().any(|d| match d
	{
		Decl::Const { value, .. } => expr_has_builtin(value),
		Decl::Fn { body: Some(b), .. } => b.stmts.iter().any(stmt_has_builtin) || b.ret.as_ref().map(expr_has_builtin).unwrap_or(false),
		_ => false,
	})
}

pub fn work(spec: &Value, w: &mut WorkerCtx)
{
	if let Some(case) = spec.get("replay")
	{
		if let Some(p) = case.get("corpus_file").and_then(|p| p.as_str())
		{
			if let Ok(text) = std::fs::read_to_string(p)
			{
				judge(&text, "corpus", || case.clone(), w);
			}
		}
		else
		{
			let text = case["text"].as_str().unwrap_or("").to_string();
			judge(&text, case["family"].as_str().unwrap_or("?"), || case.clone(), w);
		}
		return;
	}
	if let Some(files) = spec.get("corpus").and_then(|f| f.as_array())
	{
		for f in files
		{
			let path = f.as_str().unwrap();
			w.result.transitions += 1;
			let Ok(text) = std::fs::read_to_string(path)
			else
			{
				continue;
			};
			judge(&text, "corpus", || json!({"corpus_file": path}), w);
		}
		return;
	}
	let quick = w.tier == "quick";
	let fams = ast::families(quick);
	let fi = spec["family"].as_u64().unwrap() as usize;
	let (fname, mods) = &fams[fi];
	for i in spec["lo"].as_u64().unwrap() as usize..spec["hi"].as_u64().unwrap() as usize
	{
		if module_has_builtin(&mods[i])
		{
			w.result.count("skipped: module contains a builtin call", 1);
			continue;
		}
		let text = grammar::render_module(&mods[i], Layout::Canonical);
		w.result.transitions += 1;
		judge(&text, fname, || json!({"family": fname, "text": text}), w);
	}
}

fn erase_literal_types(n: &Node) -> Node
{
	let mut n = n.clone();
	if n.kind == "Int"
	{
		n.attrs.retain(|(k, _)| k != "type");
	}
	n.children = n.children.iter().map(erase_literal_types).collect();
	n
}

/// The construct of the source that the first difference sits in (for the signature): the last
/// two construct kinds of the path and, for attribute differences, the names of the differing
/// attributes (values are left out so that one defect gives one signature).
fn construct_at(path: &str, a: &str, b: &str) -> String
{
	let parts: Vec<&str> = path.split('/').filter(|p| !matches!(*p, "Module" | "Body" | "Stmts" | "Then" | "Else" | "Value" | "Type")).collect();
	let n = parts.len();
	let place = parts[n.saturating_sub(2)..].join("/");
	fn pairs(s: &str) -> Vec<(String, String)>
	{
		let mut out = Vec::new();
		let mut rest = s;
		while let Some(k) = rest.find("(\"")
		{
			rest = &rest[k + 2..];
			let Some(e) = rest.find("\", \"")
			else
			{
				break;
			};
			let key = rest[..e].to_string();
			rest = &rest[e + 4..];
			let Some(e2) = rest.find("\")")
			else
			{
				break;
			};
			out.push((key, rest[..e2].to_string()));
			rest = &rest[e2..];
		}
		out
	}
	if a.starts_with("[(") || b.starts_with("[(") || a == "[]" || b == "[]"
	{
		let (pa, pb) = (pairs(a), pairs(b));
		let mut keys: Vec<String> = Vec::new();
		for (k, v) in &pa
		{
			if pb.iter().find(|(k2, _)| k2 == k).map(|(_, v2)| v2 != v).unwrap_or(true)
			{
				keys.push(k.clone());
			}
		}
		for (k, _) in &pb
		{
			if !pa.iter().any(|(k2, _)| k2 == k) && !keys.contains(k)
			{
				keys.push(k.clone());
			}
		}
		return format!("{place}:attributes={}", keys.join("+"));
	}
	let kind = |s: &str| s.chars().take_while(|c| c.is_alphanumeric()).collect::<String>();
	format!("{place}:{}-vs-{}", kind(a), kind(b))
}

fn judge(text: &str, family: &str, desc: impl Fn() -> Value, w: &mut WorkerCtx)
{
	w.result.states += 1;
	let size = text.len() as u64;
	let d = desc().to_string().into_bytes();
	let outcome = w.run_case(&d, || {
		let p1 = trees::alpha_parse(text);
		if p1.tree.is_err()
		{
			return (None, None, None, None, Vec::new(), None);
		}
		let ind = rebuilder::Indentation { value: "\t", amount: 0 };
		let r1 = match rebuilder::rebuild(&p1.declarations, &ind)
		{
			Ok(r) => r,
			Err(e) => return (p1.tree.ok(), Some(Err(e.to_string())), None, None, Vec::new(), None),
		};
		let p2 = trees::alpha_parse(&r1);
		let r2 = rebuilder::rebuild(&p2.declarations, &ind).map_err(|e| e.to_string());
		// Secondary judgement with the rebuilder's deliberate annotations removed, so that the
		// known annotation findings do not hide other round-trip defects.
		let deannotated = if p2.tree.is_err() && r1.contains('#')
		{
			let r1d = deannotate(&r1);
			let p2d = trees::alpha_parse(&r1d);
			Some((r1d, p2d.tree, p2d.error_codes))
		}
		else
		{
			None
		};
		(p1.tree.ok(), Some(Ok(r1)), Some(p2.tree), Some(r2), p2.error_codes, deannotated)
	});
	match outcome
	{
		CaseOutcome::Done((t1, r1, t2, r2, codes2, deannotated)) =>
		{
			let Some(t1) = t1
			else
			{
				w.result.outcome("not judged: first parse has errors");
				return;
			};
			if tree_has_builtin(&t1)
			{
				w.result.outcome("not judged: contains builtin calls");
				return;
			}
			w.result.validated += 1;
			let r1 = match r1
			{
				Some(Ok(r)) => r,
				Some(Err(e)) =>
				{
					w.result.outcome("rebuild-failed-MISMATCH");
					w.result.violation("rebuild-failed", size, &desc, || format!("rebuild returned an error: {e}"));
					return;
				}
				None => return,
			};
			let mut ok = true;
			match t2
			{
				Some(Ok(t2)) =>
				{
					let a = erase_literal_types(&t1);
					let b = erase_literal_types(&t2);
					if let Some((path, x, y)) = a.first_difference(&b)
					{
						ok = false;
						w.result.violation(&format!("reparsed-tree-differs:{}", construct_at(&path, &x, &y)), size, &desc, || {
							format!("at {path}: original tree has {x}, tree of the rebuilt text has {y}\nrebuilt text:\n{r1}")
						});
					}
				}
				Some(Err(e)) =>
				{
					ok = false;
					// Which construct of the rebuilt text is not valid syntax?
					let marker = rebuilt_marker(&r1);
					w.result.violation(&format!("rebuilt-text-does-not-parse:E{}:{marker}", codes2.first().copied().unwrap_or(0)), size, &desc, || {
						format!("the rebuilt text has parse errors ({e}):\n{r1}")
					});
				}
				None =>
				{}
			}
			if let Some((r1d, t2d, codes)) = deannotated
			{
				match t2d
				{
					Ok(t2d) =>
					{
						let a = erase_literal_types(&t1);
						let b = erase_literal_types(&t2d);
						if let Some((path, x, y)) = a.first_difference(&b)
						{
							w.result.violation(&format!("deannotated:reparsed-tree-differs:{}", construct_at(&path, &x, &y)), size, &desc, || {
								format!("(annotations removed) at {path}: original tree has {x}, tree of the rebuilt text has {y}\nrebuilt text without annotations:\n{r1d}")
							});
						}
					}
					Err(e) =>
					{
						w.result.violation(&format!("deannotated:rebuilt-text-does-not-parse:E{}", codes.first().copied().unwrap_or(0)), size, &desc, || {
							format!("(annotations removed) the rebuilt text still has parse errors ({e}):\n{r1d}")
						});
					}
				}
			}
			if ok
			{
				match r2
				{
					Some(Ok(r2)) if r2 == r1 =>
					{}
					Some(Ok(r2)) =>
					{
						ok = false;
						let k = r1.lines().zip(r2.lines()).position(|(a, b)| a != b).unwrap_or(0);
						w.result.violation("second-rebuild-differs", size, &desc, || {
							format!("second rebuild is not byte-identical; first differing line {k}:\n  first:  {:?}\n  second: {:?}", r1.lines().nth(k), r2.lines().nth(k))
						});
					}
					Some(Err(e)) =>
					{
						ok = false;
						w.result.violation("second-rebuild-failed", size, &desc, || format!("second rebuild failed: {e}"));
					}
					None =>
					{}
				}
			}
			w.result.outcome(&format!("{family}:{}", if ok { "round-trips" } else { "MISMATCH" }));
			if ok
			{
				w.result.sample(|| json!({"source": text, "rebuilt": r1}));
			}
		}
		CaseOutcome::Panicked { site, message } =>
		{
			w.result.outcome("panicked");
			let sig = format!("panic@{}", crate::util::site_signature(&site, &message));
			w.result.violation(&sig, size, &desc, || format!("panic at {site}: {message}"));
		}
		CaseOutcome::Crashed { .. } =>
		{}
	}
}

/// Which extra-syntactical annotation of the rebuilder makes the rebuilt text unparseable.
fn rebuilt_marker(r1: &str) -> String
{
	if r1.is_empty()
	{
		return "empty-text".to_string();
	}
	if let Some(k) = r1.find('#')
	{
		let before: String = r1[..k].chars().rev().take_while(|c| c.is_alphanumeric() || *c == '_' || *c == '!').collect::<String>().chars().rev().collect();
		let after: String = r1[k + 1..].chars().take(2).collect();
		if before == "struct" || before.starts_with("word")
		{
			return "structure-declaration-annotation".to_string();
		}
		if after.starts_with('?')
		{
			return "unresolved-type-annotation".to_string();
		}
		if before.ends_with('!')
		{
			return "builtin-annotation".to_string();
		}
		return "resolution-id-annotation".to_string();
	}
	if r1.contains('\u{2620}')
	{
		return "poison-marker".to_string();
	}
	"other".to_string()
}

/// Remove the rebuilder's deliberate annotations: `struct#NAME`, `wordN#NAME`, `NAME#?`, `NAME#id`.
fn deannotate(r: &str) -> String
{
	let mut out = String::new();
	let chars: Vec<char> = r.chars().collect();
	let mut i = 0;
	while i < chars.len()
	{
		if chars[i] == '#'
		{
			// skip '#' and what follows it: '?', digits, or (after struct/word) the repeated name
			let before: String = out.chars().rev().take_while(|c| c.is_alphanumeric() || *c == '_').collect::<String>().chars().rev().collect();
			i += 1;
			if i < chars.len() && chars[i] == '?'
			{
				i += 1;
				if i < chars.len() && chars[i] == '#'
				{
					continue;
				}
				continue;
			}
			if before == "struct" || (before.starts_with("word") && before[4..].chars().all(|c| c.is_ascii_digit()))
			{
				while i < chars.len() && (chars[i].is_alphanumeric() || chars[i] == '_' || chars[i] == '#')
				{
					i += 1;
				}
				continue;
			}
			while i < chars.len() && chars[i].is_ascii_digit()
			{
				i += 1;
			}
			continue;
		}
		out.push(chars[i]);
		i += 1;
	}
	out
}

fn tree_has_builtin(n: &Node) -> bool
{
	((n.kind == "Call" || n.kind == "CallStmt") && n.get("builtin") == Some("true")) || n.children.iter().any(tree_has_builtin)
}
