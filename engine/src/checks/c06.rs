//! C06 — loop and if-branches only appear where the language allows them.
//!
//! All statement trees over {block, if, if-else (including else-if chains), goto, loop,
//! assignment, label} up to a size and nesting bound; the real pipeline's verdict, codes,
//! diagnostic lines and L1800 lints are compared with the reference placement model.

use crate::driver::Driver;
use crate::pool::{CaseOutcome, WorkerCtx};
use crate::subjects::alpha::{self, Verdict};
use serde_json::{Value, json};
use std::collections::{BTreeSet, HashMap};
use std::rc::Rc;

#[derive(Debug, Clone, PartialEq, Eq, Hash)]
pub enum P
{
	Goto,
	Loop,
	Assign,
	Label,
	Block(Vec<P>),
	If(Box<P>, Option<Box<P>>),
}

const ATOMS: [P; 4] = [P::Goto, P::Loop, P::Assign, P::Label];

pub struct Gen
{
	stmts: HashMap<(usize, usize), Rc<Vec<P>>>,
	forests: HashMap<(usize, usize), Rc<Vec<Vec<P>>>>,
}

impl Gen
{
	pub fn new() -> Gen
	{
		Gen { stmts: HashMap::new(), forests: HashMap::new() }
	}

	/// All single statements with exactly n nodes and nesting depth <= d.
	pub fn stmts(&mut self, n: usize, d: usize) -> Rc<Vec<P>>
	{
		if let Some(v) = self.stmts.get(&(n, d))
		{
			return v.clone();
		}
		let mut out = Vec::new();
		if n == 1
		{
			out.extend(ATOMS.iter().cloned());
		}
		if n >= 1 && d > 0
		{
			for f in self.forests(n - 1, d - 1).iter()
			{
				out.push(P::Block(f.clone()));
			}
			if n >= 2
			{
				for t in self.stmts(n - 1, d - 1).iter()
				{
					out.push(P::If(Box::new(t.clone()), None));
				}
			}
			if n >= 3
			{
				for k in 1..(n - 1)
				{
					let thens = self.stmts(k, d - 1);
					let elses = self.stmts(n - 1 - k, d - 1);
					for t in thens.iter()
					{
						// dangling else: the then-branch must not end in an if without else
						if ends_in_open_if(t)
						{
							continue;
						}
						for e in elses.iter()
						{
							out.push(P::If(Box::new(t.clone()), Some(Box::new(e.clone()))));
						}
					}
				}
			}
		}
		let rc = Rc::new(out);
		self.stmts.insert((n, d), rc.clone());
		rc
	}

	pub fn forests(&mut self, n: usize, d: usize) -> Rc<Vec<Vec<P>>>
	{
		if let Some(v) = self.forests.get(&(n, d))
		{
			return v.clone();
		}
		let mut out = Vec::new();
		if n == 0
		{
			out.push(Vec::new());
		}
		else
		{
			for k in 1..=n
			{
				let firsts = self.stmts(k, d);
				let rests = self.forests(n - k, d);
				for f in firsts.iter()
				{
					for r in rests.iter()
					{
						let mut v = Vec::with_capacity(r.len() + 1);
						v.push(f.clone());
						v.extend(r.iter().cloned());
						out.push(v);
					}
				}
			}
		}
		let rc = Rc::new(out);
		self.forests.insert((n, d), rc.clone());
		rc
	}

	/// Stream all forests of size n whose first statement has size k.
	pub fn for_each(&mut self, n: usize, d: usize, k: usize, part: usize, parts: usize, f: &mut dyn FnMut(&[P]))
	{
		if n == 0
		{
			f(&[]);
			return;
		}
		let firsts = self.stmts(k, d);
		for (i, first) in firsts.iter().enumerate()
		{
			if i % parts != part
			{
				continue;
			}
			let mut acc = vec![first.clone()];
			self.stream(n - k, d, &mut acc, f);
		}
	}

	fn stream(&mut self, remaining: usize, d: usize, acc: &mut Vec<P>, f: &mut dyn FnMut(&[P]))
	{
		if remaining == 0
		{
			f(acc);
			return;
		}
		for k in 1..=remaining
		{
			let firsts = self.stmts(k, d);
			for s in firsts.iter()
			{
				acc.push(s.clone());
				self.stream(remaining - k, d, acc, f);
				acc.pop();
			}
		}
	}
}

fn ends_in_open_if(s: &P) -> bool
{
	match s
	{
		P::If(_, None) => true,
		P::If(_, Some(e)) => ends_in_open_if(e),
		_ => false,
	}
}

// ---------------------------------------------------------------------------------------------
// Rendering: one statement per line.

struct Rendered
{
	lines: Vec<String>,
	labels: usize,
}

fn render_stmt(s: &P, indent: usize, r: &mut Rendered, line_of: &mut Vec<(*const P, usize)>)
{
	let pad = "\t".repeat(indent);
	line_of.push((s as *const P, r.lines.len() + 1));
	match s
	{
		P::Goto => r.lines.push(format!("{pad}goto end;")),
		P::Loop => r.lines.push(format!("{pad}loop;")),
		P::Assign => r.lines.push(format!("{pad}x = 1;")),
		P::Label =>
		{
			r.labels += 1;
			r.lines.push(format!("{pad}l{}:", r.labels));
		}
		P::Block(inner) =>
		{
			r.lines.push(format!("{pad}{{"));
			for t in inner
			{
				render_stmt(t, indent + 1, r, line_of);
			}
			r.lines.push(format!("{pad}}}"));
		}
		P::If(t, e) =>
		{
			r.lines.push(format!("{pad}if c == 0"));
			render_stmt(t, indent + 1, r, line_of);
			if let Some(e) = e
			{
				r.lines.push(format!("{pad}else"));
				render_stmt(e, indent + 1, r, line_of);
			}
		}
	}
}

pub fn render(forest: &[P]) -> (String, Vec<(*const P, usize)>)
{
	let mut r = Rendered { lines: vec!["fn f(c: i32)".into(), "{".into(), "\tvar x: i32 = 0;".into()], labels: 0 };
	let mut line_of = Vec::new();
	for s in forest
	{
		render_stmt(s, 1, &mut r, &mut line_of);
	}
	r.lines.push("\tend:".into());
	r.lines.push("}".into());
	(r.lines.join("\n") + "\n", line_of)
}

// ---------------------------------------------------------------------------------------------
// Reference placement model (docs/features.md "Scoped loop statements", docs/errors.md E800,
// E801, E840, L1800).

#[derive(Default, Debug)]
pub struct Placement
{
	/// (code, line, masked): masked flags sit inside a statement that is itself flagged E840.
	pub flags: Vec<(u16, usize, bool)>,
	pub lint_lines: BTreeSet<usize>,
}

struct Model<'a>
{
	line_of: &'a [(*const P, usize)],
	out: Placement,
}

impl<'a> Model<'a>
{
	fn line(&self, s: &P) -> usize
	{
		self.line_of.iter().find(|(p, _)| *p == s as *const P).map(|(_, l)| *l).unwrap_or(0)
	}

	fn block(&mut self, stmts: &[P], is_function_body: bool, masked: bool)
	{
		for (i, s) in stmts.iter().enumerate()
		{
			if let P::Loop = s
			{
				if is_function_body
				{
					self.out.flags.push((801, self.line(s), masked));
				}
				else if i + 1 != stmts.len()
				{
					self.out.flags.push((800, self.line(s), masked));
				}
			}
			self.stmt(s, masked);
		}
	}

	fn stmt(&mut self, s: &P, masked: bool)
	{
		match s
		{
			P::Block(inner) => self.block(inner, false, masked),
			P::If(t, e) =>
			{
				self.branch(t, false, masked);
				if let Some(e) = e
				{
					self.branch(e, true, masked);
				}
			}
			_ =>
			{}
		}
	}

	fn branch(&mut self, b: &P, is_else: bool, masked: bool)
	{
		let allowed = matches!(b, P::Goto | P::Block(_)) || (is_else && matches!(b, P::If(..)));
		if !allowed
		{
			self.out.flags.push((840, self.line(b), masked));
			// what is inside an illegal branch is judged as masked
			if let P::Loop = b
			{
				// a naked loop is also not the last statement of a block
				self.out.flags.push((801, self.line(b), true));
			}
			self.stmt(b, true);
			return;
		}
		if let P::Block(inner) = b
		{
			if let Some(P::Loop) = inner.first()
			{
				if !masked
				{
					self.out.lint_lines.insert(self.line(&inner[0]));
				}
			}
		}
		self.stmt(b, masked);
	}
}

pub fn model(forest: &[P], line_of: &[(*const P, usize)]) -> Placement
{
	let mut m = Model { line_of, out: Placement::default() };
	m.block(forest, true, false);
	m.out
}

// ---------------------------------------------------------------------------------------------

pub fn drive(d: &mut Driver)
{
	let quick = d.quick();
	let (nmax, depth) = if quick { (6usize, 4usize) } else { (7, 4) };
	d.bound("statement forms", json!(["{ ... }", "if c S", "if c S else S", "goto end;", "loop;", "x = 1;", "label:"]));
	d.bound("max statements (every if and block counts as one)", json!(nmax));
	d.bound("max nesting depth", json!(depth));
	let mut jobs = Vec::new();
	for n in 0..=nmax
	{
		if n == 0
		{
			jobs.push(json!({"n": 0, "depth": depth, "k": 0, "part": 0, "parts": 1}));
		}
		for k in 1..=n
		{
			let parts = if n >= 6 { 16 } else { 1 };
			for part in 0..parts
			{
				jobs.push(json!({"n": n, "depth": depth, "k": k, "part": part, "parts": parts}));
			}
		}
	}
	jobs.reverse();
	d.phase("statement trees", jobs);
	// slice of larger sizes: else-if chains of two to four conditions (up to 14 statements)
	let nchains = chain_forests().len();
	d.bound("else-if chains", json!({"conditions": "2 to 4", "branch forms": CHAIN_BRANCHES.iter().map(|b| b.0).collect::<Vec<_>>(), "final else": "absent or each branch form", "placements": CHAIN_PLACEMENTS, "bodies": nchains}));
	let jobs: Vec<Value> = (0..nchains).step_by(1500).map(|lo| json!({"chains": true, "lo": lo, "hi": (lo + 1500).min(nchains)})).collect();
	d.phase("else-if chains of every branch form", jobs);
	d.assume("model: the placement rules in engine/src/checks/c06.rs (fn model), transcribed from docs/features.md and docs/errors.md E800/E801/E840/L1800");
	d.assume("what lies inside a branch that is itself rejected with E840 is not required to be reported separately (the compiler does not look inside it)");
}

pub fn encode(f: &[P]) -> Value
{
	Value::Array(
		f.iter()
			.map(|s| match s
			{
				P::Goto => json!("goto"),
				P::Loop => json!("loop"),
				P::Assign => json!("assign"),
				P::Label => json!("label"),
				P::Block(inner) => json!({"block": encode(inner)}),
				P::If(t, e) => json!({"if": encode(std::slice::from_ref(t))[0], "else": e.as_ref().map(|e| encode(std::slice::from_ref(e))[0].clone())}),
			})
			.collect(),
	)
}

pub fn decode(v: &Value) -> Vec<P>
{
	fn one(x: &Value) -> P
	{
		match x
		{
			Value::String(s) => match s.as_str()
			{
				"goto" => P::Goto,
				"loop" => P::Loop,
				"assign" => P::Assign,
				_ => P::Label,
			},
			Value::Object(o) =>
			{
				if let Some(b) = o.get("block")
				{
					P::Block(decode(b))
				}
				else
				{
					let t = one(&o["if"]);
					let e = o.get("else").filter(|e| !e.is_null()).map(|e| Box::new(one(e)));
					P::If(Box::new(t), e)
				}
			}
			_ => P::Assign,
		}
	}
	v.as_array().map(|a| a.iter().map(one).collect()).unwrap_or_default()
}

pub const CHAIN_BRANCHES: [(&str, &str); 8] = [
	("empty block", "{}"),
	("block with an assignment", "{ x = 1; }"),
	("block that starts with loop", "{ loop; }"),
	("block with an assignment and a loop", "{ x = 1; loop; }"),
	("goto without braces", "goto end;"),
	("block with a goto", "{ goto end; }"),
	("assignment without braces", "x = 1;"),
	("block in a block with a loop", "{ { loop; } }"),
];
pub const CHAIN_PLACEMENTS: [&str; 3] = ["statement of the function body", "last statement of a nested block", "first statement of a block that ends in loop"];

fn chain_branch(k: usize) -> P
{
	match k
	{
		0 => P::Block(vec![]),
		1 => P::Block(vec![P::Assign]),
		2 => P::Block(vec![P::Loop]),
		3 => P::Block(vec![P::Assign, P::Loop]),
		4 => P::Goto,
		5 => P::Block(vec![P::Goto]),
		6 => P::Assign,
		_ => P::Block(vec![P::Block(vec![P::Loop])]),
	}
}

/// The bodies of the slice "else-if chains": `if c B1 else if c B2 ... [else Bn]` for every choice
/// of branch forms, in three placements.
pub fn chain_forests() -> Vec<Vec<P>>
{
	let nb = CHAIN_BRANCHES.len();
	let mut chains: Vec<P> = Vec::new();
	for conditions in 2..=4usize
	{
		// branches: `conditions` then-branches and an optional final else
		let total = nb.pow(conditions as u32) * (nb + 1);
		for mut code in 0..total
		{
			let last = code % (nb + 1);
			code /= nb + 1;
			let mut thens = Vec::new();
			for _ in 0..conditions
			{
				thens.push(code % nb);
				code /= nb;
			}
			// in the largest size only chains whose first two branches differ in kind are kept apart
			// from the quick slice by the caller; here: everything
			let mut tail: Option<Box<P>> = if last == nb { None } else { Some(Box::new(chain_branch(last))) };
			for t in thens.iter().rev()
			{
				tail = Some(Box::new(P::If(Box::new(chain_branch(*t)), tail)));
			}
			chains.push(*tail.unwrap());
		}
	}
	let mut out = Vec::new();
	for c in chains
	{
		out.push(vec![c.clone()]);
		out.push(vec![P::Block(vec![P::Assign, c.clone()])]);
		out.push(vec![P::Block(vec![c, P::Loop])]);
	}
	out
}

pub fn work(spec: &Value, w: &mut WorkerCtx)
{
	if spec.get("chains").is_some()
	{
		let all = chain_forests();
		for forest in &all[spec["lo"].as_u64().unwrap() as usize..spec["hi"].as_u64().unwrap() as usize]
		{
			w.result.transitions += 1;
			judge(forest, w);
		}
		return;
	}
	if let Some(case) = spec.get("replay")
	{
		let forest = decode(&case["forest"]);
		judge(&forest, w);
		return;
	}
	let n = spec["n"].as_u64().unwrap() as usize;
	let depth = spec["depth"].as_u64().unwrap() as usize;
	let k = spec["k"].as_u64().unwrap() as usize;
	let mut g = Gen::new();
	let part = spec["part"].as_u64().unwrap_or(0) as usize;
	let parts = spec["parts"].as_u64().unwrap_or(1) as usize;
	g.for_each(n, depth, k, part, parts, &mut |forest| {
		w.result.transitions += 1;
		judge(forest, w);
	});
}

fn judge(forest: &[P], w: &mut WorkerCtx)
{
	w.result.states += 1;
	let (text, line_of) = render(forest);
	let m = model(forest, &line_of);
	let desc = || json!({"forest": encode(forest), "text": text});
	let d = desc().to_string().into_bytes();
	let size = text.lines().count() as u64;
	let outcome = w.run_case(&d, || alpha::compile_one(&text, alpha::FULL));
	match outcome
	{
		CaseOutcome::Done(v) =>
		{
			w.result.validated += 1;
			let mut ok = true;
			let unmasked: Vec<(u16, usize)> = m.flags.iter().filter(|f| !f.2).map(|f| (f.0, f.1)).collect();
			let expect_reject = !m.flags.is_empty();
			match &v
			{
				Verdict::Ok { lints, .. } =>
				{
					if expect_reject
					{
						ok = false;
						let (code, line) = unmasked.first().copied().unwrap_or((m.flags[0].0, m.flags[0].1));
						w.result.violation(&format!("accepted-with-misplaced-statement:E{code}"), size, &desc, || {
							format!("accepted, but the model flags E{code} on line {line} (all flags: {:?})\n{text}", m.flags)
						});
					}
					else
					{
						let got: BTreeSet<usize> = lints.iter().filter(|l| l.code == 1800).map(|l| l.line).collect();
						if got != m.lint_lines
						{
							ok = false;
							let what = if got.len() < m.lint_lines.len() { "missing" } else { "spurious" };
							w.result.violation(&format!("L1800-{what}"), size, &desc, || {
								format!("L1800 lints on lines {got:?}, the model expects them on lines {:?}\n{text}", m.lint_lines)
							});
						}
					}
				}
				Verdict::Rejected { diags, .. } =>
				{
					let codes: Vec<u16> = diags.iter().map(|d| d.code).collect();
					if !expect_reject
					{
						ok = false;
						w.result.violation(&format!("rejected-well-placed-body:E{}", codes.first().copied().unwrap_or(0)), size, &desc, || format!("the model finds every loop and branch well placed, the compiler reports {codes:?}\n{text}"));
					}
					else
					{
						for dg in diags
						{
							if ![800, 801, 840].contains(&dg.code)
							{
								ok = false;
								w.result.violation(&format!("unexpected-code:E{}", dg.code), size, &desc, || format!("codes {codes:?}\n{text}"));
								continue;
							}
							if !m.flags.iter().any(|f| f.0 == dg.code && f.1 == dg.line)
							{
								ok = false;
								w.result.violation(&format!("E{}-on-unflagged-statement", dg.code), size, &desc, || {
									format!("E{} reported on line {}, the model flags {:?}\n{text}", dg.code, dg.line, m.flags)
								});
							}
						}
						for (code, line) in &unmasked
						{
							// A statement flagged for two rules at once (naked non-final loop) needs
							// only one of them.
							let same_line_any = diags.iter().any(|d| d.line == *line);
							if !diags.iter().any(|d| d.code == *code && d.line == *line) && !same_line_any
							{
								ok = false;
								w.result.violation(&format!("missing-E{code}"), size, &desc, || format!("the model flags E{code} on line {line}; reported: {:?}\n{text}", diags.iter().map(|d| (d.code, d.line)).collect::<Vec<_>>()));
							}
							else if !diags.iter().any(|d| d.code == *code && d.line == *line)
							{
								w.result.soft(&format!("E{code} flagged by the model but another code reported on the same line"), || text.clone());
							}
						}
					}
				}
				Verdict::InternalError(e) =>
				{
					ok = false;
					w.result.violation("internal-error", size, &desc, || format!("{e}\n{text}"));
				}
			}
			let mut codes: Vec<u16> = m.flags.iter().filter(|f| !f.2).map(|f| f.0).collect();
			codes.sort();
			codes.dedup();
			let key = format!("model:{}{}", if codes.is_empty() { "well-placed".to_string() } else { format!("{codes:?}") }, if !m.lint_lines.is_empty() && codes.is_empty() { "+L1800" } else { "" });
			w.result.outcome(&if ok { key } else { format!("{key}:MISMATCH") });
			if ok && !m.lint_lines.is_empty() && !expect_reject
			{
				w.result.sample(|| json!({"text": text, "lint_lines": m.lint_lines}));
			}
		}
		CaseOutcome::Panicked { site, message } =>
		{
			w.result.outcome("panicked");
			let sig = format!("panic@{}", crate::util::site_signature(&site, &message));
			w.result.violation(&sig, size, &desc, || format!("panic at {site}: {message}\n{text}"));
		}
		CaseOutcome::Crashed { .. } =>
		{}
	}
}
