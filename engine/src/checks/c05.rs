//! C05 — no variable is used out of scope, shadowed, or with its declaration skipped.
//!
//! All statement forests over {var x, var y, use x, use y, A:, B:, goto A, goto B, if c goto A,
//! if c goto B, loop} with nested blocks up to a size bound (label-illegal bodies are excluded by
//! the C04 model), compiled by the real pipeline and judged against the scoping model.

use crate::driver::Driver;
use crate::model::labels::{self, L};
use crate::model::vars::{self, V};
use crate::pool::{CaseOutcome, WorkerCtx};
use crate::spaces::body::{self, B, BodySpace};
use crate::subjects::alpha::{self, Verdict};
use serde_json::{Value, json};

pub const ATOMS: usize = 11;
pub const VARIANTS: [&str; 5] = ["plain", "x is also a parameter", "x is also a module constant", "behind a function that skips declarations of x and y", "behind function heads whose parameters are named x, y and acc"];

/// The heads in front of the judged function in variant 4: their parameters are no names of the module.
const HEADS: &str = "extern fn put(x: i32, y: i32);\nfn later(acc: i32, x: i32);\n";

/// The function in front of the judged one in variant 3: it jumps over declarations of x and y
/// that it never uses afterwards (valid), and declares the labels A and B.
const OTHER_FUNCTION: &str = "fn other(c: i32)\n{\n\tvar acc: i32 = 0;\n\tif c == 0 goto A;\n\tvar x: i32 = 1;\n\t{\n\t\tvar y: i32 = 2;\n\t\tif c == 1 goto B;\n\t\tacc = x + y;\n\t}\n\tA:\n\tB:\n\tacc = c;\n}\n";

fn atom_text(a: u8) -> &'static str
{
	match a
	{
		0 => "var x: i32 = 1;",
		1 => "var y: i32 = 2;",
		2 => "acc = x;",
		3 => "acc = y;",
		4 => "A:",
		5 => "B:",
		6 => "goto A;",
		7 => "goto B;",
		8 => "if c == 0 goto A;",
		9 => "if c == 0 goto B;",
		10 => "loop;",
		// two more variables, for the slices that need them (not enumerated)
		11 => "var z: i32 = 3;",
		12 => "var w: i32 = 4;",
		13 => "acc = z;",
		_ => "acc = w;",
	}
}

pub fn render(variant: usize, forest: &[B]) -> (String, Vec<usize>)
{
	let mut lines = Vec::new();
	let mut atom_lines = Vec::new();
	body::render_lines(forest, &|a| atom_text(a).to_string(), 1, &mut lines, &mut atom_lines);
	let mut text = String::new();
	let mut first_body_line = 4;
	if variant == 2
	{
		text.push_str("const x: i32 = 7;\n");
		first_body_line += 1;
	}
	if variant == 3
	{
		text.push_str(OTHER_FUNCTION);
		first_body_line += OTHER_FUNCTION.lines().count();
	}
	if variant == 4
	{
		text.push_str(HEADS);
		first_body_line += HEADS.lines().count();
	}
	if variant == 1
	{
		text.push_str("fn f(c: i32, x: i32)\n{\n\tvar acc: i32 = 0;\n");
	}
	else
	{
		text.push_str("fn f(c: i32)\n{\n\tvar acc: i32 = 0;\n");
	}
	for l in &lines
	{
		text.push_str(l);
		text.push('\n');
	}
	text.push_str("}\n");
	(text, atom_lines.iter().map(|l| l + first_body_line).collect())
}

fn to_models(forest: &[B], next_id: &mut usize) -> (Vec<V>, Vec<L>)
{
	let mut vs = Vec::new();
	let mut ls = Vec::new();
	for s in forest
	{
		match s
		{
			B::Atom(a) =>
			{
				let id = *next_id;
				*next_id += 1;
				let (v, l) = match a
				{
					0 => (V::Decl(0, id), L::Other),
					1 => (V::Decl(1, id), L::Other),
					2 => (V::Use(0, id), L::Other),
					3 => (V::Use(1, id), L::Other),
					4 => (V::Label(0, id), L::Label(0, id)),
					5 => (V::Label(1, id), L::Label(1, id)),
					6 => (V::Goto(0, id, false), L::Goto(0, id)),
					7 => (V::Goto(1, id, false), L::Goto(1, id)),
					8 => (V::Goto(0, id, true), L::Goto(0, id)),
					9 => (V::Goto(1, id, true), L::Goto(1, id)),
					10 => (V::Loop(id), L::Other),
					11 => (V::Decl(2, id), L::Other),
					12 => (V::Decl(3, id), L::Other),
					13 => (V::Use(2, id), L::Other),
					_ => (V::Use(3, id), L::Other),
				};
				vs.push(v);
				ls.push(l);
			}
			B::Block(inner) =>
			{
				let (v, l) = to_models(inner, next_id);
				vs.push(V::Block(v));
				ls.push(L::Block(l));
			}
		}
	}
	(vs, ls)
}

/// `loop` only as the last statement of a nested block (placement is C06's subject).
fn loops_well_placed(forest: &[B], is_function_body: bool) -> bool
{
	for (i, s) in forest.iter().enumerate()
	{
		match s
		{
			B::Atom(10) =>
			{
				if is_function_body || i + 1 != forest.len()
				{
					return false;
				}
			}
			B::Block(inner) =>
			{
				if !loops_well_placed(inner, false)
				{
					return false;
				}
			}
			_ =>
			{}
		}
	}
	true
}

pub fn drive(d: &mut Driver)
{
	let quick = d.quick();
	let plan: Vec<(usize, usize, usize)> = if quick { vec![(0, 6, 3), (1, 5, 3), (2, 5, 3), (3, 5, 3), (4, 4, 3)] } else { vec![(0, 7, 3), (1, 6, 3), (2, 6, 3), (3, 6, 3), (4, 5, 3)] };
	d.bound("atoms", json!((0..ATOMS as u8).map(atom_text).collect::<Vec<_>>()));
	d.bound("variants (max statements, block nesting depth)", json!(plan.iter().map(|(v, n, dep)| json!({"variant": VARIANTS[*v], "max_statements": n, "depth": dep})).collect::<Vec<_>>()));
	d.bound("excluded by construction", json!("bodies with a label error according to the C04 model, and bodies with a misplaced loop"));
	d.bound("symmetry reduction", json!("up to renaming x<->y (variant 0 only) and A<->B"));
	let space = BodySpace::new(ATOMS);
	let mut jobs = Vec::new();
	for (variant, nmax, depth) in &plan
	{
		for n in 0..=*nmax
		{
			for first in space.first_choices(n, *depth)
			{
				jobs.push(json!({"variant": variant, "n": n, "depth": depth, "first": first}));
			}
		}
	}
	jobs.reverse();
	d.phase("declaration/use/label/goto bodies", jobs);
	d.bound("use forms", json!({"skeletons": USE_SKELETONS.iter().map(|s| s.0).collect::<Vec<_>>(), "forms": USE_FORMS.iter().map(|f| f.0).collect::<Vec<_>>()}));
	d.phase("every form of use in every scoping skeleton", vec![json!({"use_forms": true})]);
	// slice of the next size: every arrangement of two gotos, two labels, two declarations and
	// one use in one block (seven statements; the thorough tier has all bodies of that size)
	let jobs: Vec<Value> = (0..16).map(|k| json!({"overlap": k})).collect();
	d.bound("seven-statement slice", json!("all arrangements of {goto A | if c goto A, goto B | if c goto B, var x, var y, A:, B:, use of x | use of y} in one block"));
	d.phase("two gotos, two labels, two declarations, one use: all arrangements", jobs);
	// slice of larger sizes: two or three gotos to one label from different scopes. A goto site is a
	// (conditional) goto at the top level or inside one or two nested blocks behind up to two local
	// declarations; up to two declarations stand before the first site and between the sites; after
	// the label each variable of the top level is used in turn.
	let nsites = site_forests().len();
	d.bound("gotos to one label from different scopes", json!({"sites": "2 or 3", "site": "goto A | if c goto A, at depth 0, 1 or 2, behind 0-2 local declarations (z, w)", "declarations before and between the sites": "0-2 in total (x, y)", "after the label": "a use of x, of y, or of a local of a closed block", "bodies": nsites}));
	let jobs: Vec<Value> = (0..nsites).step_by(400).map(|lo| json!({"sites": true, "lo": lo, "hi": (lo + 400).min(nsites)})).collect();
	d.phase("gotos to one label from different scopes", jobs);
	d.assume("model: engine/src/model/vars.rs — lexical scoping, the documented prune rule of docs/features.md, and an independent path analysis on the syntactic control-flow graph used one-directionally (accepted implies sound)");
	d.assume("a variable name with a duplicate declaration is judged for E422 only; which declaration later uses bind to is not documented");
}

/// Scoping skeletons: (name, body with {DECL} and {USE}, expected code; 0 = accepted)
pub const USE_SKELETONS: [(&str, &str, u16); 7] = [
	("declared before the use", "\t{DECL}\n\t{USE}\n", 0),
	("never declared", "\t{USE}\n", 402),
	("declared in a block that has ended", "\t{\n\t\t{DECL}\n\t}\n\t{USE}\n", 402),
	("declared after the use", "\t{USE}\n\t{DECL}\n", 402),
	("declaration skipped by a goto", "\tgoto after;\n\t{DECL}\n\tafter:\n\t{USE}\n", 482),
	("declaration skipped by a conditional goto, use in a nested block", "\tif c == 0\n\t\tgoto after;\n\t{DECL}\n\tafter:\n\t{\n\t\t{\n\t\t\t{USE}\n\t\t}\n\t}\n", 482),
	("declared before a goto that skips nothing", "\t{DECL}\n\tgoto after;\n\tafter:\n\t{USE}\n", 0),
];

/// Forms of use of the variable `x`: (name, declaration of x, statement using x)
pub const USE_FORMS: [(&str, &str, &str); 14] = [
	("plain value", "var x: i32 = 1;", "y = x;"),
	("operand", "var x: i32 = 1;", "y = x + 1;"),
	("negation", "var x: i32 = 1;", "y = -x;"),
	("condition", "var x: i32 = 1;", "if x == 1\n\t{\n\t\ty = 2;\n\t}"),
	("argument of a builtin", "var x: i32 = 1;", "print!(x);"),
	("argument of a call", "var x: i32 = 1;", "helper(x);"),
	("array index", "var x: usize = 1;", "y = arr[x];"),
	("length-of", "var x: [2]i32 = [1, 2];", "n = |x|;"),
	("address-of", "var x: i32 = 1;", "var p: &i32 = &x;"),
	("member value of a structure literal", "var x: i32 = 1;", "var s: S = S { m: x };"),
	("element of an array literal", "var x: i32 = 1;", "var z: [2]i32 = [x, 1];"),
	("assignment target", "var x: i32 = 1;", "x = 5;"),
	("indexed assignment target", "var x: [2]i32 = [1, 2];", "x[0] = 5;"),
	("cast operand", "var x: i32 = 1;", "var w: i64 = x as i64;"),
];

fn use_forms(w: &mut WorkerCtx)
{
	for (sname, skeleton, code) in USE_SKELETONS
	{
		for (fname, decl, usage) in USE_FORMS
		{
			w.result.states += 1;
			w.result.transitions += 1;
			let body = skeleton.replace("{DECL}", decl).replace("{USE}", usage);
			let text = format!("struct S\n{{\n\tm: i32,\n}}\nfn helper(v: i32)\n{{\n}}\nfn f(c: i32)\n{{\n\tvar y: i32 = 0;\n\tvar n: usize = 0;\n\tvar arr: [3]i32 = [1, 2, 3];\n{body}}}\n");
			let desc = || json!({"use_forms": true, "skeleton": sname, "form": fname, "text": text, "sig_hint": "use forms"});
			let d = desc().to_string().into_bytes();
			let src = text.clone();
			match w.run_case(&d, || alpha::compile_one(&src, alpha::FULL))
			{
				CaseOutcome::Done(v) =>
				{
					w.result.validated += 1;
					let codes = v.codes();
					let ok = match (&v, code)
					{
						(Verdict::Ok { .. }, 0) => true,
						(Verdict::Rejected { .. }, c) if c != 0 => codes.contains(&c),
						_ => false,
					};
					w.result.outcome(&format!("use forms:{}{}", if code == 0 { "accepted".to_string() } else { format!("E{code}") }, if ok { "" } else { ":MISMATCH" }));
					if !ok
					{
						let what = match (&v, code)
						{
							(Verdict::Ok { .. }, c) => format!("accepted-without-E{c}"),
							(Verdict::Rejected { .. }, 0) => format!("well-scoped-body-rejected:E{}", codes.first().copied().unwrap_or(0)),
							(Verdict::Rejected { .. }, c) => format!("rejected-without-E{c}:E{}", codes.first().copied().unwrap_or(0)),
							(Verdict::InternalError(_), _) => "internal-error".to_string(),
						};
						w.result.violation(&format!("use-form:{what}:{fname}"), text.len() as u64, &desc, || format!("{sname}, use as {fname}: expected {}, the compiler says {:?} {codes:?}\n{text}", if code == 0 { "acceptance".to_string() } else { format!("E{code}") }, v.accepted()));
					}
				}
				CaseOutcome::Panicked { site, message } =>
				{
					let sig = format!("panic@{}", crate::util::site_signature(&site, &message));
					w.result.violation(&sig, text.len() as u64, &desc, || format!("{sname}, use as {fname}: panic at {site}: {message}\n{text}"));
				}
				CaseOutcome::Crashed { .. } =>
				{}
			}
		}
	}
}

/// The bodies of the slice "gotos to one label from different scopes".
pub fn site_forests() -> Vec<Vec<B>>
{
	// a site: (depth 0..=2, locals 0..=2, conditional)
	let mut sites: Vec<(usize, usize, bool)> = Vec::new();
	for conditional in [false, true]
	{
		sites.push((0, 0, conditional));
		for depth in 1..=2
		{
			for locals in 0..=2
			{
				sites.push((depth, locals, conditional));
			}
		}
	}
	let site_forest = |(depth, locals, conditional): (usize, usize, bool)| -> B {
		let goto = B::Atom(if conditional { 8 } else { 6 });
		if depth == 0
		{
			return goto;
		}
		let mut inner: Vec<B> = Vec::new();
		if locals >= 1
		{
			inner.push(B::Atom(11));
		}
		if locals >= 2
		{
			inner.push(B::Atom(12));
		}
		inner.push(goto);
		let mut b = B::Block(inner);
		for _ in 1..depth
		{
			b = B::Block(vec![b]);
		}
		b
	};
	// where the top-level declarations x and y stand: gap index per declaration (gap g = in front of site g)
	let mut out = Vec::new();
	for nsites in 2..=3usize
	{
		let mut choice = vec![0usize; nsites];
		loop
		{
			// placements of up to two declarations (x then y) into the gaps 0..nsites (gap nsites = between the last site and the label)
			let mut placements: Vec<Vec<usize>> = vec![vec![]];
			for gx in 0..=nsites
			{
				placements.push(vec![gx]);
				for gy in gx..=nsites
				{
					placements.push(vec![gx, gy]);
				}
			}
			for placement in &placements
			{
				let mut uses: Vec<u8> = vec![];
				if !placement.is_empty()
				{
					uses.push(2);
				}
				if placement.len() == 2
				{
					uses.push(3);
				}
				// a local of a block that has ended is out of scope anyway (E402): one representative
				uses.push(13);
				for used in uses
				{
					let mut forest: Vec<B> = Vec::new();
					for g in 0..=nsites
					{
						for (k, gap) in placement.iter().enumerate()
						{
							if *gap == g
							{
								forest.push(B::Atom(k as u8));
							}
						}
						if g < nsites
						{
							forest.push(site_forest(sites[choice[g]]));
						}
					}
					forest.push(B::Atom(4));
					forest.push(B::Atom(used));
					out.push(forest);
				}
			}
			// next combination of sites
			let mut k = 0;
			loop
			{
				if k == nsites
				{
					break;
				}
				choice[k] += 1;
				if choice[k] < sites.len()
				{
					break;
				}
				choice[k] = 0;
				k += 1;
			}
			if k == nsites
			{
				break;
			}
		}
	}
	out
}

pub fn work(spec: &Value, w: &mut WorkerCtx)
{
	if spec.get("sites").is_some()
	{
		let all = site_forests();
		for forest in &all[spec["lo"].as_u64().unwrap() as usize..spec["hi"].as_u64().unwrap() as usize]
		{
			w.result.transitions += 1;
			judge(0, forest, w);
		}
		return;
	}
	if let Some(k) = spec.get("overlap").and_then(|k| k.as_u64())
	{
		// k selects plain / conditional gotos and the used variable and one of two halves
		let goto_a = if k & 1 == 0 { 6u8 } else { 8 };
		let goto_b = if k & 2 == 0 { 7u8 } else { 9 };
		let used = if k & 4 == 0 { 2u8 } else { 3 };
		let half = (k >> 3) & 1;
		let atoms = [goto_a, goto_b, 0u8, 1, 4, 5, used];
		for (pi, perm) in crate::util::permutations(7).into_iter().enumerate()
		{
			if pi as u64 % 2 != half
			{
				continue;
			}
			let forest: Vec<B> = perm.iter().map(|i| B::Atom(atoms[*i])).collect();
			w.result.transitions += 1;
			judge(0, &forest, w);
		}
		return;
	}
	if spec.get("use_forms").is_some() || spec.get("replay").map(|c| c.get("use_forms").is_some()).unwrap_or(false)
	{
		use_forms(w);
		return;
	}
	if let Some(case) = spec.get("replay")
	{
		let variant = case["variant"].as_u64().unwrap() as usize;
		let forest = crate::checks::c04::decode_forest(&case["forest"]);
		judge(variant, &forest, w);
		return;
	}
	let variant = spec["variant"].as_u64().unwrap() as usize;
	let n = spec["n"].as_u64().unwrap() as usize;
	let depth = spec["depth"].as_u64().unwrap() as usize;
	let first = spec["first"].as_str().unwrap().to_string();
	let mut space = BodySpace::new(ATOMS);
	let mut order = Vec::new();
	space.for_each(n, depth, &first, &mut |forest| {
		w.result.transitions += 1;
		order.clear();
		body::atoms_in_order(forest, &mut order);
		// symmetry: first label mention is A; first variable mention is x (variant 0)
		if let Some(a) = order.iter().find(|a| (4..=9).contains(*a))
		{
			if a % 2 == 1
			{
				return;
			}
		}
		if variant == 0
		{
			if let Some(a) = order.iter().find(|a| **a <= 3)
			{
				if a % 2 == 1
				{
					return;
				}
			}
		}
		if !loops_well_placed(forest, true)
		{
			return;
		}
		judge(variant, forest, w);
	});
}

fn judge(variant: usize, forest: &[B], w: &mut WorkerCtx)
{
	let mut next_id = 0;
	let (vbody, lbody) = to_models(forest, &mut next_id);
	let lv = labels::judge(&lbody, &[]);
	if !lv.illegal_gotos.is_empty() || !lv.clashing_labels.is_empty()
	{
		w.result.count("excluded: label error (C04 model)", 1);
		return;
	}
	w.result.states += 1;
	let (text, atom_lines) = render(variant, forest);
	let outer: Vec<usize> = if variant == 0 || variant >= 3 { vec![] } else { vec![0] };
	let m = vars::judge(&vbody, &outer);
	let desc = || json!({"variant": variant, "forest": crate::checks::c04::encode_forest(forest), "text": text});
	let d = desc().to_string().into_bytes();
	let size = next_id as u64;
	let outcome = w.run_case(&d, || alpha::compile_one(&text, alpha::FULL));
	match outcome
	{
		CaseOutcome::Done(v) =>
		{
			w.result.validated += 1;
			let line = |id: &usize| atom_lines[*id];
			let undefined: Vec<usize> = m.undefined_uses.iter().map(line).collect();
			let duplicates: Vec<usize> = m.duplicate_decls.iter().map(line).collect();
			let skipped: Vec<usize> = m.skipped_uses.iter().map(line).collect();
			let expect_reject = !undefined.is_empty() || !duplicates.is_empty() || !skipped.is_empty();
			let mut ok = true;
			match &v
			{
				Verdict::Ok { .. } =>
				{
					if expect_reject
					{
						ok = false;
						let what = if !undefined.is_empty() { "undefined-use(E402)" } else if !duplicates.is_empty() { "duplicate-declaration(E422)" } else { "skipped-declaration(E482)" };
						w.result.violation(&format!("accepted-with-{what}:{}", VARIANTS[variant]), size, &desc, || {
							format!("accepted, but the model finds undefined uses on lines {undefined:?}, duplicate declarations on lines {duplicates:?}, uses after a skipped declaration on lines {skipped:?}\n{text}")
						});
					}
					else if !m.path_unsound_uses.is_empty()
					{
						// one-directional soundness: an accepted program must have no path to a use
						// that avoids the declaration
						ok = false;
						let lines: Vec<usize> = m.path_unsound_uses.iter().map(line).collect();
						w.result.violation("accepted-but-a-path-skips-a-declaration", size, &desc, || format!("accepted, but a control-flow path reaches the use on lines {lines:?} without passing its declaration\n{text}"));
					}
				}
				Verdict::Rejected { diags, .. } =>
				{
					let codes: Vec<u16> = diags.iter().map(|d| d.code).collect();
					if !expect_reject
					{
						ok = false;
						w.result.violation(&format!("rejected-well-scoped-body:E{}", codes.first().copied().unwrap_or(0)), size, &desc, || format!("the model finds no scoping violation, the compiler reports {codes:?}\n{text}"));
					}
					else
					{
						for dg in diags
						{
							match dg.code
							{
								402 =>
								{
									if !undefined.contains(&dg.line)
									{
										ok = false;
										w.result.violation("E402-on-defined-use", size, &desc, || format!("E402 on line {}, model: undefined uses on {undefined:?}\n{text}", dg.line));
									}
								}
								422 | 424 =>
								{
									if !duplicates.contains(&dg.line)
									{
										ok = false;
										w.result.violation(&format!("E{}-on-unique-declaration", dg.code), size, &desc, || format!("E{} on line {}, model: duplicates on {duplicates:?}\n{text}", dg.code, dg.line));
									}
								}
								482 =>
								{
									if !skipped.contains(&dg.line)
									{
										// uses of a name with duplicate declarations are not judged
										let is_dup_name = m.duplicate_names.iter().any(|n| {
											// any use line of that name
											forest_use_lines(forest, *n, &atom_lines).contains(&dg.line)
										});
										if !is_dup_name
										{
											ok = false;
											w.result.violation("E482-on-use-whose-declaration-cannot-be-skipped", size, &desc, || format!("E482 on line {}, model: skipped uses on {skipped:?}\n{text}", dg.line));
										}
									}
								}
								other =>
								{
									ok = false;
									w.result.violation(&format!("unexpected-code:E{other}"), size, &desc, || format!("codes {codes:?}\n{text}"));
								}
							}
						}
						if !undefined.is_empty() && !codes.contains(&402)
						{
							ok = false;
							w.result.violation("undefined-use-without-E402", size, &desc, || format!("model: undefined uses on {undefined:?}; codes {codes:?}\n{text}"));
						}
						if !duplicates.is_empty() && !codes.iter().any(|c| *c == 422 || *c == 424)
						{
							ok = false;
							w.result.violation("duplicate-declaration-without-E422", size, &desc, || format!("model: duplicates on {duplicates:?}; codes {codes:?}\n{text}"));
						}
						if !skipped.is_empty() && !codes.contains(&482)
						{
							ok = false;
							w.result.violation("skipped-declaration-without-E482", size, &desc, || format!("model: uses after a skipped declaration on {skipped:?}; codes {codes:?}\n{text}"));
						}
						let n482 = codes.iter().filter(|c| **c == 482).count();
						if n482 != m.skipped_names.len()
						{
							w.result.soft("number of E482 differs from number of skipped variables", || text.clone());
						}
					}
				}
				Verdict::InternalError(e) =>
				{
					ok = false;
					w.result.violation("internal-error", size, &desc, || format!("{e}\n{text}"));
				}
			}
			// The path analysis may find skips the documented rule does not (or the reverse);
			// that is a property of the two models, recorded softly.
			if expect_reject == false && !m.path_unsound_uses.is_empty()
			{
				w.result.soft("documented prune rule accepts a body in which a path skips a declaration", || text.clone());
			}
			if !m.skipped_uses.is_empty() && m.path_unsound_uses.is_empty()
			{
				w.result.soft("documented prune rule rejects a body in which no (live) path skips the declaration", || text.clone());
			}
			let key = format!(
				"{}{}{}{}",
				if v.accepted() { "accepted" } else { "rejected" },
				if !undefined.is_empty() { "+E402" } else { "" },
				if !duplicates.is_empty() { "+E422" } else { "" },
				if !skipped.is_empty() { "+E482" } else { "" }
			);
			w.result.outcome(&if ok { key } else { format!("{key}:MISMATCH") });
			if ok && !skipped.is_empty() && next_id >= 4
			{
				w.result.sample(|| json!({"text": text, "codes": v.codes(), "model_skipped_use_lines": skipped}));
			}
		}
		CaseOutcome::Panicked { site, message } =>
		{
			w.result.outcome("panicked");
			let sig = format!("panic@{}", crate::util::site_signature(&site, &message));
			w.result.violation(&sig, size, &desc, || format!("panic at {site}: {message}\n{text}"));
		}
		CaseOutcome::Crashed { .. } =>
		{}
	}
}

fn forest_use_lines(forest: &[B], name: usize, atom_lines: &[usize]) -> Vec<usize>
{
	let mut order = Vec::new();
	body::atoms_in_order(forest, &mut order);
	order.iter().enumerate().filter(|(_, a)| **a as usize == 2 + name).map(|(i, _)| atom_lines[i]).collect()
}
