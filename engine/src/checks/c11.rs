//! C11 — top-level declarations are order-independent and must be well-formed.
//!
//! (a) all labelled dependency digraphs on up to 3 (quick) / 4 (thorough) containers (constants
//!     and structures), every assignment of kinds, every permutation of the declarations:
//!     acyclic <=> accepted, cycles give E413 / E415 / E416, all permutations agree;
//! (b) duplicate names of every kind; (c) type legality per position from the documented rules,
//!     every type x position under all declaration orders; (d) word sizes.

use crate::driver::Driver;
use crate::pool::{CaseOutcome, WorkerCtx};
use crate::subjects::alpha::{self, Verdict};
use crate::util::permutations;
use serde_json::{Value, json};

#[derive(Debug, Clone, Copy, PartialEq, Eq)]
pub enum Kind
{
	Const,
	Struct,
}

/// Edge label between containers: 0 none, 1 real containment, 2 through a pointer (does not count).
pub fn graph_program(kinds: &[Kind], edges: &[Vec<u8>], order: &[usize]) -> String
{
	let decls = graph_decls(kinds, edges);
	let mut text = String::new();
	for i in order
	{
		text.push_str(&decls[*i]);
	}
	text
}

/// Declarations that have nothing to do with the containers of a graph program: each is valid on
/// its own and uses names of its own. Placed between the declarations of a graph program they must
/// not change its verdict (no state of the compiler may leak from one declaration into the next).
pub const BYSTANDERS: [(&str, &str); 9] = [
	("function with a slice pointer parameter", "fn by0(p: &[]u8)\n{\n}\n"),
	("function with a pointer parameter", "fn by1(p: &i32)\n{\n}\n"),
	("structure with a pointer member", "struct By2\n{\n\tp: &i32,\n}\n"),
	("constant holding the size of a pointer", "const BY3: usize = |:&i32|;\n"),
	("function measuring a local array", "fn by4()\n{\n\tvar v: [2]i32 = [1, 2];\n\tvar n: usize = |v|;\n}\n"),
	("opaque structure", "struct By5;\n"),
	("word", "word32 By6\n{\n\ta: i32,\n}\n"),
	("external head with a slice pointer parameter", "extern fn by7(p: &[]u8);\n"),
	("function with a view parameter and a structure literal", "struct By8\n{\n\ta: i32,\n}\nfn by8(v: []i32) -> i32\n{\n\tvar s: By8 = By8 { a: 1 };\n\treturn: s.a\n}\n"),
];

/// The graph program with a bystander declaration in front of the `at`-th declaration of the order.
pub fn graph_program_with_bystander(kinds: &[Kind], edges: &[Vec<u8>], order: &[usize], bystander: usize, at: usize) -> String
{
	let decls = graph_decls(kinds, edges);
	let mut text = String::new();
	for (k, i) in order.iter().enumerate()
	{
		if k == at
		{
			text.push_str(BYSTANDERS[bystander].1);
		}
		text.push_str(&decls[*i]);
	}
	if at >= order.len()
	{
		text.push_str(BYSTANDERS[bystander].1);
	}
	text
}

/// The declarations of a graph program: one per container, then `main`.
pub fn graph_decls(kinds: &[Kind], edges: &[Vec<u8>]) -> Vec<String>
{
	let n = kinds.len();
	let name = |i: usize| match kinds[i]
	{
		Kind::Const => format!("C{i}"),
		Kind::Struct => format!("S{i}"),
	};
	let mut decls: Vec<String> = Vec::new();
	for u in 0..n
	{
		match kinds[u]
		{
			Kind::Const =>
			{
				let mut terms = vec!["1".to_string()];
				for v in 0..n
				{
					if edges[u][v] == 1
					{
						terms.push(match kinds[v]
						{
							Kind::Const => name(v),
							Kind::Struct => format!("|:{}|", name(v)),
						});
					}
				}
				decls.push(format!("const {}: usize = {};\n", name(u), terms.join(" + ")));
			}
			Kind::Struct =>
			{
				let mut members = vec!["\tbase: u8,\n".to_string()];
				for v in 0..n
				{
					match (edges[u][v], kinds[v])
					{
						(1, Kind::Struct) => members.push(format!("\tm{v}: {},\n", name(v))),
						(1, Kind::Const) => members.push(format!("\tm{v}: [{}]u8,\n", name(v))),
						(2, Kind::Struct) => members.push(format!("\tp{v}: &{},\n", name(v))),
						_ =>
						{}
					}
				}
				decls.push(format!("struct {}\n{{\n{}}}\n", name(u), members.concat()));
			}
		}
	}
	// next to main: the size of every structure as a constant (the value-level oracle reads the
	// constants of an accepted program from its IR)
	let mut last = String::new();
	for u in 0..n
	{
		if kinds[u] == Kind::Struct
		{
			last.push_str(&format!("const Z{u}: usize = |:{}|;\n", name(u)));
		}
	}
	// ... and every constant as the length of a local array of bytes: a second way to observe the
	// values (the element count of the array type in the IR), should the IR not state the constants
	last.push_str("fn main() -> i32\n{\n");
	for u in 0..n
	{
		let c = if kinds[u] == Kind::Struct { format!("Z{u}") } else { format!("C{u}") };
		last.push_str(&format!("\tvar len_{c}: [{c}]u8;\n"));
	}
	last.push_str("\treturn: 0\n}\n");
	decls.push(last);
	decls
}

/// The lengths of the byte arrays allocated in `main`, in order.
fn byte_array_lengths_in_main(ir: &str) -> Vec<u64>
{
	let mut out = Vec::new();
	let mut in_main = false;
	for line in ir.lines()
	{
		if line.starts_with("define ")
		{
			in_main = line.contains("@main(");
		}
		if in_main
		{
			if let Some(i) = line.find("alloca [")
			{
				let rest = &line[i + 8..];
				if let Some((n, tail)) = rest.split_once(" x ")
				{
					if tail.starts_with("i8]")
					{
						if let Ok(v) = n.parse::<u64>()
						{
							out.push(v);
						}
					}
				}
			}
		}
	}
	out
}

/// The values the documented semantics give the constants of an acyclic graph program: C_u = 1 +
/// the constants and structure sizes it names; Z_u = |:S_u|; a structure is laid out with natural
/// alignment (u8 members and arrays of u8: 1; pointers: 8 bytes).
pub fn graph_values(kinds: &[Kind], edges: &[Vec<u8>]) -> std::collections::BTreeMap<String, u64>
{
	let n = kinds.len();
	fn eval(u: usize, kinds: &[Kind], edges: &[Vec<u8>], memo: &mut Vec<Option<(u64, u64)>>) -> (u64, u64)
	{
		if let Some(v) = memo[u]
		{
			return v;
		}
		let n = kinds.len();
		let r = match kinds[u]
		{
			Kind::Const =>
			{
				let mut value = 1;
				for v in 0..n
				{
					if edges[u][v] == 1
					{
						value += eval(v, kinds, edges, memo).0;
					}
				}
				(value, 8)
			}
			Kind::Struct =>
			{
				let (mut size, mut align) = (1u64, 1u64);
				for v in 0..n
				{
					let (msize, malign) = match (edges[u][v], kinds[v])
					{
						(1, Kind::Struct) => eval(v, kinds, edges, memo),
						(1, Kind::Const) => (eval(v, kinds, edges, memo).0, 1),
						(2, Kind::Struct) => (8, 8),
						_ => continue,
					};
					size = (size + malign - 1) / malign * malign + msize;
					align = align.max(malign);
				}
				((size + align - 1) / align * align, align)
			}
		};
		memo[u] = Some(r);
		r
	}
	let mut memo = vec![None; n];
	let mut out = std::collections::BTreeMap::new();
	for u in 0..n
	{
		let (value, _) = eval(u, kinds, edges, &mut memo);
		match kinds[u]
		{
			Kind::Const => out.insert(format!("C{u}"), value),
			Kind::Struct => out.insert(format!("Z{u}"), value),
		};
	}
	out
}

/// The usize constants of a module as its IR states them.
fn constants_in_ir(ir: &str) -> std::collections::BTreeMap<String, u64>
{
	let mut out = std::collections::BTreeMap::new();
	for line in ir.lines()
	{
		let Some(rest) = line.strip_prefix('@')
		else
		{
			continue;
		};
		let Some((name, tail)) = rest.split_once(" = ")
		else
		{
			continue;
		};
		// `@C0 = private unnamed_addr constant i64 3`: any linkage and attribute words, `constant` or
		// `global`, any integer type, then the value
		let words: Vec<&str> = tail.split_whitespace().collect();
		if let Some(k) = words.iter().position(|w| *w == "constant" || *w == "global")
		{
			if let (Some(ty), Some(value)) = (words.get(k + 1), words.get(k + 2))
			{
				if ty.starts_with('i') && ty[1..].chars().all(|c| c.is_ascii_digit())
				{
					if let Ok(v) = value.trim_end_matches(',').parse::<u64>()
					{
						out.insert(name.trim_matches('"').to_string(), v);
					}
				}
			}
		}
	}
	out
}

/// Which cycle codes the model expects: empty = acyclic (must be accepted).
pub fn cycle_codes(kinds: &[Kind], edges: &[Vec<u8>]) -> Vec<u16>
{
	let n = kinds.len();
	// reachability over real edges
	let mut reach = vec![vec![false; n]; n];
	for u in 0..n
	{
		for v in 0..n
		{
			reach[u][v] = edges[u][v] == 1;
		}
	}
	for k in 0..n
	{
		for i in 0..n
		{
			for j in 0..n
			{
				if reach[i][k] && reach[k][j]
				{
					reach[i][j] = true;
				}
			}
		}
	}
	let on_cycle: Vec<usize> = (0..n).filter(|i| reach[*i][*i]).collect();
	if on_cycle.is_empty()
	{
		return Vec::new();
	}
	// A cycle is a strongly connected set; classify each cyclic component by the kinds on it.
	let mut codes = Vec::new();
	let mut seen = vec![false; n];
	for &i in &on_cycle
	{
		if seen[i]
		{
			continue;
		}
		let comp: Vec<usize> = on_cycle.iter().copied().filter(|j| *j == i || (reach[i][*j] && reach[*j][i])).collect();
		for j in &comp
		{
			seen[*j] = true;
		}
		let has_const = comp.iter().any(|j| kinds[*j] == Kind::Const);
		let has_struct = comp.iter().any(|j| kinds[*j] == Kind::Struct);
		codes.push(match (has_const, has_struct)
		{
			(true, false) => 413,
			(false, true) => 415,
			_ => 416,
		});
	}
	codes.sort();
	codes.dedup();
	codes
}

pub fn decode_graph(n: usize, mut code: u64, with_pointer_edges: bool, kinds: &[Kind]) -> Vec<Vec<u8>>
{
	let mut edges = vec![vec![0u8; n]; n];
	for u in 0..n
	{
		for v in 0..n
		{
			let options = if with_pointer_edges && kinds[u] == Kind::Struct && kinds[v] == Kind::Struct { 3 } else { 2 };
			edges[u][v] = (code % options) as u8;
			code /= options;
		}
	}
	edges
}

pub fn graph_count(n: usize, with_pointer_edges: bool, kinds: &[Kind]) -> u64
{
	let mut c = 1u64;
	for u in 0..n
	{
		for v in 0..n
		{
			c *= if with_pointer_edges && kinds[u] == Kind::Struct && kinds[v] == Kind::Struct { 3 } else { 2 };
		}
	}
	c
}

pub fn kinds_of(n: usize, mask: usize) -> Vec<Kind>
{
	(0..n).map(|i| if (mask >> i) & 1 == 0 { Kind::Const } else { Kind::Struct }).collect()
}

pub fn drive(d: &mut Driver)
{
	let quick = d.quick();
	let mut jobs = Vec::new();
	// n <= 3 with pointer edges and self loops; n = 4 (thorough) without pointer edges
	let sizes: Vec<(usize, bool)> = if quick { vec![(1, true), (2, true), (3, false)] } else { vec![(1, true), (2, true), (3, true), (4, false)] };
	d.bound("dependency graphs: (containers, pointer edges included)", json!(sizes));
	d.bound("per graph", json!("every assignment of {constant, structure} to the containers, every edge set (self-loops included), every permutation of the declarations (plus main)"));
	for (n, ptr) in &sizes
	{
		for mask in 0..(1usize << n)
		{
			let kinds = kinds_of(*n, mask);
			let count = graph_count(*n, *ptr, &kinds);
			let chunk = 2048u64;
			let mut lo = 0;
			while lo < count
			{
				jobs.push(json!({"space": "graphs", "n": n, "mask": mask, "ptr": ptr, "lo": lo, "hi": (lo + chunk).min(count)}));
				lo += chunk;
			}
		}
	}
	if quick
	{
		// slice of the thorough tier's n = 4 space: long cycles and bystanders need four containers
		d.bound("sparse graphs on 4 containers (quick only; the thorough tier has all graphs on 4)", json!({"real edges": "at most 5, no self-loops", "kind assignments": 16, "orders": "all 24 orders of the containers, main last"}));
		for mask in 0..16usize
		{
			jobs.push(json!({"space": "sparse4", "mask": mask}));
		}
	}
	d.phase("dependency graphs x permutations", jobs);
	// bystanders: unrelated declarations between the declarations of every graph program
	let by_sizes: Vec<(usize, bool)> = if quick { vec![(1, true), (2, true)] } else { vec![(1, true), (2, true), (3, false)] };
	d.bound("graphs with bystanders: (containers, pointer edges included)", json!(by_sizes));
	d.bound("bystander declarations (each in front of every declaration and at the end, in every order)", json!(BYSTANDERS.iter().map(|b| b.0).collect::<Vec<_>>()));
	let mut jobs = Vec::new();
	for (n, ptr) in &by_sizes
	{
		for mask in 0..(1usize << n)
		{
			let kinds = kinds_of(*n, mask);
			let count = graph_count(*n, *ptr, &kinds);
			let chunk = if *n >= 3 { 8u64 } else { 16 };
			let mut lo = 0;
			while lo < count
			{
				jobs.push(json!({"space": "bystanders", "n": n, "mask": mask, "ptr": ptr, "lo": lo, "hi": (lo + chunk).min(count)}));
				lo += chunk;
			}
		}
	}
	d.phase("dependency graphs x permutations x bystander declarations", jobs);
	d.phase("duplicate names, type legality per position, word sizes", vec![json!({"space": "duplicates"}), json!({"space": "legality"}), json!({"space": "words"})]);
	let depth = 3usize;
	let nterms = deep_terms(depth).len();
	d.bound("deep type terms", json!({"constructors": DEEP_CONSTRUCTORS, "bases": DEEP_BASES, "max constructors": depth, "terms": nterms, "positions": DEEP_POSITIONS, "arrangements of (declaration, N, helpers S W O, main)": 5}));
	let jobs: Vec<Value> = (0..nterms).step_by(10).map(|lo| json!({"space": "deeptypes", "depth": depth, "lo": lo, "hi": (lo + 10).min(nterms)})).collect();
	d.phase("deep type terms x positions x arrangements (order independence)", jobs);
	d.assume("model: a container depends on another through a constant in its initialiser, a named array length, a member of structure type, or a size-of in a constant; members of pointer type do not count (docs/errors.md E413, E415, E416)");
	d.assume("type legality is taken from the documented rules only (E350-E359, E380, docs/features.md external ABI); positions the documentation does not fix are judged for order-independence and absence of crashes only");
}

pub fn work(spec: &Value, w: &mut WorkerCtx)
{
	if let Some(case) = spec.get("replay")
	{
		if let Some(texts) = case.get("orders").and_then(|t| t.as_array())
		{
			let texts: Vec<String> = texts.iter().map(|t| t.as_str().unwrap().to_string()).collect();
			let expect: Option<Vec<u16>> = case.get("expect").and_then(|e| e.as_array()).map(|a| a.iter().map(|x| x.as_u64().unwrap() as u16).collect());
			judge_orders(&texts, expect, case["what"].as_str().unwrap_or("replay"), w);
		}
		return;
	}
	match spec["space"].as_str().unwrap()
	{
		"graphs" =>
		{
			let n = spec["n"].as_u64().unwrap() as usize;
			let mask = spec["mask"].as_u64().unwrap() as usize;
			let ptr = spec["ptr"].as_bool().unwrap();
			let kinds = kinds_of(n, mask);
			let perms = permutations(n + 1);
			for code in spec["lo"].as_u64().unwrap()..spec["hi"].as_u64().unwrap()
			{
				let edges = decode_graph(n, code, ptr, &kinds);
				let model = cycle_codes(&kinds, &edges);
				// the property asks for a cycle code, not for which of the three
				let expect: Vec<u16> = if model.is_empty() { vec![] } else { vec![413, 415, 416] };
				let texts: Vec<String> = perms.iter().map(|p| graph_program(&kinds, &edges, p)).collect();
				w.result.transitions += texts.len() as u64;
				let what = if expect.is_empty() { "acyclic graph".to_string() } else { format!("cyclic graph (model: {model:?})") };
				let values = if expect.is_empty() { Some(graph_values(&kinds, &edges)) } else { None };
				judge_orders_and_values(&texts, Some(expect), &what, w, values.as_ref());
			}
		}
		"bystanders" =>
		{
			// every graph x every order x every bystander x every position: the verdict and the codes
			// must be those of the program without the bystander
			let n = spec["n"].as_u64().unwrap() as usize;
			let mask = spec["mask"].as_u64().unwrap() as usize;
			let ptr = spec["ptr"].as_bool().unwrap();
			let kinds = kinds_of(n, mask);
			let perms = permutations(n + 1);
			for code in spec["lo"].as_u64().unwrap()..spec["hi"].as_u64().unwrap()
			{
				let edges = decode_graph(n, code, ptr, &kinds);
				let model = cycle_codes(&kinds, &edges);
				let expect: Vec<u16> = if model.is_empty() { vec![] } else { vec![413, 415, 416] };
				for b in 0..BYSTANDERS.len()
				{
					let mut texts: Vec<String> = Vec::new();
					for p in &perms
					{
						for at in 0..=p.len()
						{
							texts.push(graph_program_with_bystander(&kinds, &edges, p, b, at));
						}
					}
					w.result.transitions += texts.len() as u64;
					let what = format!("{} graph with a bystander ({}) :: graph {code} of {n} containers, kinds {mask}", if expect.is_empty() { "acyclic" } else { "cyclic" }, BYSTANDERS[b].0);
					let values = if expect.is_empty() { Some(graph_values(&kinds, &edges)) } else { None };
					judge_orders_and_values(&texts, Some(expect.clone()), &what, w, values.as_ref());
				}
			}
		}
		"sparse4" =>
		{
			let n = 4;
			let mask = spec["mask"].as_u64().unwrap() as usize;
			let kinds = kinds_of(n, mask);
			let perms: Vec<Vec<usize>> = permutations(n + 1).into_iter().filter(|p| p[n] == n).collect();
			for code in 0u64..(1 << (n * n))
			{
				let edges = decode_graph(n, code, false, &kinds);
				let count: usize = edges.iter().map(|r| r.iter().filter(|e| **e == 1).count()).sum();
				if count > 5 || (0..n).any(|i| edges[i][i] != 0)
				{
					continue;
				}
				let model = cycle_codes(&kinds, &edges);
				let expect: Vec<u16> = if model.is_empty() { vec![] } else { vec![413, 415, 416] };
				let texts: Vec<String> = perms.iter().map(|p| graph_program(&kinds, &edges, p)).collect();
				w.result.transitions += texts.len() as u64;
				let what = if expect.is_empty() { "acyclic graph".to_string() } else { format!("cyclic graph (model: {model:?})") };
				judge_orders(&texts, Some(expect), &what, w);
			}
		}
		"duplicates" =>
		{
			let decl = |kind: &str, name: &str| match kind
			{
				"fn" => format!("fn {name}()\n{{\n}}\n"),
				"fn head" => format!("fn {name}();\n"),
				"const" => format!("const {name}: i32 = 1;\n"),
				"struct" => format!("struct {name}\n{{\n\ta: i32,\n}}\n"),
				_ => format!("word32 {name}\n{{\n\ta: i32,\n}}\n"),
			};
			let kinds = ["fn", "const", "struct", "word"];
			for a in kinds
			{
				for b in kinds
				{
					let same_namespace = (a == b) || (matches!(a, "struct" | "word") && matches!(b, "struct" | "word"));
					let expect: Option<Vec<u16>> = if same_namespace
					{
						Some(vec![match a
						{
							"fn" => 421,
							"const" => 423,
							_ => 425,
						}])
					}
					else
					{
						None
					};
					let main = "fn main() -> i32\n{\n\treturn: 0\n}\n";
					// two declarations of one name in different namespaces are both usable: a function
					// that uses each of them the way its kind is used
					let use_of = |kind: &str| match kind
					{
						"fn" => "\tX();\n",
						"const" => "\tvar c: i32 = X;\n",
						_ => "\tvar s: X = X { a: 1 };\n",
					};
					let user = if same_namespace { String::new() } else { format!("fn user()\n{{\n{}{}}}\n", use_of(a), use_of(b)) };
					let texts = vec![
						format!("{}{}{user}{main}", decl(a, "X"), decl(b, "X")),
						format!("{}{main}{user}{}", decl(b, "X"), decl(a, "X")),
						format!("{user}{main}{}{}", decl(a, "X"), decl(b, "X")),
						format!("{}{user}{}{main}", decl(b, "X"), decl(a, "X")),
					];
					w.result.transitions += 3;
					judge_orders(&texts, expect, &format!("duplicate name: {a} and {b}"), w);
				}
			}
			// duplicate members and parameters
			let texts = vec!["struct S\n{\n\ta: i32,\n\ta: i32,\n}\nfn main()\n{\n}\n".to_string(), "fn main()\n{\n}\nstruct S\n{\n\ta: i32,\n\ta: i32,\n}\n".to_string()];
			judge_orders(&texts, Some(vec![426]), "duplicate member", w);
			let texts = vec!["word64 W\n{\n\ta: i32,\n\ta: i32,\n}\nfn main()\n{\n}\n".to_string()];
			judge_orders(&texts, Some(vec![426]), "duplicate word member", w);
			let texts = vec!["fn g(a: i32, a: i32)\n{\n}\nfn main()\n{\n}\n".to_string(), "fn main()\n{\n}\nfn g(a: i32, a: i32)\n{\n}\n".to_string()];
			judge_orders(&texts, Some(vec![424]), "duplicate parameter", w);
			// distinct names: accepted
			let texts = vec!["fn a()\n{\n}\nconst B: i32 = 1;\nstruct C\n{\n\ta: i32,\n}\nword32 D\n{\n\ta: i32,\n}\nfn main()\n{\n}\n".to_string()];
			judge_orders(&texts, Some(vec![]), "distinct names", w);
		}
		"legality" =>
		{
			for (what, text_orders, expect) in legality_cells()
			{
				w.result.transitions += text_orders.len() as u64;
				judge_orders(&text_orders, expect, &what, w);
			}
		}
		"deeptypes" =>
		{
			let terms = deep_terms(spec["depth"].as_u64().unwrap() as usize);
			for ti in spec["lo"].as_u64().unwrap() as usize..spec["hi"].as_u64().unwrap() as usize
			{
				for pos in DEEP_POSITIONS
				{
					let (what, texts) = deep_type_cell(&terms[ti], pos);
					w.result.transitions += texts.len() as u64;
					// the size of a type must not depend on the arrangement either
					let mut model = std::collections::BTreeMap::new();
					if let Some(size) = deep_size(&terms[ti])
					{
						model.insert("K".to_string(), size);
					}
					judge_orders_and_values(&texts, None, &what, w, if pos == "size-of operand" { Some(&model) } else { None });
				}
			}
		}
		"words" =>
		{
			// member lists against declared word sizes
			let sizes = [("i8", 1), ("u8", 1), ("bool", 1), ("i16", 2), ("u16", 2), ("i32", 4), ("u32", 4), ("i64", 8), ("u64", 8), ("i128", 16), ("W8", 1), ("W16", 2)];
			let helpers = "word8 W8\n{\n\ta: u8,\n}\nword16 W16\n{\n\ta: u8,\n\tb: u8,\n}\n";
			// member lists: every list of up to 3 members over all 12 member types, and every list
			// of 4 or 5 members over the four unsigned widths (padding between members only shows
			// with "large, small, medium, small" shapes)
			let mut lists: Vec<Vec<(&str, usize)>> = Vec::new();
			for a in 0..sizes.len()
			{
				lists.push(vec![sizes[a]]);
				for b in 0..sizes.len()
				{
					lists.push(vec![sizes[a], sizes[b]]);
					for c in 0..sizes.len()
					{
						lists.push(vec![sizes[a], sizes[b], sizes[c]]);
					}
				}
			}
			let narrow = [("u8", 1usize), ("u16", 2), ("u32", 4), ("u64", 8)];
			for len in 4..=5usize
			{
				for code in 0..narrow.len().pow(len as u32)
				{
					let mut c = code;
					let mut l = Vec::new();
					for _ in 0..len
					{
						l.push(narrow[c % narrow.len()]);
						c /= narrow.len();
					}
					lists.push(l);
				}
			}
			for bits in [8usize, 16, 32, 64, 128]
			{
				for members in &lists
				{
					// size with natural alignment (capped at 8), as for structures
					let mut total = 0usize;
					let mut max_align = 1usize;
					for m in members
					{
						let align = m.1.min(8);
						max_align = max_align.max(align);
						total = (total + align - 1) / align * align + m.1;
					}
					total = (total + max_align - 1) / max_align * max_align;
					if total > 32
					{
						continue;
					}
					let body: String = members.iter().enumerate().map(|(i, m)| format!("\tm{i}: {},\n", m.0)).collect();
					let decl = format!("word{bits} X\n{{\n{body}}}\n");
					let main = "fn main()\n{\n}\n";
					let texts = vec![format!("{helpers}{decl}{main}"), format!("{decl}{main}{helpers}")];
					// larger than declared: E380; exactly the declared size: accepted; smaller: the
					// property only names words larger than declared
					let expect = if total * 8 == bits { Some(vec![]) } else if total * 8 > bits { Some(vec![380]) } else { None };
					w.result.transitions += 2;
					let sum: usize = members.iter().map(|m| m.1).sum();
					let what = if sum * 8 <= bits && total * 8 > bits { format!("word{bits} whose members sum to {sum} bytes but occupy {total} with padding") } else { format!("word{bits} with members of {total} bytes") };
					judge_orders(&texts, expect, &what, w);
				}
			}
		}
		other => panic!("unknown space {other}"),
	}
}

/// (description, program in several declaration orders, expected codes: Some([]) accept,
/// Some([c]) reject with c, None unspecified)
pub fn legality_cells() -> Vec<(String, Vec<String>, Option<Vec<u16>>)>
{
	let mut out = Vec::new();
	let helpers = "struct S\n{\n\ta: i32,\n}\nword32 W\n{\n\ta: i32,\n}\nstruct O;\n";
	let main = "fn main()\n{\n}\n";
	let types: Vec<&str> = vec![
		"O", "&O", "[3]O", "[]O",
		"i8", "i32", "u64", "u128", "usize", "bool", "char8", "void", "S", "W", "&i32", "&&i32", "&S", "&[]i32", "&[3]i32", "[3]i32", "[0]i32", "[]i32", "[:]i32", "[..]i32", "[3][2]i32",
		"[3]&i32", "[3]S", "[3]W", "[][]i32", "[3][]u8", "[3]void", "&void", "(i32)", "([]i32)", "&[..]u8", "[N]i32",
	];
	let n_const = "const N: usize = 2;\n";
	for t in &types
	{
		let positions: Vec<(&str, String)> = vec![
			("variable", format!("fn f()\n{{\n\tvar v: {t};\n}}\n")),
			("constant", format!("const K: {t} = 0;\n")),
			("parameter", format!("fn f(p: {t})\n{{\n}}\n")),
			("struct member", format!("struct T\n{{\n\tm: {t},\n}}\n")),
			("word member", format!("word32 T\n{{\n\tm: {t},\n}}\n")),
			("return type", format!("fn f() -> {t};\n")),
			("return type of a function with a body", format!("fn f() -> {t}\n{{\n\tvar v: {t};\n\treturn: v\n}}\n")),
			("extern parameter", format!("extern fn f(p: {t});\n")),
			("extern return type", format!("extern fn f() -> {t};\n")),
			("size-of operand", format!("const K: usize = |:{t}|;\n")),
		];
		for (pos, decl) in positions
		{
			let expect = documented_legality(t, pos);
			let texts = vec![
				format!("{n_const}{helpers}{decl}{main}"),
				format!("{decl}{main}{helpers}{n_const}"),
				format!("{main}{helpers}{n_const}{decl}"),
				format!("{helpers}{decl}{n_const}{main}"),
			];
			out.push((format!("{t} as {pos}"), texts, expect));
		}
	}
	// what a named array length may refer to: only a constant of type usize
	let referents: [(&str, &str); 9] = [
		("an earlier member of the same structure", "struct P\n{\n\tlen: usize,\n\tpayload: [len]u8,\n}\n"),
		("a later member of the same structure", "struct P\n{\n\tpayload: [len]u8,\n\tlen: usize,\n}\n"),
		("an earlier member of the same word", "word64 P\n{\n\tlen: u32,\n\tpayload: [len]u8,\n}\n"),
		("an earlier member, nested array", "struct P\n{\n\tlen: usize,\n\tpayload: [2][len]u8,\n}\n"),
		("a parameter", "fn f(n: usize, a: &[n]i32)\n{\n}\n"),
		("a local variable", "fn f()\n{\n\tvar n: usize = 2;\n\tvar a: [n]i32;\n}\n"),
		("a function", "fn g()\n{\n}\nfn f()\n{\n\tvar a: [g]i32;\n}\n"),
		("a structure", "fn f()\n{\n\tvar a: [S]i32;\n}\n"),
		("an undefined name", "struct P\n{\n\tpayload: [nowhere]u8,\n}\n"),
	];
	for (what, decl) in referents
	{
		let texts = vec![format!("{n_const}{helpers}{decl}{main}"), format!("{decl}{main}{helpers}{n_const}"), format!("{main}{helpers}{n_const}{decl}")];
		out.push((format!("[name]T whose length names {what}"), texts, Some(vec![433, 402, 500, 405])));
	}
	out
}

/// Every type term of up to three constructors over {&, [3], [], [N], [..]} and four bases (a
/// primitive, a structure, a word, an opaque structure) in every declaration position, under five
/// arrangements of the declaration, the constant N and the declarations of S, W and O. The
/// expectation is order-independence (and no crash, no silent failure): whether a term is legal
/// in a position is judged by `legality_cells` on the hand-picked terms only.
pub const DEEP_CONSTRUCTORS: [&str; 6] = ["&", "[3]", "[]", "[N]", "[M]", "[..]"];
pub const DEEP_BASES: [&str; 4] = ["i32", "S", "W", "O"];
pub const DEEP_POSITIONS: [&str; 8] = ["variable", "parameter", "struct member", "word member", "return type", "extern parameter", "size-of operand", "member of a structure that is used as a member"];

pub fn deep_terms(max_depth: usize) -> Vec<String>
{
	let mut terms: Vec<String> = Vec::new();
	let mut layer: Vec<String> = DEEP_BASES.iter().map(|b| b.to_string()).collect();
	for _ in 0..max_depth
	{
		let mut next = Vec::new();
		for t in &layer
		{
			for c in DEEP_CONSTRUCTORS
			{
				next.push(format!("{c}{t}"));
			}
		}
		terms.extend(next.iter().cloned());
		layer = next;
	}
	terms
}

/// Cause-level features of a type term (for the signature of a violation).
fn deep_features(t: &str) -> String
{
	let mut f: Vec<&str> = Vec::new();
	if let Some(i) = t.find("[N]").or(t.find("[M]"))
	{
		f.push(if t[..i].contains('&') { "named length behind a pointer" } else { "named length" });
		if t.contains("[N]") && t.contains("[M]")
		{
			f.push("two named lengths");
		}
	}
	if t.ends_with('O')
	{
		let wrappers = &t[..t.len() - 1];
		f.push(if wrappers.ends_with('&') { "pointer to opaque" } else if wrappers.is_empty() { "opaque" } else { "array of opaque" });
		if wrappers.len() > 1 && wrappers[..wrappers.len() - 1].contains('&')
		{
			f.push("behind a pointer");
		}
	}
	if t.ends_with('S')
	{
		f.push("structure");
	}
	if t.ends_with('W')
	{
		f.push("word");
	}
	if t.contains("[..]")
	{
		f.push("endless array");
	}
	if t.contains("[]")
	{
		f.push("view");
	}
	if f.is_empty()
	{
		f.push("primitive compound");
	}
	f.join(", ")
}

/// The storage a deep type term occupies (None: it has no compile-time size): pointers of every
/// kind are 8 bytes, `[3]T` is 3 and `[N]T` (N = 2) is 2 times the element, the three sized bases
/// are 4 bytes.
pub fn deep_size(t: &str) -> Option<u64>
{
	if t.starts_with('&')
	{
		return Some(8);
	}
	if let Some(rest) = t.strip_prefix("[3]")
	{
		return deep_size(rest).map(|s| 3 * s);
	}
	if let Some(rest) = t.strip_prefix("[N]")
	{
		return deep_size(rest).map(|s| 2 * s);
	}
	if let Some(rest) = t.strip_prefix("[M]")
	{
		return deep_size(rest).map(|s| 3 * s);
	}
	match t
	{
		"i32" | "S" | "W" => Some(4),
		_ => None,
	}
}

pub fn deep_type_cell(t: &str, pos: &str) -> (String, Vec<String>)
{
	// M is derived from N and declared with the helpers, so that the two named lengths move
	// independently of each other through the arrangements
	let helpers = "struct S\n{\n\ta: i32,\n}\nword32 W\n{\n\ta: i32,\n}\nstruct O;\nconst M: usize = N + 1;\n";
	let main = "fn main()\n{\n}\n";
	let n_const = "const N: usize = 2;\n";
	let decl = match pos
	{
		"variable" => format!("fn f()\n{{\n\tvar v: {t};\n}}\n"),
		"parameter" => format!("fn f(p: {t})\n{{\n}}\n"),
		"struct member" => format!("struct T\n{{\n\tm: {t},\n}}\n"),
		"word member" => format!("word64 T\n{{\n\tm: {t},\n}}\n"),
		"return type" => format!("fn f() -> {t};\n"),
		"extern parameter" => format!("extern fn f(p: {t});\n"),
		"size-of operand" => format!("const K: usize = |:{t}|;\n"),
		_ => format!("struct U\n{{\n\tt: T,\n}}\nstruct T\n{{\n\tm: {t},\n}}\n"),
	};
	let texts = vec![
		format!("{n_const}{helpers}{decl}{main}"),
		format!("{decl}{main}{helpers}{n_const}"),
		format!("{main}{helpers}{n_const}{decl}"),
		format!("{helpers}{decl}{n_const}{main}"),
		format!("{n_const}{decl}{helpers}{main}"),
	];
	(format!("deep type term ({}) as {pos} :: {t}", deep_features(t)), texts)
}

/// Only what the documentation states.
fn documented_legality(t: &str, pos: &str) -> Option<Vec<u16>>
{
	let prim_nonvoid = matches!(t, "i8" | "i32" | "u64" | "u128" | "usize" | "bool" | "char8");
	// invalid compounds (E350): arrays / views of something without a compile-time size
	if matches!(t, "[][]i32" | "[3][]u8")
	{
		// in constant position the initialiser `0` is rejected for its own reasons
		if pos == "constant"
		{
			return None;
		}
		return Some(vec![350, 351, 352, 353, 354, 356, 358, 359]);
	}
	// docs/errors.md E350: an opaque structure has no compile-time size: `[10]Foo` and `[]Foo` are
	// invalid in every position, `&Foo` and `[]&Foo` are valid
	if matches!(t, "[3]O" | "[]O")
	{
		if pos == "constant"
		{
			return None;
		}
		return Some(vec![350, 351, 352, 353, 354, 356, 358, 359]);
	}
	if t == "O" && matches!(pos, "variable" | "struct member" | "size-of operand")
	{
		return Some(vec![350, 352, 356, 359]);
	}
	if t == "&O" && matches!(pos, "variable" | "parameter" | "struct member")
	{
		return Some(vec![]);
	}
	match pos
	{
		"variable" =>
		{
			if t == "void"
			{
				return Some(vec![352]);
			}
			if prim_nonvoid || matches!(t, "S" | "W" | "&i32" | "[3]i32" | "[3][2]i32" | "[N]i32")
			{
				return Some(vec![]);
			}
			None
		}
		"constant" =>
		{
			if t == "[]i32"
			{
				return Some(vec![353]);
			}
			None
		}
		"parameter" =>
		{
			if t == "void"
			{
				return Some(vec![354]);
			}
			if prim_nonvoid || matches!(t, "S" | "W" | "&i32" | "[]i32" | "&[]i32")
			{
				return Some(vec![]);
			}
			None
		}
		"struct member" =>
		{
			if prim_nonvoid || matches!(t, "S" | "W" | "&i32" | "[3]i32" | "&S")
			{
				return Some(vec![]);
			}
			None
		}
		"word member" =>
		{
			if matches!(t, "&i32" | "&&i32" | "&S" | "&[]i32" | "&[3]i32" | "&[..]u8")
			{
				return Some(vec![356]);
			}
			if t == "i32" || t == "W"
			{
				return Some(vec![]);
			}
			None
		}
		"return type" =>
		{
			if matches!(t, "S" | "[3]i32" | "[]i32" | "[3][2]i32" | "[3]S")
			{
				return Some(vec![351]);
			}
			if prim_nonvoid || t == "void"
			{
				return Some(vec![]);
			}
			None
		}
		"return type of a function with a body" =>
		{
			if matches!(t, "S" | "[3]i32" | "[]i32" | "[3][2]i32" | "[3]S")
			{
				return Some(vec![350, 351, 352]);
			}
			if prim_nonvoid
			{
				return Some(vec![]);
			}
			None
		}
		"extern parameter" =>
		{
			if matches!(t, "u128" | "bool" | "S" | "W")
			{
				return Some(vec![358]);
			}
			if matches!(t, "i8" | "i32" | "u64" | "usize" | "char8" | "&i32" | "[]i32")
			{
				return Some(vec![]);
			}
			None
		}
		"extern return type" =>
		{
			if t == "u128"
			{
				return Some(vec![358]);
			}
			if matches!(t, "i8" | "i32" | "u64" | "usize")
			{
				return Some(vec![]);
			}
			None
		}
		"size-of operand" =>
		{
			if t == "[]i32"
			{
				return Some(vec![359]);
			}
			if prim_nonvoid || matches!(t, "S" | "W" | "[3]i32" | "&i32")
			{
				return Some(vec![]);
			}
			None
		}
		_ => None,
	}
}

/// Compile every order; all must agree (verdict and code multiset); the agreed verdict must match
/// the expectation when there is one.
fn judge_orders(texts: &[String], expect: Option<Vec<u16>>, what: &str, w: &mut WorkerCtx)
{
	judge_orders_and_values(texts, expect, what, w, None)
}

/// `values`: what the constants named in the map must be in the IR of every accepted order.
fn judge_orders_and_values(texts: &[String], expect: Option<Vec<u16>>, what: &str, w: &mut WorkerCtx, values: Option<&std::collections::BTreeMap<String, u64>>)
{
	w.result.states += 1;
	// the part before " :: " (when present) is the cause-level class of the case
	let class: String = what.split(" :: ").next().unwrap_or(what).chars().map(|c| if c.is_ascii_digit() { '#' } else { c }).collect();
	let desc = || json!({"what": what, "orders": texts, "expect": expect, "sig_hint": class, "size": texts[0].len()});
	let d = desc().to_string().into_bytes();
	let size = texts[0].len() as u64;
	let want_values = values.is_some();
	// the names whose values main declares arrays of, in declaration order (graph programs only)
	let value_names: Option<Vec<String>> = values.filter(|v| v.keys().any(|k| k.starts_with('C') || k.starts_with('Z'))).map(|v| {
		let mut names: Vec<String> = v.keys().cloned().collect();
		names.sort_by_key(|k| k[1..].parse::<usize>().unwrap_or(0));
		names
	});
	let outcome = w.run_case(&d, || {
		texts
			.iter()
			.map(|t| {
				let v = alpha::compile_one(t, alpha::FULL);
				let mut codes = v.codes();
				codes.sort();
				let kind = match &v
				{
					Verdict::Ok { .. } => 0u8,
					Verdict::Rejected { .. } => 1,
					Verdict::InternalError(_) => 2,
				};
				let constants = match &v
				{
					Verdict::Ok { irs, .. } if want_values => irs.first().map(|ir| {
						let mut m = constants_in_ir(ir);
						// second channel: `var len_X: [X]u8;` in main, in the order of the names
						if let Some(names) = &value_names
						{
							let lengths = byte_array_lengths_in_main(ir);
							if lengths.len() == names.len()
							{
								for (name, v) in names.iter().zip(lengths)
								{
									m.entry(format!("len_{name}")).or_insert(v);
								}
							}
						}
						m
					}),
					_ => None,
				};
				((kind, codes), constants)
			})
			.collect::<Vec<_>>()
	});
	match outcome
	{
		CaseOutcome::Done(results_and_constants) =>
		{
			w.result.validated += texts.len() as u64;
			let mut ok = true;
			if let Some(values) = values
			{
				for (k, (_, constants)) in results_and_constants.iter().enumerate()
				{
					let Some(constants) = constants
					else
					{
						continue;
					};
					// a constant that the IR does not state (folded away, emitted in a form this reader
					// does not know) cannot be observed: counted, not judged
					// a value is observed through the global of the constant or through the array in main
					let observe = |name: &String| constants.get(name).or(constants.get(&format!("len_{name}"))).copied();
					let unobserved = values.keys().filter(|name| observe(name).is_none()).count();
					w.result.count("constants of accepted graph programs read from the IR and compared with the model", (values.len() - unobserved) as u64);
					if unobserved > 0
					{
						w.result.count("constants of accepted graph programs that the IR does not state (not judged)", unobserved as u64);
					}
					let mut wrong: Vec<String> = values.iter().filter(|(name, v)| observe(name).map_or(false, |got| got != **v)).map(|(name, v)| format!("{name} = {:?} (model: {v})", observe(name))).collect();
					// both channels must agree with the model when both are there
					wrong.extend(values.iter().filter(|(name, v)| constants.get(&format!("len_{name}")).map_or(false, |got| got != *v)).map(|(name, v)| format!("the array of length {name} has {:?} elements (model: {v})", constants.get(&format!("len_{name}")))));
					wrong.dedup();
					if !wrong.is_empty()
					{
						ok = false;
						let kind = if wrong.iter().any(|x| x.starts_with('Z')) { "size of a structure" } else { "value of a constant" };
						w.result.violation(&format!("wrong-constant-in-some-order:{kind}"), size, &desc, || format!("{what}: in order {k} the IR gives {}\n{}", wrong.join(", "), texts[k]));
						break;
					}
				}
			}
			if values.is_some()
			{
				// whatever the model says: the constants of the module must not depend on the order
				let maps: Vec<(usize, &std::collections::BTreeMap<String, u64>)> = results_and_constants.iter().enumerate().filter_map(|(k, r)| r.1.as_ref().map(|m| (k, m))).collect();
				if let Some((k, m)) = maps.iter().find(|(_, m)| *m != maps[0].1)
				{
					ok = false;
					w.result.violation(&format!("order-dependent-constant:{class}"), size, &desc, || {
						format!("{what}: the constants of the module depend on the declaration order: order {} gives {:?}, order {k} gives {:?}\n--- order {}\n{}\n--- order {k}\n{}", maps[0].0, maps[0].1, m, maps[0].0, texts[maps[0].0], texts[*k])
					});
				}
			}
			let results: Vec<(u8, Vec<u16>)> = results_and_constants.into_iter().map(|r| r.0).collect();
			let first = &results[0];
			if results.iter().any(|r| r != first) && results.iter().all(|r| r.0 == first.0)
			{
				w.result.soft("declaration order changes the list of codes (verdict unchanged)", || format!("{what}: {:?}", results));
			}
			if let Some(k) = results.iter().position(|r| r.0 != first.0)
			{
				ok = false;
				w.result.violation(&format!("order-dependent:{class}"), size, &desc, || {
					format!("{what}: declaration order changes the outcome: order 0 gives {:?}, order {k} gives {:?}\n--- order 0\n{}\n--- order {k}\n{}", first, results[k], texts[0], texts[k])
				});
			}
			if results.iter().any(|r| r.0 == 2 || (r.0 == 1 && r.1.is_empty()))
			{
				ok = false;
				w.result.violation(&format!("internal-error-or-silent-failure:{class}"), size, &desc, || format!("{what}: {:?}\n{}", results, texts[0]));
			}
			if let Some(expect) = &expect
			{
				for (k, (kind, codes)) in results.iter().enumerate()
				{
					if expect.is_empty()
					{
						if *kind != 0
						{
							ok = false;
							w.result.violation(&format!("wellformed-rejected:{class}:E{}", codes.first().copied().unwrap_or(0)), size, &desc, || {
								format!("{what}: must be accepted, but order {k} is rejected with {codes:?}\n{}", texts[k])
							});
							break;
						}
					}
					else
					{
						if *kind == 0
						{
							ok = false;
							w.result.violation(&format!("illformed-accepted:{class}"), size, &desc, || format!("{what}: must be rejected with {expect:?}, but order {k} is accepted\n{}", texts[k]));
							break;
						}
						let mut dedup = codes.clone();
						dedup.dedup();
						if !dedup.iter().any(|c| expect.contains(c))
						{
							ok = false;
							w.result.violation(&format!("illformed-wrong-code:{class}:E{}", codes.first().copied().unwrap_or(0)), size, &desc, || {
								format!("{what}: expected one of {expect:?}, order {k} reports {codes:?}\n{}", texts[k])
							});
							break;
						}
						if what.starts_with("cyclic") && dedup.iter().any(|c| ![413u16, 415, 416].contains(c))
						{
							w.result.soft("cyclic graph reported with an additional unrelated code", || format!("{what}: {codes:?}"));
						}
					}
				}
			}
			let verdict = match first.0
			{
				0 => "accepted".to_string(),
				_ => format!("rejected:E{}", first.1.first().copied().unwrap_or(0)),
			};
			let family = what.split(':').next().unwrap_or(what).split(" as ").last().unwrap_or(what);
			let fam: String = family.chars().filter(|c| !c.is_ascii_digit()).take(28).collect();
			w.result.outcome(&format!("{fam}:{verdict}{}", if ok { "" } else { ":MISMATCH" }));
			if ok && texts.len() >= 6 && !first.1.is_empty()
			{
				w.result.sample(|| json!({"what": what, "program": texts[0], "codes_in_every_order": first.1}));
			}
		}
		CaseOutcome::Panicked { site, message } =>
		{
			w.result.outcome("panicked");
			let sig = format!("panic@{}", crate::util::site_signature(&site, &message));
			w.result.violation(&sig, size, &desc, || format!("{what}: panic at {site}: {message}\n{}", texts[0]));
		}
		CaseOutcome::Crashed { .. } =>
		{}
	}
}
