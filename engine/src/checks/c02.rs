//! C02 — the compiler never crashes and never fails silently.
//!
//! Safety invariant on every explored input of the complete first-generation pipeline
//! (lexer .. IR generation, linking): it ends either `Ok` with IR for every module or `Rejected`
//! with at least one diagnostic — never a panic, an abort inside LLVM, a stack overflow, a
//! timeout, an internal error, or a rejection with an empty list of diagnostics.

use crate::checks::c14;
use crate::driver::Driver;
use crate::model::grammar::{self, Layout};
use crate::model::reflex;
use crate::pool::{CaseOutcome, WorkerCtx};
use crate::spaces::{ast, tok};
use crate::subjects::alpha::{self, Verdict};
use serde_json::{Value, json};

pub const CONTEXTS: [&str; 16] = [
	"",
	"fn x ( ) {",
	"fn main ( ) -> i32 { var x : i32 = 1 ;",
	"fn main ( ) -> i32 { var x : i32 = 1 ; x =",
	"fn main ( ) -> i32 { var x : i32 = 1 ; var y :",
	"fn main ( ) -> i32 { var x : i32 = 1 ; if x ==",
	"fn main ( ) -> i32 { var x : i32 = 1 ; if x == 1",
	"fn main ( ) -> i32 { var x : i32 = 1 ; return :",
	"fn main ( ) -> i32 { var x : [ 1 ] i32 = [ 1 ] ; x [",
	"fn y ( x : i32 ) -> i32 { return : x } fn main ( ) -> i32 { var x : i32 = y (",
	"fn x ( x :",
	"struct y { x : i32 , } fn main ( ) { var x : y = y {",
	"struct x {",
	"const x : i32 =",
	"const x : i32 = 1 ; fn main ( ) -> i32 { return :",
	"import",
];

/// Replacement tokens for the fault neighbourhood.
pub const FAULT_TOKENS: [&str; 24] = [
	"(", ")", "{", "}", "[", "]", ";", ":", ",", "=", "==", "+", "-", "&", "|", "x", "1", "0xff", "i32", "fn", "var", "if", "goto", "\"s\"",
];

/// Module kinds for module histories through one Compiler.
pub const MODULE_KINDS: [(&str, &str); 13] = [
	("opaque structure", "struct Handle;\nfn {f}(h: &Handle) -> i32\n{\n\treturn: 1\n}\n"),
	("print", "fn {f}()\n{\n\tprint!(\"a\");\n}\n"),
	("format", "fn {f}()\n{\n\tvar x: i32 = 7;\n\tvar n: usize = len_of(format!(\"a\", x));\n}\nfn len_of(text: []char8) -> usize\n{\n\treturn: |text|\n}\n"),
	("abort", "fn {f}(x: i32)\n{\n\tif x == 0\n\t{\n\t\tabort!();\n\t}\n}\n"),
	("struct Foo {a: i32}", "struct Foo\n{\n\ta: i32,\n}\nfn {f}()\n{\n\tvar v: Foo = Foo { a: 1 };\n}\n"),
	("struct Foo {b: u8, c: u8}", "struct Foo\n{\n\tb: u8,\n\tc: u8,\n}\nfn {f}()\n{\n\tvar v: Foo = Foo { b: 1, c: 2 };\n}\n"),
	("private helper", "fn helper() -> i32\n{\n\treturn: 1\n}\nfn {f}() -> i32\n{\n\tvar r: i32 = helper();\n\treturn: r\n}\n"),
	("private constant", "const K: i32 = 7;\nfn {f}() -> i32\n{\n\treturn: K\n}\n"),
	("empty function", "fn {f}()\n{\n}\n"),
	// the same externally visible name in several modules of one compilation
	("pub fn shared", "pub fn shared() -> i32\n{\n\treturn: 1\n}\nfn {f}()\n{\n}\n"),
	("pub extern fn shared with a body", "pub extern fn shared() -> i32\n{\n\treturn: 2\n}\nfn {f}()\n{\n}\n"),
	("pub extern head", "pub extern fn abs(x: i32) -> i32;\nfn {f}() -> i32\n{\n\treturn: abs(-1)\n}\n"),
	("fn main", "fn main() -> u8\n{\n\treturn: 0\n}\nfn {f}()\n{\n}\n"),
];

pub fn drive(d: &mut Driver)
{
	let quick = d.quick();
	let (ltok, bfs_depth, ctx_depth, lchar, kfrag) = if quick { (3usize, 7usize, 4usize, 3usize, 2usize) } else { (4, 8, 5, 3, 2) };
	d.bound("S-TOK token kinds", json!(tok::TOKS.len()));
	d.bound("S-TOK full max length", json!(ltok));
	d.bound("viable-prefix depth from the empty input", json!(bfs_depth));
	d.bound("viable-prefix extra depth from each non-initial context", json!(ctx_depth));
	d.bound("non-initial contexts", json!(CONTEXTS[1..]));
	d.bound("S-CHAR max length / S-FRAG max fragments (as file content and as function body)", json!([lchar, kfrag]));

	// (a) token sequences
	let mut jobs = Vec::new();
	for len in 0..=ltok
	{
		push_prefix_jobs(&mut jobs, "tok", tok::TOKS.len(), len);
	}
	d.phase("S-TOK full", jobs);
	for (ci, ctx) in CONTEXTS.iter().enumerate()
	{
		let base = tok::parse_context(ctx);
		let max_extra = if ci == 0 { bfs_depth } else { ctx_depth };
		let mut frontier: Vec<String> = vec![tok::encode(&base)];
		for depth in 1..=max_extra
		{
			if frontier.is_empty()
			{
				break;
			}
			if d.time_left() < 8.0
			{
				d.cap_hit(&format!("time budget reached in viable-prefix search, context '{ctx}', before depth {depth}"));
				break;
			}
			let jobs: Vec<Value> = frontier.chunks(32.max(frontier.len() / 256)).map(|c| json!({"space": "tokbfs", "items": c})).collect();
			let r = d.phase(&format!("viable-prefix ctx#{ci} depth {depth}"), jobs);
			frontier = r.frontier;
			frontier.sort();
			frontier.dedup();
		}
	}
	// (b) characters and fragments
	let mut jobs = Vec::new();
	for wrap in [false, true]
	{
		for len in 0..=lchar
		{
			push_prefix_jobs_wrap(&mut jobs, "char", c14::SIGMA_TEXT.len(), len, wrap);
		}
		let nfrag = c14::fragments().len();
		for len in 1..=kfrag
		{
			push_prefix_jobs_wrap(&mut jobs, "frag", nfrag, len, wrap);
		}
	}
	d.phase("S-CHAR and S-FRAG as file and as function body", jobs);
	// (c) single-fault neighbourhood of grammar-derived programs (and corpus files, thorough)
	let fams = ast::families(true);
	let mut jobs = Vec::new();
	for (fi, (_name, mods)) in fams.iter().enumerate()
	{
		let stride = if quick { (mods.len() / 300).max(1) } else { (mods.len() / 1500).max(1) };
		let mut lo = 0;
		while lo < mods.len()
		{
			let hi = (lo + 60 * stride).min(mods.len());
			jobs.push(json!({"space": "faults", "family": fi, "lo": lo, "hi": hi, "stride": stride}));
			lo = hi;
		}
	}
	d.bound("fault kinds", json!(["delete token i", "duplicate token i", "swap tokens i and i+1", "replace token i by each of 24 tokens"]));
	d.phase("single-fault neighbourhood of grammar-derived programs", jobs);
	let files = crate::util::corpus_files();
	let mut jobs = Vec::new();
	for f in &files
	{
		// quick: faults on the small files only
		jobs.push(json!({"space": "corpus", "file": f, "faults": true, "max_len": if quick { 700 } else { 6000 }}));
	}
	d.bound("corpus files", json!(files.len()));
	d.bound("corpus files whose single-fault neighbourhood is explored: shorter than (bytes)", json!(if quick { 700 } else { 6000 }));
	d.phase("corpus files and their single-fault neighbourhood", jobs);
	// (d) nesting pumps on the release-profile worker
	let depths: Vec<usize> = vec![1, 2, 8, 64, 127, 128, 256];
	let mut jobs = Vec::new();
	for k in 0..NEST.len()
	{
		for r in &depths
		{
			jobs.push(json!({"space": "nest", "k": k, "r": r}));
		}
	}
	d.bound("nesting pumps", json!(NEST.iter().map(|n| n.0).collect::<Vec<_>>()));
	d.bound("nesting depths (release-profile worker)", json!(depths));
	d.phase_profile("nesting pumps", jobs, true);
	// (f) declaration dependency graphs (the space of C11) under every declaration order
	let mut jobs = Vec::new();
	let graph_sizes: Vec<(usize, Vec<usize>)> = if quick { vec![(2, vec![0, 1, 2, 3]), (3, (0..8).collect()), (4, vec![0, 15])] } else { vec![(2, vec![0, 1, 2, 3]), (3, (0..8).collect()), (4, (0..16).collect())] };
	for (n, masks) in &graph_sizes
	{
		for mask in masks
		{
			let kinds = crate::checks::c11::kinds_of(*n, *mask);
			// four containers: without self-loops (12 possible edges)
			let count = if *n == 4 { 1u64 << 12 } else { crate::checks::c11::graph_count(*n, false, &kinds) };
			let mut lo = 0;
			while lo < count
			{
				jobs.push(json!({"space": "graphs", "n": n, "mask": mask, "lo": lo, "hi": (lo + 512).min(count)}));
				lo += 512;
			}
		}
	}
	d.bound("dependency graphs (containers: kind assignments)", json!(graph_sizes));
	d.phase("declaration dependency graphs x all declaration orders", jobs);
	// (e) module histories
	let mut jobs = Vec::new();
	let n = MODULE_KINDS.len();
	for a in 0..n
	{
		jobs.push(json!({"space": "modules", "first": a}));
	}
	d.bound("module kinds", json!(MODULE_KINDS.iter().map(|m| m.0).collect::<Vec<_>>()));
	d.bound("module histories", json!("all sequences of 1..3 module kinds through one Compiler, then linked"));
	d.phase("module histories", jobs);
	// (f) function bodies of the statement-level spaces (labels and gotos, variables, placement of
	// loop and if branches): each is compiled through the complete pipeline
	let (n4, n5, n6) = if quick { (5usize, 5usize, 5usize) } else { (6, 6, 6) };
	let mut jobs = Vec::new();
	let space4 = crate::spaces::body::BodySpace::new(crate::checks::c04::ATOMS);
	for n in 0..=n4
	{
		for first in space4.first_choices(n, 3)
		{
			jobs.push(json!({"space": "bodies04", "n": n, "first": first}));
		}
	}
	let space5 = crate::spaces::body::BodySpace::new(crate::checks::c05::ATOMS);
	for n in 0..=n5
	{
		for first in space5.first_choices(n, 2)
		{
			jobs.push(json!({"space": "bodies05", "n": n, "first": first}));
		}
	}
	for n in 0..=n6
	{
		if n == 0
		{
			jobs.push(json!({"space": "trees06", "n": 0, "k": 0}));
		}
		for k in 1..=n
		{
			jobs.push(json!({"space": "trees06", "n": n, "k": k}));
		}
	}
	d.bound("function bodies (statements): label bodies, variable bodies, placement trees", json!([n4, n5, n6]));
	d.phase("function bodies of the statement-level spaces", jobs);
	// (g) every type term in every declaration position and every referent of a named length
	// (C11's legality space), in every declaration order it uses
	let ncells = crate::checks::c11::legality_cells().len();
	d.bound("type terms x declaration positions (C11's legality space)", json!(ncells));
	let jobs: Vec<Value> = (0..ncells).step_by(24).map(|lo| json!({"space": "legality", "lo": lo, "hi": (lo + 24).min(ncells)})).collect();
	d.phase("type terms in every declaration position", jobs);
	// (h) calls of the built-in functions: every name x every list of up to two arguments x every
	// place a call can stand in
	let nb = builtin_programs().len();
	d.bound("built-in calls: names x argument lists (0-2 of 10 forms) x contexts", json!({"names": BUILTIN_NAMES, "argument forms": BUILTIN_ARGS.iter().map(|a| a.0).collect::<Vec<_>>(), "contexts": BUILTIN_CONTEXTS.iter().map(|c| c.0).collect::<Vec<_>>(), "programs": nb}));
	let jobs: Vec<Value> = (0..nb).step_by(64).map(|lo| json!({"space": "builtins", "lo": lo, "hi": (lo + 64).min(nb)})).collect();
	d.phase("calls of the built-in functions", jobs);
	d.assume("termination is bounded by a 20 s per-case watchdog; the nesting bound of the property (256) is applied on a release-profile worker with the 8 MiB main-thread stack of the real binary");
	d.assume("inputs beyond the bounds (the property's 64 KiB texts, random token soup) are not explored");
}

pub const BUILTIN_NAMES: [&str; 10] = ["abort!", "format!", "file!", "line!", "print!", "eprint!", "dbg!", "panic!", "include_bytes!", "nosuchbuiltin!"];
/// (name, expression)
pub const BUILTIN_ARGS: [(&str, &str); 10] = [
	("integer literal", "1"),
	("string literal", "\"a\""),
	("integer variable", "x"),
	("call without return value", "g()"),
	("call with return value", "h()"),
	("nested format!", "format!(\"b\", x)"),
	("address", "&x"),
	("array variable", "arr"),
	("structure variable", "s"),
	("view parameter", "text"),
];
/// (name, statement with {} for the call)
pub const BUILTIN_CONTEXTS: [(&str, &str); 6] = [
	("statement", "\t{};\n"),
	("untyped initialiser", "\tvar r = {};\n"),
	("initialiser of a view of characters", "\tvar r: []char8 = {};\n"),
	("argument of print!", "\tprint!({});\n"),
	("argument of a function", "\tignore({});\n"),
	("operand of a length", "\tvar n: usize = |{}|;\n"),
];

pub fn builtin_programs() -> Vec<(String, String)>
{
	let mut out = Vec::new();
	let mut arglists: Vec<(String, String)> = vec![("no arguments".to_string(), String::new())];
	for (n1, a1) in BUILTIN_ARGS
	{
		arglists.push((n1.to_string(), a1.to_string()));
		for (n2, a2) in BUILTIN_ARGS
		{
			arglists.push((format!("{n1}, {n2}"), format!("{a1}, {a2}")));
		}
	}
	for name in BUILTIN_NAMES
	{
		for (argname, args) in &arglists
		{
			for (cname, ctx) in BUILTIN_CONTEXTS
			{
				let call = format!("{name}({args})");
				let stmt = ctx.replace("{}", &call);
				let text = format!("struct S\n{{\n\ta: i32,\n}}\nfn g()\n{{\n}}\nfn h() -> i32\n{{\n\treturn: 1\n}}\nfn ignore(v: i32)\n{{\n}}\nfn f(text: []char8)\n{{\n\tvar x: i32 = 1;\n\tvar arr: [2]i32 = [1, 2];\n\tvar s: S = S {{ a: 1 }};\n{stmt}}}\n");
				out.push((format!("{name} with {argname} as {cname}"), text));
			}
		}
	}
	out
}

/// (name, prefix, opening unit, innermost, closing unit, suffix)
pub const NEST: [(&str, &str, &str, &str, &str, &str); 10] = [
	("parentheses", "fn main() -> i32\n{\n\tvar x: i32 = ", "(", "1", ")", ";\n\treturn: x\n}\n"),
	("blocks", "fn main()\n{\n", "{", "", "}", "\n}\n"),
	("array types", "fn main()\n{\n\tvar x: ", "[1]", "i32", "", ";\n}\n"),
	("pointer types", "fn f(x: ", "&", "i32", "", ")\n{\n}\n"),
	("address-of", "fn main()\n{\n\tvar a: i32 = 1;\n\tvar x: &i32 = ", "&", "a", "", ";\n}\n"),
	("index chain", "fn main()\n{\n\tvar a: [1]i32 = [1];\n\tvar x: i32 = a", "[0]", "", "", ";\n}\n"),
	("member chain", "fn main()\n{\n\tvar x: i32 = a", ".m", "", "", ";\n}\n"),
	("else-if chain", "fn main()\n{\n\tvar x: i32 = 1;\n", "if x == 1\n{\n}\nelse ", "{\n}", "", "\n}\n"),
	("array literals", "fn main()\n{\n\tvar x = ", "[", "1", "]", ";\n}\n"),
	("unary minus", "fn main()\n{\n\tvar x: i32 = ", "-(", "1", ")", ";\n}\n"),
];

fn nest_text(k: usize, r: usize) -> String
{
	let (_, prefix, open, inner, close, suffix) = NEST[k];
	let mut s = String::from(prefix);
	for _ in 0..r
	{
		s.push_str(open);
	}
	s.push_str(inner);
	for _ in 0..r
	{
		s.push_str(close);
	}
	s.push_str(suffix);
	s
}

fn push_prefix_jobs(jobs: &mut Vec<Value>, space: &str, n: usize, len: usize)
{
	push_prefix_jobs_wrap(jobs, space, n, len, false);
}

fn push_prefix_jobs_wrap(jobs: &mut Vec<Value>, space: &str, n: usize, len: usize, wrap: bool)
{
	if len <= 2
	{
		jobs.push(json!({"space": space, "n": n, "len": len, "prefix": [], "wrap": wrap}));
	}
	else
	{
		let two = (n as u64).pow(len as u32) > 400_000;
		for a in 0..n
		{
			if two
			{
				for b in 0..n
				{
					jobs.push(json!({"space": space, "n": n, "len": len, "prefix": [a, b], "wrap": wrap}));
				}
			}
			else
			{
				jobs.push(json!({"space": space, "n": n, "len": len, "prefix": [a], "wrap": wrap}));
			}
		}
	}
}

pub fn work(spec: &Value, w: &mut WorkerCtx)
{
	if let Some(case) = spec.get("replay")
	{
		let files = case_files(case);
		judge(&files, || case.clone(), w);
		return;
	}
	let space = spec["space"].as_str().unwrap();
	match space
	{
		"tok" | "char" | "frag" =>
		{
			let n = spec["n"].as_u64().unwrap() as usize;
			let len = spec["len"].as_u64().unwrap() as usize;
			let wrap = spec["wrap"].as_bool().unwrap_or(false);
			let prefix: Vec<usize> = spec["prefix"].as_array().unwrap().iter().map(|x| x.as_u64().unwrap() as usize).collect();
			let frags;
			let symbols: Vec<&[u8]> = match space
			{
				"char" => c14::SIGMA_TEXT.iter().map(|s| s.as_bytes()).collect(),
				"frag" =>
				{
					frags = c14::fragments();
					frags.iter().map(|f| f.as_slice()).collect()
				}
				_ => tok::TOKS.iter().map(|t| t.1.as_bytes()).collect(),
			};
			assert_eq!(symbols.len(), n);
			let sep: &[u8] = if space == "tok" { b" " } else { b"" };
			let mut idx = vec![0usize; len];
			for (k, p) in prefix.iter().enumerate()
			{
				idx[k] = *p;
			}
			let fixed = prefix.len();
			let mut buf: Vec<u8> = Vec::new();
			loop
			{
				buf.clear();
				if wrap
				{
					buf.extend_from_slice(b"fn main()\n{\n");
				}
				for (k, i) in idx.iter().enumerate()
				{
					if k > 0
					{
						buf.extend_from_slice(sep);
					}
					buf.extend_from_slice(symbols[*i]);
				}
				if wrap
				{
					buf.extend_from_slice(b"\n}\n");
				}
				w.result.transitions += if len > 0 { 1 } else { 0 };
				if let Ok(text) = std::str::from_utf8(&buf)
				{
					let t = text.to_string();
					judge(&[("m.pn".to_string(), t.clone())], || json!({"text": t}), w);
				}
				let mut k = len;
				loop
				{
					if k == fixed
					{
						return;
					}
					k -= 1;
					idx[k] += 1;
					if idx[k] < n
					{
						break;
					}
					idx[k] = 0;
				}
			}
		}
		"tokbfs" =>
		{
			for item in spec["items"].as_array().unwrap()
			{
				let base = tok::decode(item.as_str().unwrap());
				for t in 0..tok::TOKS.len()
				{
					let mut seq = base.clone();
					seq.push(t as u8);
					let text = tok::render(&seq);
					w.result.transitions += 1;
					let v = judge(&[("m.pn".to_string(), text.clone())], || json!({"text": text, "tokens": tok::encode(&seq)}), w);
					let Some(v) = v
					else
					{
						continue;
					};
					let expandable = match &v
					{
						Verdict::Ok { .. } => true,
						Verdict::Rejected { diags, .. } => !diags.is_empty() && diags.iter().all(|d| d.code == 100),
						_ => false,
					};
					if expandable
					{
						w.result.frontier.push(tok::encode(&seq));
					}
				}
			}
		}
		"faults" =>
		{
			let fams = ast::families(true);
			let fi = spec["family"].as_u64().unwrap() as usize;
			let stride = spec["stride"].as_u64().unwrap() as usize;
			let (_, mods) = &fams[fi];
			let mut i = spec["lo"].as_u64().unwrap() as usize;
			let hi = spec["hi"].as_u64().unwrap() as usize;
			while i < hi
			{
				let tokens = grammar::module_tokens(&mods[i]);
				let base = grammar::render_tokens(&tokens, Layout::Canonical);
				w.result.transitions += 1;
				judge(&[("m.pn".to_string(), base.clone())], || json!({"text": base}), w);
				faults_of_tokens(&tokens, w);
				i += stride;
			}
		}
		"corpus" =>
		{
			let path = spec["file"].as_str().unwrap();
			let Ok(text) = std::fs::read_to_string(path)
			else
			{
				return;
			};
			w.result.transitions += 1;
			let name = path.to_string();
			let base_name = path.rsplit('/').next().unwrap_or(path).to_string();
			judge(&[(name.clone(), text.clone())], || json!({"corpus_file": name, "sig_hint": format!("corpus={base_name}"), "size": 1000}), w);
			if spec["faults"].as_bool().unwrap_or(false) && text.len() < spec["max_len"].as_u64().unwrap_or(6000) as usize
			{
				// tokens of the file according to the reference lexer (comments are dropped)
				let toks = reflex::lex(text.as_bytes());
				let tokens: Vec<String> = toks.iter().map(|t| text[t.start..t.end].to_string()).collect();
				if tokens.len() <= 400
				{
					faults_of_tokens(&tokens, w);
				}
			}
		}
		"nest" =>
		{
			let k = spec["k"].as_u64().unwrap() as usize;
			let r = spec["r"].as_u64().unwrap() as usize;
			let text = nest_text(k, r);
			w.result.transitions += 1;
			let name = NEST[k].0;
			judge(&[("m.pn".to_string(), text)], || json!({"nest": name, "k": k, "r": r, "size": r, "sig_hint": format!("nesting={name}")}), w);
		}
		"graphs" =>
		{
			let n = spec["n"].as_u64().unwrap() as usize;
			let mask = spec["mask"].as_u64().unwrap() as usize;
			let kinds = crate::checks::c11::kinds_of(n, mask);
			// every order of the containers; `main` stays last
			let perms: Vec<Vec<usize>> = crate::util::permutations(n).into_iter().map(|mut p| { p.push(n); p }).collect();
			for code in spec["lo"].as_u64().unwrap()..spec["hi"].as_u64().unwrap()
			{
				let edges = if n == 4
				{
					let mut e = vec![vec![0u8; 4]; 4];
					let mut c = code;
					for u in 0..4
					{
						for v in 0..4
						{
							if u != v
							{
								e[u][v] = (c & 1) as u8;
								c >>= 1;
							}
						}
					}
					e
				}
				else
				{
					crate::checks::c11::decode_graph(n, code, false, &kinds)
				};
				for p in &perms
				{
					let text = crate::checks::c11::graph_program(&kinds, &edges, p);
					w.result.transitions += 1;
					judge(&[("m.pn".to_string(), text.clone())], || json!({"text": text, "sig_hint": "dependency graph"}), w);
				}
			}
		}
		"legality" =>
		{
			let cells = crate::checks::c11::legality_cells();
			for i in spec["lo"].as_u64().unwrap() as usize..spec["hi"].as_u64().unwrap() as usize
			{
				for text in &cells[i].1
				{
					w.result.transitions += 1;
					judge(&[("m.pn".to_string(), text.clone())], || json!({"text": text, "sig_hint": "type term in a declaration position"}), w);
				}
			}
		}
		"builtins" =>
		{
			let programs = builtin_programs();
			for i in spec["lo"].as_u64().unwrap() as usize..spec["hi"].as_u64().unwrap() as usize
			{
				let (what, text) = &programs[i];
				w.result.transitions += 1;
				let name = what.split(' ').next().unwrap_or("").to_string();
				judge(&[("m.pn".to_string(), text.clone())], || json!({"text": text, "what": what, "sig_hint": format!("built-in {name}")}), w);
			}
		}
		"bodies04" | "bodies05" | "trees06" =>
		{
			let mut texts: Vec<String> = Vec::new();
			let n = spec["n"].as_u64().unwrap() as usize;
			match space
			{
				"bodies04" =>
				{
					let mut sp = crate::spaces::body::BodySpace::new(crate::checks::c04::ATOMS);
					sp.for_each(n, 3, spec["first"].as_str().unwrap(), &mut |forest| {
						for variant in 0..3
						{
							texts.push(crate::checks::c04::render(variant, forest).0);
						}
					});
				}
				"bodies05" =>
				{
					let mut sp = crate::spaces::body::BodySpace::new(crate::checks::c05::ATOMS);
					sp.for_each(n, 2, spec["first"].as_str().unwrap(), &mut |forest| {
						for variant in 0..3
						{
							texts.push(crate::checks::c05::render(variant, forest).0);
						}
					});
				}
				_ =>
				{
					let mut g = crate::checks::c06::Gen::new();
					g.for_each(n, 4, spec["k"].as_u64().unwrap() as usize, 0, 1, &mut |forest| {
						texts.push(crate::checks::c06::render(forest).0);
					});
				}
			}
			for text in texts
			{
				w.result.transitions += 1;
				judge(&[("m.pn".to_string(), text.clone())], || json!({"text": text, "sig_hint": "function body"}), w);
			}
		}
		"modules" =>
		{
			let first = spec["first"].as_u64().unwrap() as usize;
			let n = MODULE_KINDS.len();
			let mut seqs: Vec<Vec<usize>> = vec![vec![first]];
			for b in 0..n
			{
				seqs.push(vec![first, b]);
				for c in 0..n
				{
					seqs.push(vec![first, b, c]);
				}
			}
			for seq in seqs
			{
				let files = module_files(&seq);
				w.result.transitions += 1;
				let kinds: Vec<&str> = seq.iter().map(|k| MODULE_KINDS[*k].0).collect();
				judge(&files, || json!({"modules": seq, "kinds": kinds, "sig_hint": format!("modules={}", kinds.join("+")), "size": seq.len()}), w);
			}
		}
		_ => panic!("unknown space {space}"),
	}
}

fn module_files(seq: &[usize]) -> Vec<(String, String)>
{
	seq.iter()
		.enumerate()
		.map(|(i, k)| {
			let fname = if i + 1 == seq.len() { "main".to_string() } else { format!("f{i}") };
			let mut text = MODULE_KINDS[*k].1.replace("{f}", &fname);
			if fname == "main"
			{
				// main must not take parameters / must return nothing or i32: adapt the kinds whose
				// function has a signature
				text = text.replace("fn main(x: i32)", "fn main()\n{\n\tinner(1);\n}\nfn inner(x: i32)");
			}
			(format!("m{i}.pn"), text)
		})
		.collect()
}

fn case_files(case: &Value) -> Vec<(String, String)>
{
	if let Some(seq) = case.get("modules").and_then(|m| m.as_array())
	{
		let seq: Vec<usize> = seq.iter().map(|x| x.as_u64().unwrap() as usize).collect();
		return module_files(&seq);
	}
	if let Some(k) = case.get("nest").and_then(|_| case["k"].as_u64())
	{
		return vec![("m.pn".to_string(), nest_text(k as usize, case["r"].as_u64().unwrap() as usize))];
	}
	if let Some(p) = case.get("corpus_file").and_then(|p| p.as_str())
	{
		return vec![(p.to_string(), std::fs::read_to_string(p).unwrap_or_default())];
	}
	vec![("m.pn".to_string(), case["text"].as_str().unwrap_or("").to_string())]
}

fn faults_of_tokens(tokens: &[String], w: &mut WorkerCtx)
{
	let n = tokens.len();
	let mut run = |toks: Vec<&str>, w: &mut WorkerCtx| {
		let text = toks.join(" ") + "\n";
		w.result.transitions += 1;
		judge(&[("m.pn".to_string(), text.clone())], || json!({"text": text}), w);
	};
	for i in 0..n
	{
		// delete
		let mut t: Vec<&str> = tokens.iter().map(|s| s.as_str()).collect();
		t.remove(i);
		run(t, w);
		// duplicate
		let mut t: Vec<&str> = tokens.iter().map(|s| s.as_str()).collect();
		t.insert(i, tokens[i].as_str());
		run(t, w);
		// swap
		if i + 1 < n
		{
			let mut t: Vec<&str> = tokens.iter().map(|s| s.as_str()).collect();
			t.swap(i, i + 1);
			run(t, w);
		}
		// replace
		for r in FAULT_TOKENS
		{
			if tokens[i] == r
			{
				continue;
			}
			let mut t: Vec<&str> = tokens.iter().map(|s| s.as_str()).collect();
			t[i] = r;
			run(t, w);
		}
	}
}

pub fn judge(files: &[(String, String)], desc: impl Fn() -> Value, w: &mut WorkerCtx) -> Option<Verdict>
{
	w.result.states += 1;
	let d = desc().to_string().into_bytes();
	let size: u64 = desc().get("size").and_then(|s| s.as_u64()).unwrap_or_else(|| files.iter().map(|f| f.1.len() as u64).sum());
	let outcome = w.run_case(&d, || alpha::alpha_pipeline(files, alpha::FULL));
	match outcome
	{
		CaseOutcome::Done(v) =>
		{
			w.result.validated += 1;
			match &v
			{
				Verdict::Ok { irs, .. } =>
				{
					if irs.iter().any(|ir| ir.is_empty())
					{
						w.result.outcome("ok-without-IR:VIOLATION");
						w.result.violation("success-without-IR", size, &desc, || "compilation succeeded but a module has no IR text".to_string());
					}
					else
					{
						w.result.outcome("ok");
						if size > 30
						{
							w.result.sample(|| json!({"input": files.iter().map(|f| f.1.chars().take(160).collect::<String>()).collect::<Vec<_>>(), "outcome": "ok"}));
						}
					}
				}
				Verdict::Rejected { diags, stage } =>
				{
					if diags.is_empty()
					{
						w.result.outcome("rejected-without-diagnostics:VIOLATION");
						// witness class: the space the input comes from and the kinds of declarations in it
						let hint = desc().get("sig_hint").and_then(|h| h.as_str()).map(|h| h.to_string()).unwrap_or_else(|| "other".to_string());
						let mut kinds: Vec<&str> = Vec::new();
						for f in files
						{
							for (kw, name) in [("fn ", "fn"), ("const ", "const"), ("struct ", "struct"), ("word", "word"), ("import ", "import")]
							{
								if f.1.contains(kw) && !kinds.contains(&name)
								{
									kinds.push(name);
								}
							}
						}
						kinds.sort();
						w.result.violation(&format!("failure-without-diagnostics:{stage}:{hint}:{}", kinds.join("+")), size, &desc, || format!("compilation failed at stage '{stage}' with an empty list of errors"));
					}
					else
					{
						w.result.outcome(&format!("rejected:E{}", diags[0].code));
					}
				}
				Verdict::InternalError(e) =>
				{
					w.result.outcome("internal-error:VIOLATION");
					let sig: String = crate::pool::normalise_message(e).chars().take(50).collect();
					w.result.violation(&format!("internal-error:{sig}"), size, &desc, || format!("the compiler returned an internal error instead of a diagnostic: {e}"));
				}
			}
			Some(v)
		}
		CaseOutcome::Panicked { site, message } =>
		{
			w.result.outcome("panicked:VIOLATION");
			let sig = format!("panic@{}", crate::util::site_signature(&site, &message));
			w.result.violation(&sig, size, &desc, || format!("panic at {site}: {message}"));
			None
		}
		CaseOutcome::Crashed { .. } => None,
	}
}
