//! C01 — compiled programs behave as their source prescribes.
//!
//! Four exhaustive families, every member compiled by the real pipeline, executed with lli and
//! compared on its full standard output and exit status with a reference:
//!  1. operator x type x operand matrix (arithmetic and casts through C10's cells, all six
//!     comparisons on every type, printing of every type);
//!  2. control flow: all bodies over {x = x + 1, x = x * 2, print, if x == k goto, if x < k goto,
//!     goto, labels, loop, if-else} up to a size bound, against the reference interpreter;
//!  3. data access: element type x storage x access path x way of reaching it (direct, pointer
//!     variable, pointer parameter, aggregate pointer parameter, view parameter, re-pointing),
//!     with every caller-visible location printed before and after;
//!  4. layout: every program of the families re-rendered with each single-gap layout deviation
//!     and with redundant parentheses must give the same IR (or, if the IR differs, the same
//!     output).

use crate::checks::c10;
use crate::driver::Driver;
use crate::model::flow::{self, AOp, Op};
use crate::model::intval::{INT_TYPES, IntTy};
use crate::model::labels::{self, L};
use crate::model::reflex;
use crate::pool::{CaseOutcome, WorkerCtx};
use crate::spaces::body::{self, B, BodySpace};
use crate::subjects::alpha::{self, Verdict};
use crate::subjects::exec::run_lli;
use serde_json::{Value, json};

// ---------------------------------------------------------------------------------------------
// Family 1: comparisons

const CMP: [&str; 6] = ["==", "!=", "<", ">", "<=", ">="];

fn lit(t: &IntTy, v: u128) -> String
{
	if t.is_negative(v) { format!("-{}", t.neg(v)) } else { v.to_string() }
}

/// One program per (type, chunk): prints one character per cell.
fn comparison_program(t: &IntTy, vals: &[u128]) -> (String, String)
{
	let mut text = String::from("fn main() -> u8\n{\n");
	let mut expected = String::new();
	for (i, a) in vals.iter().enumerate()
	{
		text.push_str(&format!("\tvar a{i}: {} = {};\n", t.name, lit(t, *a)));
	}
	let mut n = 0;
	for (i, a) in vals.iter().enumerate()
	{
		for (j, b) in vals.iter().enumerate()
		{
			for op in CMP
			{
				// both through variables, and variable against literal (folded differently)
				text.push_str(&format!("\tif a{i} {op} a{j}\n\t{{\n\t\tprint!(\"1\");\n\t}}\n\telse\n\t{{\n\t\tprint!(\"0\");\n\t}}\n"));
				expected.push(if t.compare(op, *a, *b) { '1' } else { '0' });
				text.push_str(&format!("\tif a{i} {op} {}\n\t{{\n\t\tprint!(\"1\");\n\t}}\n\telse\n\t{{\n\t\tprint!(\"0\");\n\t}}\n", lit(t, *b)));
				expected.push(if t.compare(op, *a, *b) { '1' } else { '0' });
				n += 2;
				if n % 64 == 0
				{
					text.push_str("\tprint!(\"\\n\");\n");
					expected.push('\n');
				}
			}
		}
	}
	text.push_str("\tprint!(\"\\n\");\n\treturn: 42\n}\n");
	expected.push('\n');
	(text, expected)
}

fn other_comparisons() -> (String, String)
{
	// bool and char8 equality; char8 values
	let mut text = String::from("fn main() -> u8\n{\n\tvar t: bool = true;\n\tvar f: bool = false;\n\tvar c: char8 = 'a';\n\tvar d: char8 = 'b';\n");
	let mut expected = String::new();
	for (l, r, eq) in [("t", "t", true), ("t", "f", false), ("f", "f", true), ("t", "true", true), ("f", "true", false), ("c", "c", true), ("c", "d", false), ("c", "'a'", true), ("d", "'a'", false)]
	{
		for (op, want) in [("==", eq), ("!=", !eq)]
		{
			text.push_str(&format!("\tif {l} {op} {r}\n\t{{\n\t\tprint!(\"1\");\n\t}}\n\telse\n\t{{\n\t\tprint!(\"0\");\n\t}}\n"));
			expected.push(if want { '1' } else { '0' });
		}
	}
	text.push_str("\tprint!(\"\\n\", t, \" \", f, \" \", c, d, \"\\n\");\n\treturn: 7\n}\n");
	expected.push_str("\ntrue false ab\n");
	(text, expected)
}

// ---------------------------------------------------------------------------------------------
// Family 2: control flow

const FLOW_ATOMS: usize = 12;

fn flow_op(a: u8) -> Op
{
	match a
	{
		0 => Op::Inc,
		1 => Op::Dbl,
		2 => Op::Print,
		3 => Op::IfEqGoto(3, 0),
		4 => Op::IfLtGoto(4, 0),
		5 => Op::Goto(0),
		6 => Op::Label(0),
		7 => Op::IfEqGoto(6, 1),
		8 => Op::Goto(1),
		9 => Op::Label(1),
		10 => Op::Loop,
		_ => Op::IfElse(2, 5, 1),
	}
}

fn flow_text(a: u8) -> &'static str
{
	match a
	{
		0 => "x = x + 1;",
		1 => "x = x * 2;",
		2 => "print!(x, \" \");",
		3 => "if x == 3 goto A;",
		4 => "if x < 4 goto A;",
		5 => "goto A;",
		6 => "A:",
		7 => "if x == 6 goto B;",
		8 => "goto B;",
		9 => "B:",
		10 => "loop;",
		_ => "if x > 2 { x = x + 5; } else { x = x - 1; }",
	}
}

fn flow_labels(forest: &[B]) -> Vec<L>
{
	forest
		.iter()
		.map(|s| match s
		{
			B::Atom(a) => match flow_op(*a)
			{
				Op::IfEqGoto(_, l) | Op::IfLtGoto(_, l) | Op::Goto(l) => L::Goto(l, 0),
				Op::Label(l) => L::Label(l, 0),
				_ => L::Other,
			},
			B::Block(inner) => L::Block(flow_labels(inner)),
		})
		.collect()
}

fn loops_ok(forest: &[B], top: bool) -> bool
{
	for (i, s) in forest.iter().enumerate()
	{
		match s
		{
			B::Atom(10) =>
			{
				if top || i + 1 != forest.len()
				{
					return false;
				}
			}
			B::Block(inner) =>
			{
				if !loops_ok(inner, false)
				{
					return false;
				}
			}
			_ =>
			{}
		}
	}
	true
}

fn flow_function(name: &str, forest: &[B]) -> String
{
	let mut lines = Vec::new();
	let mut atom_lines = Vec::new();
	body::render_lines(forest, &|a| flow_text(a).to_string(), 1, &mut lines, &mut atom_lines);
	format!("fn {name}() -> i32\n{{\n\tvar x: i32 = 1;\n{}\n\treturn: x\n}}\n", lines.join("\n"))
}

// ---------------------------------------------------------------------------------------------
// Family 8: loops over arrays. All bodies over ten atoms on an i32 `x`, a usize index `i` and an
// array of three i32 elements that lives in one of six storages; bodies that index out of bounds
// (undefined behaviour), do not terminate or have label errors are excluded by the models.

const ARRAY_ATOMS: usize = 10;

fn array_op(a: u8) -> AOp
{
	match a
	{
		0 => AOp::IncI,
		1 => AOp::Store,
		2 => AOp::AddElem,
		3 => AOp::Dbl,
		4 => AOp::IfAtEndGoto(0),
		5 => AOp::Goto(0),
		6 => AOp::Label(0),
		7 => AOp::Loop,
		8 => AOp::Compound,
		9 => AOp::Print,
		// the two atoms of the loop skeleton (not enumerated)
		10 => AOp::IfAtEndGoto(1),
		_ => AOp::Label(1),
	}
}

/// A body inside the loop skeleton `{ if i == |a| goto end; BODY i = i + 1; loop; } end:`, which runs
/// the body once per element.
fn in_loop_skeleton(body: &[B]) -> Vec<B>
{
	let mut inner = vec![B::Atom(10)];
	inner.extend(body.iter().cloned());
	inner.push(B::Atom(0));
	inner.push(B::Atom(7));
	vec![B::Block(inner), B::Atom(11)]
}

/// (name, prelude, parameter list, local declarations, element path with IDX, length expression,
/// declaration in the caller, argument, caller's element path with IDX, guard expression, guard value)
struct ArrayStorage
{
	name: &'static str,
	/// the type of the elements and of `x`
	ty: &'static str,
	prelude: &'static str,
	params: &'static str,
	locals: &'static str,
	path: &'static str,
	len: &'static str,
	caller_decl: &'static str,
	arg: &'static str,
	caller_path: &'static str,
	guard: &'static str,
	guard_value: &'static str,
}

const HOLDER: &str = "struct Holder\n{\n\tpad: i32,\n\tarr: [3]i32,\n\ttail: i32,\n}\n";

const ARRAY_STORAGES: [ArrayStorage; 8] = [
	ArrayStorage { name: "local array", ty: "i32", prelude: "", params: "", locals: "\tvar a: [3]i32 = [10, 20, 30];\n", path: "a[IDX]", len: "|a|", caller_decl: "", arg: "", caller_path: "", guard: "7i32", guard_value: "7" },
	ArrayStorage { name: "slice pointer parameter", ty: "i32", prelude: "", params: "a: &[]i32", locals: "", path: "a[IDX]", len: "|a|", caller_decl: "\tvar cK: [3]i32 = [10, 20, 30];\n", arg: "&cK", caller_path: "cK[IDX]", guard: "7i32", guard_value: "7" },
	ArrayStorage { name: "pointer to a sized array parameter", ty: "i32", prelude: "", params: "a: &[3]i32", locals: "", path: "a[IDX]", len: "|a|", caller_decl: "\tvar cK: [3]i32 = [10, 20, 30];\n", arg: "&cK", caller_path: "cK[IDX]", guard: "7i32", guard_value: "7" },
	ArrayStorage { name: "array member of a local structure", ty: "i32", prelude: HOLDER, params: "", locals: "\tvar s: Holder = Holder { pad: 7, arr: [10, 20, 30], tail: 9 };\n", path: "s.arr[IDX]", len: "|s.arr|", caller_decl: "", arg: "", caller_path: "", guard: "s.pad * 10 + s.tail", guard_value: "79" },
	ArrayStorage { name: "array member behind a pointer to a structure", ty: "i32", prelude: HOLDER, params: "h: &Holder", locals: "", path: "h.arr[IDX]", len: "|h.arr|", caller_decl: "\tvar cK: Holder = Holder { pad: 7, arr: [10, 20, 30], tail: 9 };\n", arg: "&cK", caller_path: "cK.arr[IDX]", guard: "h.pad * 10 + h.tail", guard_value: "79" },
	ArrayStorage { name: "local array of u8", ty: "u8", prelude: "", params: "", locals: "\tvar a: [3]u8 = [10, 20, 30];\n", path: "a[IDX]", len: "|a|", caller_decl: "", arg: "", caller_path: "", guard: "7u8", guard_value: "7" },
	ArrayStorage { name: "slice pointer parameter of i128", ty: "i128", prelude: "", params: "a: &[]i128", locals: "", path: "a[IDX]", len: "|a|", caller_decl: "\tvar cK: [3]i128 = [10, 20, 30];\n", arg: "&cK", caller_path: "cK[IDX]", guard: "7i128", guard_value: "7" },
	ArrayStorage { name: "second row of a local matrix", ty: "i32", prelude: "", params: "", locals: "\tvar m: [3][3]i32 = [[1, 2, 3], [10, 20, 30], [4, 5, 6]];\n", path: "m[1][IDX]", len: "|m[1]|", caller_decl: "", arg: "", caller_path: "", guard: "m[0][2] * 10 + m[2][0]", guard_value: "34" },
];

fn array_text(a: u8, st: &ArrayStorage) -> String
{
	let e = st.path.replace("IDX", "i");
	match a
	{
		0 => "i = i + 1;".to_string(),
		1 => format!("{e} = x;"),
		2 => format!("x = x + {e};"),
		3 => "x = x * 2;".to_string(),
		4 => format!("if i == {} goto A;", st.len),
		5 => "goto A;".to_string(),
		6 => "A:".to_string(),
		7 => "loop;".to_string(),
		8 => format!("if {e} > 15 {{ x = x + 1; }} else {{ {e} = {e} + x; }}"),
		9 => "print!(x, \" \");".to_string(),
		10 => format!("if i == {} goto end;", st.len),
		_ => "end:".to_string(),
	}
}

fn array_labels(forest: &[B]) -> Vec<L>
{
	forest
		.iter()
		.map(|s| match s
		{
			B::Atom(a) => match array_op(*a)
			{
				AOp::IfAtEndGoto(l) | AOp::Goto(l) => L::Goto(l, 0),
				AOp::Label(l) => L::Label(l, 0),
				_ => L::Other,
			},
			B::Block(inner) => L::Block(array_labels(inner)),
		})
		.collect()
}

fn array_loops_ok(forest: &[B], top: bool) -> bool
{
	for (i, s) in forest.iter().enumerate()
	{
		match s
		{
			B::Atom(7) =>
			{
				if top || i + 1 != forest.len()
				{
					return false;
				}
			}
			B::Block(inner) =>
			{
				if !array_loops_ok(inner, false)
				{
					return false;
				}
			}
			_ =>
			{}
		}
	}
	true
}

/// The function for one body and the statements of `main` that call it.
fn array_function(k: usize, si: usize, forest: &[B]) -> (String, String)
{
	let st = &ARRAY_STORAGES[si];
	let mut lines = Vec::new();
	let mut atom_lines = Vec::new();
	body::render_lines(forest, &|a| array_text(a, st), 1, &mut lines, &mut atom_lines);
	let p = |idx: usize| st.path.replace("IDX", &idx.to_string());
	let function = format!(
		"fn f{k}({}) -> {ty}\n{{\n\tvar x: {ty} = 1;\n\tvar i: usize = 0;\n{}{}\n\tprint!(\"=\", x, \" \", i, \" \", {}, \" \", {}, \" \", {}, \" \", {}, \"\\n\");\n\treturn: x\n}}\n",
		st.params,
		st.locals,
		lines.join("\n"),
		p(0),
		p(1),
		p(2),
		st.guard,
		ty = st.ty
	);
	let kk = k.to_string();
	let mut call = st.caller_decl.replace('K', &kk);
	call.push_str(&format!("\tvar r{k}: {} = f{k}({});\n", st.ty, st.arg.replace('K', &kk)));
	if st.caller_path.is_empty()
	{
		call.push_str(&format!("\tprint!(r{k}, \"\\n\");\n"));
	}
	else
	{
		let c = |idx: usize| st.caller_path.replace('K', &kk).replace("IDX", &idx.to_string());
		call.push_str(&format!("\tprint!(r{k}, \" \", {}, \" \", {}, \" \", {}, \"\\n\");\n", c(0), c(1), c(2)));
	}
	(function, call)
}

fn run_array_batch(batch: &[(Vec<B>, flow::ArrayRun)], si: usize, spec: &Value, w: &mut WorkerCtx)
{
	let st = &ARRAY_STORAGES[si];
	let mut text = String::from(st.prelude);
	let mut main = String::from("fn main() -> u8\n{\n");
	let mut expected_f = Vec::new();
	for (k, (forest, run)) in batch.iter().enumerate()
	{
		let (function, call) = array_function(k, si, forest);
		text.push_str(&function);
		main.push_str(&call);
		let mut e = String::new();
		for p in &run.prints
		{
			e.push_str(&format!("{p} "));
		}
		e.push_str(&format!("={} {} {} {} {} {}\n", run.x, run.i, run.a[0], run.a[1], run.a[2], st.guard_value));
		if st.caller_path.is_empty()
		{
			e.push_str(&format!("{}\n", run.x));
		}
		else
		{
			e.push_str(&format!("{} {} {} {}\n", run.x, run.a[0], run.a[1], run.a[2]));
		}
		expected_f.push(e);
	}
	main.push_str("\treturn: 3\n}\n");
	text.push_str(&main);
	let expected: String = expected_f.concat();
	w.result.states += batch.len() as u64;
	let forests: Vec<Value> = batch.iter().map(|b| crate::checks::c04::encode_forest(&b.0)).collect();
	let class = format!("array loops:{}", st.name);
	let ok = expect_output(&text, &expected, 3, &class, json!({"family": "array loops", "n": spec["n"], "first": spec["first"], "storage": si, "skeleton": spec["skeleton"], "batch_forests": forests}), w);
	if ok
	{
		w.result.validated += batch.len() as u64 - 1;
		if let Some(b) = batch.iter().find(|b| b.1.i == 3 && b.1.a != [10, 20, 30])
		{
			w.result.sample(|| json!({"family": "array loops", "storage": st.name, "function": array_function(0, si, &b.0).0, "x": b.1.x, "a": b.1.a}));
		}
	}
}

// ---------------------------------------------------------------------------------------------
// Family 3: data access

const ELEM_TYPES: [(&str, [&str; 6]); 7] = [
	("i8", ["-3", "4", "5", "-128", "127", "99"]),
	("u16", ["3", "4", "5", "65535", "7", "999"]),
	("i32", ["-3", "4", "5", "-2147483648", "2147483647", "99"]),
	("u64", ["3", "4", "5", "18446744073709551615", "7", "99"]),
	("i128", ["-3", "4", "5", "-170141183460469231731687303715884105728", "7", "99"]),
	("bool", ["true", "false", "true", "false", "true", "false"]),
	("char8", ["'a'", "'b'", "'c'", "'d'", "'e'", "'z'"]),
];

/// (name, declarations, list of (location expression, initial value index), target location)
struct Storage
{
	name: &'static str,
	/// statements declaring and initialising the storage, with {T} and {v0}..{v4}
	decl: &'static str,
	/// every location of the storage, in print order
	locations: &'static [&'static str],
	/// index into `locations` of the location that is written
	target: usize,
	/// the aggregate that contains the target (for aggregate-pointer and view modes), its
	/// parameter type with {T}, and the path to the target inside the parameter `q`
	aggregate: Option<(&'static str, &'static str, &'static str)>,
}

const STORAGES: [Storage; 6] = [
	Storage { name: "plain variable", decl: "\tvar s: {T} = {v0};\n\tvar other: {T} = {v1};\n", locations: &["s", "other"], target: 0, aggregate: None },
	Storage {
		name: "array element",
		decl: "\tvar s: [3]{T} = [{v0}, {v1}, {v2}];\n",
		locations: &["s[0]", "s[1]", "s[2]"],
		target: 1,
		aggregate: Some(("s", "[]{T}", "q[1]")),
	},
	Storage {
		name: "struct member",
		decl: "\tvar s: P = P { m: {v0}, n: [{v1}, {v2}], k: {v3} };\n",
		locations: &["s.m", "s.n[0]", "s.n[1]", "s.k"],
		target: 3,
		aggregate: Some(("s", "P", "q.k")),
	},
	Storage {
		name: "array inside struct",
		decl: "\tvar s: P = P { m: {v0}, n: [{v1}, {v2}], k: {v3} };\n",
		locations: &["s.m", "s.n[0]", "s.n[1]", "s.k"],
		target: 2,
		aggregate: Some(("s", "P", "q.n[1]")),
	},
	Storage {
		name: "struct inside array",
		decl: "\tvar s: [2]P = [P { m: {v0}, n: [{v1}, {v2}], k: {v3} }, P { m: {v4}, n: [{v0}, {v1}], k: {v2} }];\n",
		locations: &["s[0].m", "s[0].n[1]", "s[0].k", "s[1].m", "s[1].n[0]", "s[1].n[1]", "s[1].k"],
		target: 3,
		aggregate: Some(("s", "[]P", "q[1].m")),
	},
	Storage {
		name: "two-dimensional array",
		decl: "\tvar s: [2][2]{T} = [[{v0}, {v1}], [{v2}, {v3}]];\n",
		locations: &["s[0][0]", "s[0][1]", "s[1][0]", "s[1][1]"],
		target: 2,
		aggregate: Some(("s", "[][2]{T}", "q[1][0]")),
	},
];

const MODES: [&str; 10] = ["direct write", "write through pointer variable", "write through pointer parameter", "write through pointer to pointer", "write through aggregate pointer parameter", "read through view parameter", "re-pointed pointer", "read through pointer parameter", "write through pointer to the sized array", "read through pointer to the sized array"];

/// Initial value indices of each location for a storage (which of v0..v4 it holds).
fn initial_indices(st: &Storage) -> Vec<usize>
{
	match st.name
	{
		"plain variable" => vec![0, 1],
		"array element" => vec![0, 1, 2],
		"struct member" | "array inside struct" => vec![0, 1, 2, 3],
		"struct inside array" => vec![0, 2, 3, 4, 0, 1, 2],
		_ => vec![0, 1, 2, 3],
	}
}

fn access_program(ti: usize, si: usize, mi: usize) -> Option<(String, String)>
{
	let (t, vals) = ELEM_TYPES[ti];
	let st = &STORAGES[si];
	let mode = MODES[mi];
	let w = vals[5];
	let target = st.locations[st.target];
	let fill = |s: &str| {
		let mut s = s.replace("{T}", t);
		for (k, v) in vals.iter().enumerate().take(5)
		{
			s = s.replace(&format!("{{v{k}}}"), v);
		}
		s
	};
	let show = |v: &str| -> String {
		// how print! shows a value of this type
		if t == "char8" { v.trim_matches('\'').to_string() } else { v.to_string() }
	};
	// Taking the address of an array element is not a documented construct (pointers are made
	// from variables and structure members); the element-level pointer modes apply to targets
	// whose path has no index step.
	let element_pointer_mode = matches!(mode, "write through pointer variable" | "write through pointer parameter" | "write through pointer to pointer" | "re-pointed pointer" | "read through pointer parameter");
	if element_pointer_mode && target.contains('[')
	{
		return None;
	}
	let mut prelude = format!("struct P\n{{\n\tm: {t},\n\tn: [2]{t},\n\tk: {t},\n}}\n");
	let mut main = String::from("fn main() -> u8\n{\n");
	main.push_str(&fill(st.decl));
	let print_all = |main: &mut String| {
		let args: Vec<String> = st.locations.iter().map(|l| format!("{l}, \" \"")).collect();
		main.push_str(&format!("\tprint!({}, \"\\n\");\n", args.join(", ")));
	};
	let idx = initial_indices(st);
	let before: Vec<String> = idx.iter().map(|k| show(vals[*k])).collect();
	let mut after = before.clone();
	let mut extra_expected = String::new();
	print_all(&mut main);
	match mode
	{
		"direct write" =>
		{
			main.push_str(&format!("\t{target} = {w};\n"));
			after[st.target] = show(w);
		}
		"write through pointer variable" =>
		{
			main.push_str(&format!("\tvar p: &{t} = &{target};\n\tp = {w};\n"));
			after[st.target] = show(w);
		}
		"write through pointer parameter" =>
		{
			prelude.push_str(&format!("fn set(p: &{t})\n{{\n\tp = {w};\n}}\n"));
			main.push_str(&format!("\tset(&{target});\n"));
			after[st.target] = show(w);
		}
		"write through pointer to pointer" =>
		{
			prelude.push_str(&format!("fn set2(pp: &&{t})\n{{\n\tpp = {w};\n}}\n"));
			main.push_str(&format!("\tvar p: &{t} = &{target};\n\tset2(&&p);\n"));
			after[st.target] = show(w);
		}
		"write through aggregate pointer parameter" =>
		{
			let (agg, ty, path) = st.aggregate?;
			prelude.push_str(&format!("fn set_in(q: &{})\n{{\n\t{path} = {w};\n}}\n", fill(ty)));
			main.push_str(&format!("\tset_in(&{agg});\n"));
			after[st.target] = show(w);
		}
		"read through view parameter" =>
		{
			let (agg, ty, path) = st.aggregate?;
			prelude.push_str(&format!("fn get_from(q: {}) -> {t}\n{{\n\treturn: {path}\n}}\n", fill(ty)));
			main.push_str(&format!("\tvar r: {t} = get_from({agg});\n\tprint!(r, \"\\n\");\n"));
			extra_expected = format!("{}\n", before[st.target]);
		}
		"write through pointer to the sized array" | "read through pointer to the sized array" =>
		{
			// `&[3]T`, `&[2]P`, `&[2][2]T`: the array passed by pointer with its length in the type
			let (agg, ty, path) = st.aggregate?;
			let rest = ty.strip_prefix("[]")?;
			let outer = st.decl.split("var s: [").nth(1).and_then(|r| r.split(']').next())?;
			let sized = fill(&format!("&[{outer}]{rest}"));
			if mode.starts_with("write")
			{
				prelude.push_str(&format!("fn set_sized(q: {sized})\n{{\n\t{path} = {w};\n}}\n"));
				main.push_str(&format!("\tset_sized(&{agg});\n"));
				after[st.target] = show(w);
			}
			else
			{
				prelude.push_str(&format!("fn get_sized(q: {sized}) -> {t}\n{{\n\treturn: {path}\n}}\n"));
				main.push_str(&format!("\tvar r: {t} = get_sized(&{agg});\n\tprint!(r, \"\\n\");\n"));
				extra_expected = format!("{}\n", before[st.target]);
			}
		}
		"re-pointed pointer" =>
		{
			// a pointer first aimed at another location, then re-pointed to the target
			let other = st.locations.iter().find(|l| !l.contains('[') && **l != target).copied()?;
			main.push_str(&format!("\tvar p: &{t} = &{other};\n\t&p = &{target};\n\tp = {w};\n"));
			after[st.target] = show(w);
		}
		_ =>
		{
			prelude.push_str(&format!("fn get(p: &{t}) -> {t}\n{{\n\treturn: p\n}}\n"));
			main.push_str(&format!("\tvar r: {t} = get(&{target});\n\tprint!(r, \"\\n\");\n"));
			extra_expected = format!("{}\n", before[st.target]);
		}
	}
	print_all(&mut main);
	main.push_str("\treturn: 9\n}\n");
	let expected = format!("{} \n{}{} \n", before.join(" "), extra_expected, after.join(" "));
	Some((format!("{prelude}{main}"), expected))
}


// ---------------------------------------------------------------------------------------------
// Family 6: calls with two or three parameters of every kind and every form of argument

pub const CALL_KINDS: [&str; 5] = ["value", "array view", "struct view", "pointer", "word"];
pub const CALL_CONTEXTS: [&str; 5] = ["typed initialiser", "argument of print!", "operand of an addition", "argument of another call", "statement (callee prints)"];

fn call_forms(kind: usize) -> Vec<(&'static str, i64)>
{
	match kind
	{
		0 => vec![("5", 5), ("k", 7), ("k + 1", 8), ("-k", -7), ("data[1]", 20), ("s.m", 100), ("twice(k)", 14)],
		1 => vec![("data", 23), ("[k, 2, 3]", 5)],
		2 => vec![("s", 100)],
		3 => vec![("&x", 55)],
		_ => vec![("w", 1000)],
	}
}

/// One program per (signature, context) with every combination of argument forms.
pub fn call_shape_program(sig: &[usize], context: usize) -> (String, String)
{
	let weights = [1i64, 3, 7];
	let mut params = Vec::new();
	let mut terms = Vec::new();
	for (i, k) in sig.iter().enumerate()
	{
		let (p, t) = match k
		{
			0 => (format!("v{i}: i32"), format!("v{i}")),
			1 => (format!("a{i}: []i32"), format!("(a{i}[1] + |a{i}| as i32)")),
			2 => (format!("p{i}: S"), format!("p{i}.m")),
			3 => (format!("q{i}: &i32"), format!("q{i}")),
			_ => (format!("w{i}: W"), format!("w{i}.lo")),
		};
		params.push(p);
		terms.push(format!("{t} * {}", weights[i]));
	}
	let sum = terms.join(" + ");
	let mut text = String::from("struct S\n{\n\tm: i32,\n\tn: i32,\n}\nword64 W\n{\n\tlo: i32,\n\thi: i32,\n}\nfn twice(a: i32) -> i32\n{\n\treturn: a * 2\n}\n");
	if context == 4
	{
		text.push_str(&format!("fn f({})\n{{\n\tvar r: i32 = {sum};\n\tprint!(r, \"\\n\");\n}}\n", params.join(", ")));
	}
	else
	{
		text.push_str(&format!("fn f({}) -> i32\n{{\n\treturn: {sum}\n}}\n", params.join(", ")));
	}
	text.push_str("fn run(k: i32)\n{\n\tvar data: [3]i32 = [10, 20, 30];\n\tvar s: S = S { m: 100, n: 200 };\n\tvar w: W = W { lo: 1000, hi: 2000 };\n\tvar x: i32 = 55;\n");
	let mut expected = String::new();
	let forms: Vec<Vec<(&str, i64)>> = sig.iter().map(|k| call_forms(*k)).collect();
	let total: usize = forms.iter().map(|f| f.len()).product();
	for code in 0..total
	{
		let mut c = code;
		let mut args = Vec::new();
		let mut value = 0i64;
		for (i, f) in forms.iter().enumerate()
		{
			let (t, v) = f[c % f.len()];
			c /= f.len();
			args.push(t);
			value += v * weights[i];
		}
		let call = format!("f({})", args.join(", "));
		match context
		{
			0 =>
			{
				text.push_str(&format!("\tvar r{code}: i32 = {call};\n\tprint!(r{code}, \"\\n\");\n"));
				expected.push_str(&format!("{value}\n"));
			}
			1 =>
			{
				text.push_str(&format!("\tprint!({call}, \"\\n\");\n"));
				expected.push_str(&format!("{value}\n"));
			}
			2 =>
			{
				text.push_str(&format!("\tvar r{code}: i32 = {call} + 1;\n\tprint!(r{code}, \"\\n\");\n"));
				expected.push_str(&format!("{}\n", value + 1));
			}
			3 =>
			{
				text.push_str(&format!("\tvar r{code}: i32 = twice({call});\n\tprint!(r{code}, \"\\n\");\n"));
				expected.push_str(&format!("{}\n", value * 2));
			}
			_ =>
			{
				text.push_str(&format!("\t{call};\n"));
				expected.push_str(&format!("{value}\n"));
			}
		}
	}
	text.push_str("}\nfn main() -> u8\n{\n\trun(7);\n\treturn: 6\n}\n");
	(text, expected)
}

// ---------------------------------------------------------------------------------------------
// Family 5: aggregate literals whose elements are constants, variables and expressions

pub const LITERAL_POSITIONS: [&str; 6] = ["typed initialiser", "call argument", "structure member", "rows of a two-dimensional literal", "structure literal", "structure literal, members reversed"];

/// Element i of kind k (0 literal, 1 run-time variable, 2 expression over a run-time variable)
/// and its value; the variables k0..k3 hold 20..23 at run time.
fn literal_element(i: usize, kind: usize) -> (String, i64)
{
	match kind
	{
		0 => (format!("{}", 10 + i), 10 + i as i64),
		1 => (format!("k{i}"), 20 + i as i64),
		_ => (format!("k{i} + 100"), 120 + i as i64),
	}
}

/// One program per (position, n) holding every pattern of element kinds; returns text and output.
pub fn literal_program(position: usize, n: usize) -> (String, String)
{
	let patterns = 3usize.pow(n as u32);
	let mut prelude = String::new();
	let mut body = String::new();
	let mut expected = String::new();
	let print_list = |names: &[String]| -> String {
		let args: Vec<String> = names.iter().map(|l| format!("{l}, \" \"")).collect();
		format!("\tprint!({}, \"\\n\");\n", args.join(", "))
	};
	match position
	{
		1 =>
		{
			let names: Vec<String> = (0..n).map(|i| format!("v[{i}]")).collect();
			prelude.push_str(&format!("fn show(v: []i32)\n{{\n{}}}\n", print_list(&names)));
		}
		2 => prelude.push_str(&format!("struct H\n{{\n\tpre: i32,\n\tarr: [{n}]i32,\n\tpost: i32,\n}}\n")),
		4 | 5 => prelude.push_str("struct Q\n{\n\tm0: i32,\n\tm1: i32,\n\tm2: i32,\n\tm3: i32,\n}\n"),
		_ =>
		{}
	}
	for p in 0..patterns
	{
		let kinds: Vec<usize> = (0..n).map(|i| (p / 3usize.pow(i as u32)) % 3).collect();
		let elems: Vec<(String, i64)> = kinds.iter().enumerate().map(|(i, k)| literal_element(i, *k)).collect();
		let list = elems.iter().map(|e| e.0.clone()).collect::<Vec<_>>().join(", ");
		let values = elems.iter().map(|e| e.1.to_string()).collect::<Vec<_>>();
		match position
		{
			0 =>
			{
				body.push_str(&format!("\tvar a{p}: [{n}]i32 = [{list}];\n"));
				body.push_str(&print_list(&(0..n).map(|i| format!("a{p}[{i}]")).collect::<Vec<_>>()));
				expected.push_str(&format!("{} \n", values.join(" ")));
			}
			1 =>
			{
				body.push_str(&format!("\tshow([{list}]);\n"));
				expected.push_str(&format!("{} \n", values.join(" ")));
			}
			2 =>
			{
				body.push_str(&format!("\tvar h{p}: H = H {{ pre: 1, arr: [{list}], post: 2 }};\n"));
				let mut names = vec![format!("h{p}.pre")];
				names.extend((0..n).map(|i| format!("h{p}.arr[{i}]")));
				names.push(format!("h{p}.post"));
				body.push_str(&print_list(&names));
				expected.push_str(&format!("1 {} 2 \n", values.join(" ")));
			}
			3 =>
			{
				// second row: the same pattern mirrored
				let mirrored: Vec<(String, i64)> = kinds.iter().rev().enumerate().map(|(i, k)| literal_element(i, *k)).collect();
				let list2 = mirrored.iter().map(|e| e.0.clone()).collect::<Vec<_>>().join(", ");
				body.push_str(&format!("\tvar g{p}: [2][{n}]i32 = [[{list}], [{list2}]];\n"));
				let mut names: Vec<String> = (0..n).map(|i| format!("g{p}[0][{i}]")).collect();
				names.extend((0..n).map(|i| format!("g{p}[1][{i}]")));
				body.push_str(&print_list(&names));
				let values2 = mirrored.iter().map(|e| e.1.to_string()).collect::<Vec<_>>();
				expected.push_str(&format!("{} {} \n", values.join(" "), values2.join(" ")));
			}
			_ =>
			{
				// structure literal with four members (n is 4 here)
				let mut members: Vec<String> = (0..4).map(|i| format!("m{i}: {}", elems[i].0)).collect();
				if position == 5
				{
					members.reverse();
				}
				body.push_str(&format!("\tvar q{p}: Q = Q {{ {} }};\n", members.join(", ")));
				body.push_str(&print_list(&(0..4).map(|i| format!("q{p}.m{i}")).collect::<Vec<_>>()));
				expected.push_str(&format!("{} \n", values.join(" ")));
			}
		}
	}
	let text = format!("{prelude}fn run(k0: i32, k1: i32, k2: i32, k3: i32)\n{{\n{body}}}\nfn main() -> u8\n{{\n\trun(20, 21, 22, 23);\n\treturn: 5\n}}\n");
	(text, expected)
}

// ---------------------------------------------------------------------------------------------

pub fn drive(d: &mut Driver)
{
	let quick = d.quick();
	let mut jobs = Vec::new();
	// family 1
	let types: Vec<usize> = if quick { vec![0, 2, 4, 5, 9, 10] } else { (0..INT_TYPES.len()).collect() };
	for ti in &types
	{
		jobs.push(json!({"family": "comparisons", "type": ti}));
		jobs.push(json!({"family": "arithmetic", "type": ti}));
		jobs.push(json!({"family": "casts", "type": ti}));
	}
	jobs.push(json!({"family": "other comparisons"}));
	// family 7: functions and constants of the program that are named like something the compiler
	// declares itself (the C functions behind the built-ins) or like each other
	for i in 0..helper_name_programs().len()
	{
		jobs.push(json!({"family": "helper names", "index": i}));
	}
	d.bound("family 7: programs with functions named abort, write, snprintf (private, extern head) next to built-ins, and a constant sharing its name with a function", json!(helper_name_programs().len()));
	// family 6
	for len in 2..=3usize
	{
		for code in 0..CALL_KINDS.len().pow(len as u32)
		{
			let mut c = code;
			let sig: Vec<usize> = (0..len).map(|_| { let k = c % CALL_KINDS.len(); c /= CALL_KINDS.len(); k }).collect();
			for context in 0..CALL_CONTEXTS.len()
			{
				if quick && len == 3 && context != 0 && context != 4
				{
					continue;
				}
				jobs.push(json!({"family": "call shapes", "signature": sig, "context": context}));
			}
		}
	}
	d.bound("family 6: call shapes", json!({"parameter kinds": CALL_KINDS, "parameters": [2, 3], "argument forms": {"value": ["5", "k", "k + 1", "-k", "data[1]", "s.m", "twice(k)"], "array view": ["data", "[k, 2, 3]"], "struct view": ["s"], "pointer": ["&x"], "word": ["w"]}, "contexts": CALL_CONTEXTS, "quick": "three parameters only as typed initialiser and as statement"}));
	// family 5
	for position in 0..LITERAL_POSITIONS.len()
	{
		for n in 1..=4usize
		{
			if position >= 4 && n != 4
			{
				continue;
			}
			jobs.push(json!({"family": "aggregate literals", "position": position, "n": n}));
		}
	}
	d.bound("family 5: aggregate literals", json!({"positions": LITERAL_POSITIONS, "lengths": [1, 4], "element kinds": ["literal", "run-time variable", "expression over a run-time variable"], "patterns": "all 3^n"}));
	d.bound("family 1: integer types", json!(types.iter().map(|i| INT_TYPES[*i].name).collect::<Vec<_>>()));
	d.bound("family 1: operand values per type", json!(if quick { 8 } else { 14 }));
	// family 2
	let nflow = if quick { 4 } else { 5 };
	let space = BodySpace::new(FLOW_ATOMS);
	for n in 0..=nflow
	{
		for first in space.first_choices(n, 2)
		{
			jobs.push(json!({"family": "control flow", "n": n, "first": first}));
		}
	}
	// family 8: loops over arrays
	let narr = if quick { 3 } else { 4 };
	{
		let space = BodySpace::new(ARRAY_ATOMS);
		for si in 0..ARRAY_STORAGES.len()
		{
			// the quick tier explores one statement more for the local array
			let nmax = if quick && si == 0 { narr + 1 } else { narr };
			for skeleton in [false, true]
			{
				for n in 0..=(if skeleton { narr } else { nmax })
				{
					for first in space.first_choices(n, 2)
					{
						jobs.push(json!({"family": "array loops", "n": n, "first": first, "storage": si, "skeleton": skeleton}));
					}
				}
			}
		}
	}
	d.bound("family 8: atoms", json!((0..ARRAY_ATOMS as u8).map(|a| array_text(a, &ARRAY_STORAGES[0])).collect::<Vec<_>>()));
	d.bound("family 8: storages of the array", json!(ARRAY_STORAGES.iter().map(|s| s.name).collect::<Vec<_>>()));
	d.bound("family 8: max statements (local array one more in the quick tier), nesting depth", json!([narr, 2]));
	d.bound("family 8: every body also inside the loop skeleton", json!("{ if i == |a| goto end; BODY i = i + 1; loop; } end:"));
	d.bound("family 2: atoms", json!((0..FLOW_ATOMS as u8).map(flow_text).collect::<Vec<_>>()));
	d.bound("family 2: max statements, nesting depth", json!([nflow, 2]));
	// family 3
	for ti in 0..ELEM_TYPES.len()
	{
		jobs.push(json!({"family": "data access", "type": ti}));
	}
	d.bound("family 3: element types x storages x access modes", json!([ELEM_TYPES.iter().map(|t| t.0).collect::<Vec<_>>(), STORAGES.iter().map(|s| s.name).collect::<Vec<_>>(), MODES]));
	// family 4
	for ti in 0..ELEM_TYPES.len()
	{
		jobs.push(json!({"family": "layout", "type": ti}));
	}
	d.bound("family 4: layout deviations", json!("every token gap of every data-access program replaced by newline, tab, comment+newline, CRLF; every program with all gaps as newline; redundant parentheses around the written value"));
	jobs.reverse();
	d.phase("compile, execute, compare", jobs);
	d.assume("reference semantics: engine/src/model/intval.rs (fixed-width arithmetic), engine/src/model/flow.rs (control flow), and the direct expectation 'a write changes exactly the written location' for data access; lli-14 executes the IR");
	d.assume("operand values outside the boundary sets, bodies beyond the size bound, libc calls other than the builtin intrinsics and the wasm target are not covered");
}

thread_local! {
	/// The run of the last executed program after `opt-14 -O2` (None when it was not accepted).
	static LAST_OPTIMISED: std::cell::RefCell<Option<Result<crate::subjects::exec::Exec, String>>> = std::cell::RefCell::new(None);
}

fn execute(text: &str, desc_bytes: &[u8], w: &mut WorkerCtx) -> Option<(Verdict, Option<crate::subjects::exec::Exec>)>
{
	let src = text.to_string();
	LAST_OPTIMISED.with(|l| *l.borrow_mut() = None);
	match w.run_case(desc_bytes, || {
		let v = alpha::compile_one(&src, alpha::FULL);
		let exec = match &v
		{
			Verdict::Ok { irs, .. } =>
			{
				// the same program after LLVM's optimiser: behaviour that changes there means the
				// emitted IR relies on undefined behaviour
				let optimised = crate::subjects::exec::optimise(&irs[0]).map(|o| run_lli(&o, 30_000));
				LAST_OPTIMISED.with(|l| *l.borrow_mut() = Some(optimised));
				Some(run_lli(&irs[0], 30_000))
			}
			_ => None,
		};
		(v, exec)
	})
	{
		CaseOutcome::Done(x) => Some(x),
		CaseOutcome::Panicked { site, message } =>
		{
			let sig = format!("panic@{}", crate::util::site_signature(&site, &message));
			let d = String::from_utf8_lossy(desc_bytes).to_string();
			w.result.violation(&sig, 1000, || serde_json::from_str(&d).unwrap_or(Value::Null), || format!("panic at {site}: {message}"));
			None
		}
		CaseOutcome::Crashed { .. } => None,
	}
}

/// Compile, run, compare stdout and exit status.
/// (name, program, expected output, expected exit status)
fn helper_name_programs() -> Vec<(String, String, String, i32)>
{
	let mut out = Vec::new();
	let main = |body: &str| format!("fn main() -> u8\n{{\n\tvar x: i32 = 1;\n{body}\tif x == 2\n\t{{\n\t\tpanic!(\"never\");\n\t}}\n\treturn: 4\n}}\n");
	for helper in ["write", "snprintf", "abort", "memcpy"]
	{
		out.push((
			format!("private function {helper} with a body"),
			format!("fn {helper}(a: i32) -> i32\n{{\n\treturn: a + 1\n}}\n{}", main(&format!("\tprint!(\"v=\", {helper}(4), \" \", x, \"\\n\");\n"))),
			"v=5 1\n".to_string(),
			4,
		));
	}
	out.push((
		"extern head snprintf next to print!".to_string(),
		format!("extern fn snprintf(buf: &[]char8, len: usize, fmt: []char8, v: i32) -> usize;\n{}", main("\tprint!(\"v=\", x, \"\\n\");\n")),
		"v=1\n".to_string(),
		4,
	));
	out.push((
		"extern head abort next to panic!".to_string(),
		format!("extern fn abort();\n{}", main("\tprint!(\"v=\", x, \"\\n\");\n")),
		"v=1\n".to_string(),
		4,
	));
	for flags in ["", "pub "]
	{
		for constant_first in [true, false]
		{
			let constant = "const value: i32 = 7;\n";
			let function = format!("{flags}fn value() -> i32\n{{\n\treturn: value + 1\n}}\n");
			let m = main("\tprint!(\"v=\", value(), \" \", value, \"\\n\");\n");
			let text = if constant_first { format!("{constant}{function}{m}") } else { format!("{function}{m}{constant}") };
			out.push((format!("constant and {flags}function of the same name"), text, "v=8 7\n".to_string(), 4));
		}
	}
	out
}

fn expect_output(text: &str, expected: &str, status: i32, class: &str, replay: Value, w: &mut WorkerCtx) -> bool
{
	let desc = || {
		let mut r = replay.clone();
		r["sig_hint"] = json!(class);
		r
	};
	let d = desc().to_string().into_bytes();
	let Some((v, exec)) = execute(text, &d, w)
	else
	{
		return false;
	};
	match (&v, exec)
	{
		(Verdict::Ok { .. }, Some(exec)) =>
		{
			w.result.validated += 1;
			if exec.stdout != expected || exec.status != Some(status)
			{
				// first differing position
				let k = exec.stdout.chars().zip(expected.chars()).position(|(a, b)| a != b).unwrap_or(exec.stdout.len().min(expected.len()));
				w.result.outcome(&format!("{}:MISMATCH", class.split(':').next().unwrap_or(class)));
				w.result.violation(&format!("wrong-output:{class}"), text.len() as u64, &desc, || {
					format!(
						"{class}: output differs from the reference at character {k} (exit status {:?}, expected {status}; signal {:?})\n--- expected\n{}\n--- observed\n{}\n--- program\n{}",
						exec.status,
						exec.signal,
						expected.chars().take(600).collect::<String>(),
						exec.stdout.chars().take(600).collect::<String>(),
						text.chars().take(1500).collect::<String>()
					)
				});
				return false;
			}
			// the optimised program must behave the same
			match LAST_OPTIMISED.with(|l| l.borrow_mut().take())
			{
				Some(Ok(opt)) =>
				{
					if opt.stdout != exec.stdout || opt.status != exec.status
					{
						w.result.outcome(&format!("{}:CHANGES UNDER OPTIMISATION", class.split(':').next().unwrap_or(class)));
						w.result.violation(&format!("behaviour-changes-under-optimisation:{}", class.split(':').take(2).collect::<Vec<_>>().join(":")), text.len() as u64, &desc, || {
							format!(
								"{class}: after `opt-14 -O2` the program gives status {:?} signal {:?} and prints\n{}\nunoptimised it gives status {:?} and prints\n{}\n(the emitted IR relies on undefined behaviour)\n--- program\n{}",
								opt.status,
								opt.signal,
								opt.stdout.chars().take(400).collect::<String>(),
								exec.status,
								exec.stdout.chars().take(400).collect::<String>(),
								text.chars().take(1500).collect::<String>()
							)
						});
						return false;
					}
				}
				Some(Err(e)) =>
				{
					w.result.violation(&format!("optimiser-rejects-ir:{}", class.split(':').next().unwrap_or(class)), text.len() as u64, &desc, || format!("{class}: opt-14 -O2 fails on the emitted IR: {e}"));
					return false;
				}
				None =>
				{}
			}
			w.result.outcome(&format!("{}:as prescribed", class.split(':').next().unwrap_or(class)));
			true
		}
		(other, _) =>
		{
			let codes = other.codes();
			let lines: Vec<usize> = other.diags().iter().map(|d| d.line).collect();
			let src_lines: Vec<&str> = text.lines().collect();
			let culprit = lines.first().and_then(|l| src_lines.get(l.saturating_sub(1))).map(|s| s.trim().to_string()).unwrap_or_default();
			w.result.outcome(&format!("{}:rejected:MISMATCH", class.split(':').next().unwrap_or(class)));
			let coarse: String = class.split(':').take(2).collect::<Vec<_>>().join(":");
			w.result.violation(&format!("well-formed-program-rejected:E{}:{coarse}", codes.first().copied().unwrap_or(0)), text.len() as u64, &desc, || {
				format!("{class}: rejected with {codes:?}; first culprit line: {culprit}\n{}", text.chars().take(1200).collect::<String>())
			});
			false
		}
	}
}

pub fn work(spec: &Value, w: &mut WorkerCtx)
{
	let spec = if let Some(case) = spec.get("replay") { case.clone() } else { spec.clone() };
	let quick = w.tier == "quick";
	match spec["family"].as_str().unwrap()
	{
		"comparisons" =>
		{
			let t = INT_TYPES[spec["type"].as_u64().unwrap() as usize];
			let mut vals = t.boundary_values();
			let keep = if quick { 8 } else { 14 };
			if vals.len() > keep
			{
				// keep the extremes and the values around zero and the sign boundary
				let n = vals.len();
				let mut picked: Vec<u128> = vec![vals[0], vals[1], vals[2], vals[n - 1], vals[n - 2], vals[n / 2], vals[n / 2 + 1], vals[n / 2 - 1]];
				for v in &vals
				{
					if picked.len() >= keep
					{
						break;
					}
					if !picked.contains(v)
					{
						picked.push(*v);
					}
				}
				vals = picked;
			}
			let (text, expected) = comparison_program(&t, &vals);
			let cells = (vals.len() * vals.len() * 12) as u64;
			w.result.states += cells;
			w.result.transitions += cells;
			if expect_output(&text, &expected, 42, &format!("comparisons:{}", t.name), json!({"family": "comparisons", "type": spec["type"]}), w)
			{
				w.result.validated += cells - 1;
				w.result.sample(|| json!({"family": "comparisons", "type": t.name, "cells": cells, "first_row": expected.lines().next()}));
			}
		}
		"call shapes" =>
		{
			let sig: Vec<usize> = spec["signature"].as_array().unwrap().iter().map(|x| x.as_u64().unwrap() as usize).collect();
			let context = spec["context"].as_u64().unwrap() as usize;
			let (text, expected) = call_shape_program(&sig, context);
			let cells = expected.lines().count() as u64;
			w.result.states += cells;
			w.result.transitions += cells;
			if expect_output(&text, &expected, 6, &format!("call shapes:{}", CALL_CONTEXTS[context]), json!({"family": "call shapes", "signature": sig, "context": context}), w)
			{
				w.result.validated += cells - 1;
			}
		}
		"aggregate literals" =>
		{
			let position = spec["position"].as_u64().unwrap() as usize;
			let n = spec["n"].as_u64().unwrap() as usize;
			let (text, expected) = literal_program(position, n);
			let cells = 3u64.pow(n as u32);
			w.result.states += cells;
			w.result.transitions += cells;
			if expect_output(&text, &expected, 5, &format!("aggregate literals:{}", LITERAL_POSITIONS[position]), json!({"family": "aggregate literals", "position": position, "n": n}), w)
			{
				w.result.validated += cells - 1;
			}
		}
		"helper names" =>
		{
			let i = spec["index"].as_u64().unwrap() as usize;
			let (name, text, expected, status) = helper_name_programs()[i].clone();
			w.result.states += 1;
			w.result.transitions += 1;
			expect_output(&text, &expected, status, &format!("helper names:{name}"), json!({"family": "helper names", "index": i}), w);
		}
		"other comparisons" =>
		{
			let (text, expected) = other_comparisons();
			w.result.states += 18;
			w.result.transitions += 18;
			expect_output(&text, &expected, 7, "comparisons:bool and char8", json!({"family": "other comparisons"}), w);
		}
		"arithmetic" | "casts" =>
		{
			let t = INT_TYPES[spec["type"].as_u64().unwrap() as usize];
			let cells = if spec["family"] == "arithmetic" { c10::binary_cells(&t, quick) } else { c10::cast_cells(&t, quick) };
			for (k, chunk) in cells.chunks(150).enumerate()
			{
				let text = c10::program(chunk);
				let expected: String = chunk.iter().map(|c| format!("{} {}\n", c.expected, c.expected)).collect();
				w.result.states += chunk.len() as u64;
				w.result.transitions += chunk.len() as u64;
				if expect_output(&text, &expected, 0, &format!("{}:{}", spec["family"].as_str().unwrap(), t.name), json!({"family": spec["family"], "type": spec["type"], "chunk": k}), w)
				{
					w.result.validated += chunk.len() as u64 - 1;
				}
			}
		}
		"control flow" =>
		{
			let n = spec["n"].as_u64().unwrap() as usize;
			let first = spec["first"].as_str().unwrap().to_string();
			let mut space = BodySpace::new(FLOW_ATOMS);
			let mut batch: Vec<(Vec<B>, Vec<i32>, i32)> = Vec::new();
			let mut all: Vec<Vec<B>> = Vec::new();
			space.for_each(n, 2, &first, &mut |forest| {
				all.push(forest.to_vec());
			});
			for forest in all
			{
				w.result.transitions += 1;
				if !loops_ok(&forest, true)
				{
					continue;
				}
				let lv = labels::judge(&flow_labels(&forest), &[]);
				if !lv.illegal_gotos.is_empty() || !lv.clashing_labels.is_empty()
				{
					w.result.count("bodies with label errors (excluded, C04's subject)", 1);
					continue;
				}
				match flow::run(&forest, &flow_op, 1, 400, 60)
				{
					None =>
					{
						w.result.count("non-terminating or very long bodies (excluded)", 1);
					}
					Some((prints, x)) =>
					{
						batch.push((forest, prints, x));
						if batch.len() == 40
						{
							run_flow_batch(&batch, &spec, w);
							batch.clear();
						}
					}
				}
			}
			if !batch.is_empty()
			{
				run_flow_batch(&batch, &spec, w);
			}
		}
		"array loops" =>
		{
			let n = spec["n"].as_u64().unwrap() as usize;
			let si = spec["storage"].as_u64().unwrap() as usize;
			let first = spec["first"].as_str().unwrap().to_string();
			let mut space = BodySpace::new(ARRAY_ATOMS);
			let mut all: Vec<Vec<B>> = Vec::new();
			space.for_each(n, 2, &first, &mut |forest| {
				all.push(forest.to_vec());
			});
			let mut batch: Vec<(Vec<B>, flow::ArrayRun)> = Vec::new();
			let skeleton = spec["skeleton"].as_bool().unwrap_or(false);
			for forest in all
			{
				w.result.transitions += 1;
				if !array_loops_ok(&forest, true)
				{
					continue;
				}
				let forest = if skeleton { in_loop_skeleton(&forest) } else { forest };
				let lv = labels::judge(&array_labels(&forest), &[]);
				if !lv.illegal_gotos.is_empty() || !lv.clashing_labels.is_empty()
				{
					w.result.count("array bodies with label errors (excluded, C04's subject)", 1);
					continue;
				}
				let wrap: &dyn Fn(i128) -> i128 = match ARRAY_STORAGES[si].ty
				{
					"u8" => &|v| v.rem_euclid(256),
					"i128" => &|v| v,
					_ => &|v| v as i32 as i128,
				};
				match flow::run_array(&forest, &array_op, [10, 20, 30], wrap, 400, 40)
				{
					None =>
					{
						w.result.count("array bodies that index out of bounds, do not terminate or are very long (excluded)", 1);
					}
					Some(run) =>
					{
						batch.push((forest, run));
						if batch.len() == 40
						{
							run_array_batch(&batch, si, &spec, w);
							batch.clear();
						}
					}
				}
			}
			if !batch.is_empty()
			{
				run_array_batch(&batch, si, &spec, w);
			}
		}
		"data access" | "layout" =>
		{
			let ti = spec["type"].as_u64().unwrap() as usize;
			for si in 0..STORAGES.len()
			{
				for mi in 0..MODES.len()
				{
					let Some((text, expected)) = access_program(ti, si, mi)
					else
					{
						continue;
					};
					let class = format!("{}:{}:{}", spec["family"].as_str().unwrap(), STORAGES[si].name, MODES[mi]);
					if spec["family"] == "data access"
					{
						w.result.states += 1;
						w.result.transitions += 1;
						if expect_output(&text, &expected, 9, &class, json!({"family": "data access", "type": ti, "only": [si, mi]}), w) && si == 4
						{
							w.result.sample(|| json!({"family": "data access", "element_type": ELEM_TYPES[ti].0, "storage": STORAGES[si].name, "mode": MODES[mi], "output": expected}));
						}
					}
					else
					{
						layout_variants(&text, &class, ti, si, mi, w);
					}
				}
			}
		}
		other => panic!("unknown family {other}"),
	}
}

fn run_flow_batch(batch: &[(Vec<B>, Vec<i32>, i32)], spec: &Value, w: &mut WorkerCtx)
{
	let mut text = String::new();
	let mut expected = String::new();
	for (i, (forest, prints, x)) in batch.iter().enumerate()
	{
		text.push_str(&flow_function(&format!("f{i}"), forest));
		for p in prints
		{
			expected.push_str(&format!("{p} "));
		}
		expected.push_str(&format!("={x}\n"));
	}
	text.push_str("fn main() -> u8\n{\n");
	for i in 0..batch.len()
	{
		text.push_str(&format!("\tvar r{i}: i32 = f{i}();\n\tprint!(\"=\", r{i}, \"\\n\");\n"));
	}
	text.push_str("\treturn: 3\n}\n");
	w.result.states += batch.len() as u64;
	let forests: Vec<Value> = batch.iter().map(|b| crate::checks::c04::encode_forest(&b.0)).collect();
	let ok = expect_output(&text, &expected, 3, "control flow", json!({"family": "control flow", "n": spec["n"], "first": spec["first"], "batch_forests": forests}), w);
	if ok
	{
		w.result.validated += batch.len() as u64 - 1;
		if batch.iter().any(|b| b.1.len() >= 3)
		{
			let b = batch.iter().find(|b| b.1.len() >= 3).unwrap();
			w.result.sample(|| json!({"family": "control flow", "function": flow_function("f", &b.0), "prints": b.1, "returns": b.2}));
		}
	}
}

/// Family 4: the same program in deviated layouts must compile to the same IR.
fn layout_variants(text: &str, class: &str, ti: usize, si: usize, mi: usize, w: &mut WorkerCtx)
{
	let toks = reflex::lex(text.as_bytes());
	let spans: Vec<(usize, usize)> = toks.iter().map(|t| (t.start, t.end)).collect();
	let desc = || json!({"family": "layout", "type": ti, "only": [si, mi], "sig_hint": "layout"});
	let d = desc().to_string().into_bytes();
	let base_text = text.to_string();
	let base = match w.run_case(&d, || alpha::compile_one(&base_text, alpha::FULL))
	{
		CaseOutcome::Done(Verdict::Ok { irs, .. }) => irs[0].clone(),
		_ => return,
	};
	let variant = |gap: Option<usize>, filler: &str, all: bool| -> String {
		let mut s = String::new();
		let mut pos = 0;
		for (k, (a, b)) in spans.iter().enumerate()
		{
			let between = &text[pos..*a];
			if k > 0 && (all || gap == Some(k))
			{
				s.push_str(filler);
			}
			else
			{
				s.push_str(between);
			}
			s.push_str(&text[*a..*b]);
			pos = *b;
		}
		s.push_str(&text[pos..]);
		s
	};
	let mut variants: Vec<(String, String)> = Vec::new();
	variants.push(("all gaps newline".into(), variant(None, "\n", true)));
	variants.push(("all gaps comment".into(), variant(None, " // c\n", true)));
	variants.push(("CRLF line ends".into(), text.replace('\n', "\r\n")));
	for k in 1..spans.len()
	{
		for filler in ["\n", "\t", " // c\n", "\r\n"]
		{
			variants.push((format!("gap {k} = {filler:?}"), variant(Some(k), filler, false)));
		}
	}
	// redundant parentheses around the written value / initial values
	let (t, vals) = ELEM_TYPES[ti];
	let _ = t;
	variants.push(("redundant parentheses".into(), text.replace(&format!("= {};", vals[5]), &format!("= (({}));", vals[5]))));
	for (name, v) in variants
	{
		w.result.states += 1;
		w.result.transitions += 1;
		let vt = v.clone();
		match w.run_case(&d, || alpha::compile_one(&vt, alpha::FULL))
		{
			CaseOutcome::Done(Verdict::Ok { irs, .. }) =>
			{
				w.result.validated += 1;
				if irs[0] != base
				{
					// compare behaviour
					let (e1, e2) = (run_lli(&base, 20_000), run_lli(&irs[0], 20_000));
					if e1.stdout != e2.stdout || e1.status != e2.status
					{
						w.result.outcome("layout:MISMATCH");
						let kind = name.split(' ').take(2).collect::<Vec<_>>().join(" ");
						w.result.violation(&format!("layout-changes-behaviour:{}", if name.starts_with("gap") { "single gap".to_string() } else { kind }), v.len() as u64, &desc, || {
							format!("{class}: layout variant '{name}' prints {:?} (status {:?}) instead of {:?} (status {:?})\n{v}", e2.stdout, e2.status, e1.stdout, e1.status)
						});
						continue;
					}
					w.result.count("layout variants with different IR but identical behaviour", 1);
				}
				w.result.outcome("layout:same result");
			}
			CaseOutcome::Done(other) =>
			{
				w.result.outcome("layout:rejected:MISMATCH");
				let codes = other.codes();
				w.result.violation(&format!("layout-variant-rejected:E{}:{}", codes.first().copied().unwrap_or(0), if name.starts_with("gap") { "single gap" } else { &name }), v.len() as u64, &desc, || {
					format!("{class}: layout variant '{name}' is rejected with {codes:?}\n{v}")
				});
			}
			_ =>
			{}
		}
	}
}
