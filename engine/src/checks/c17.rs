//! C17 — the extracted header is exactly the public interface.
//!
//! All sequences of up to 4 (quick) / 5 (thorough) declarations over 9 declaration kinds x
//! {private, pub, pub extern}: the header built by the real `build_header` must print exactly
//! like the parse of the model's projection (pub declarations in order, `pub` cleared, bodies
//! dropped), and read back it must equal the projection's model tree.

use crate::driver::Driver;
use crate::model::grammar::{self, *};
use crate::pool::{CaseOutcome, WorkerCtx};
use crate::subjects::delta::delta_front_mode;
use crate::subjects::trees;
use serde_json::{Value, json};

pub const KINDS: [&str; 9] = ["const", "fn-empty-body", "fn-body-with-return", "fn-large-body", "fn-head", "struct", "word", "opaque-struct", "import"];
pub const FLAGS: [&str; 4] = ["private", "pub", "pub extern", "extern"];

fn r(b: &str) -> Reference
{
	Reference { addr: 0, base: b.into(), steps: vec![] }
}

pub fn make_decl(symbol: usize, position: usize) -> Decl
{
	let kind = KINDS[symbol / FLAGS.len()];
	let flags = match symbol % FLAGS.len()
	{
		0 => Flags { public: false, external: false },
		1 => Flags { public: true, external: false },
		2 => Flags { public: true, external: true },
		_ => Flags { public: false, external: true },
	};
	let name = format!("n{position}");
	let int = |s: &str| Expr::Int(s.to_string());
	match kind
	{
		"const" => Decl::Const { flags, name, ty: Ty::Array(2, Box::new(Ty::Prim("u8"))), value: Expr::Array(vec![int("1"), Expr::Binary("+", Box::new(int("2")), Box::new(Expr::Ref(r("K"))))], false) },
		"fn-empty-body" => Decl::Fn { flags, name, params: vec![], trailing_comma: false, ret: None, body: Some(Body { stmts: vec![], ret: None }) },
		"fn-body-with-return" => Decl::Fn {
			flags,
			name,
			params: vec![("a".into(), Ty::Prim("i32")), ("b".into(), Ty::Ptr(Box::new(Ty::Arraylike(Box::new(Ty::Prim("u8"))))))],
			trailing_comma: false,
			ret: Some(Ty::Prim("i32")),
			body: Some(Body {
				stmts: vec![
					Stmt::Var("x".into(), None, Some(Expr::Binary("+", Box::new(Expr::Ref(r("a"))), Box::new(int("1"))))),
					Stmt::If(Cmp { op: "==", left: Expr::Ref(r("x")), right: int("2") }, Box::new(Stmt::Goto("return".into())), None),
					Stmt::Assign(r("x"), int("3")),
				],
				ret: Some(Expr::Ref(r("x"))),
			}),
		},
		"fn-large-body" =>
		{
			let mut stmts = Vec::new();
			for i in 0..200
			{
				stmts.push(match i % 4
				{
					0 => Stmt::Assign(r("x"), Expr::Binary("*", Box::new(Expr::Ref(r("x"))), Box::new(int("3")))),
					1 => Stmt::Block(vec![Stmt::Call { name: "g".into(), builtin: false, args: vec![Expr::Ref(r("x"))] }]),
					2 => Stmt::If(Cmp { op: "<", left: Expr::Ref(r("x")), right: int("9") }, Box::new(Stmt::Block(vec![])), Some(Box::new(Stmt::Block(vec![Stmt::Loop])))),
					_ => Stmt::Var(format!("v{i}"), Some(Ty::Prim("u8")), None),
				});
			}
			Decl::Fn { flags, name, params: vec![("x".into(), Ty::Prim("i32"))], trailing_comma: true, ret: None, body: Some(Body { stmts, ret: None }) }
		}
		"fn-head" => Decl::Fn {
			flags,
			name,
			params: vec![("p".into(), Ty::Named("S".into()))],
			trailing_comma: false,
			ret: Some(Ty::Ptr(Box::new(Ty::Prim("u8")))),
			body: None,
		},
		"struct" => Decl::Struct {
			flags,
			name,
			word: None,
			members: Some(vec![("x".into(), Ty::Prim("i32")), ("y".into(), Ty::Array(4, Box::new(Ty::Named("P".into()))))]),
			trailing_comma: true,
		},
		"word" => Decl::Struct { flags, name, word: Some(8), members: Some(vec![("x".into(), Ty::Prim("i32")), ("y".into(), Ty::Prim("i32"))]), trailing_comma: false },
		"opaque-struct" => Decl::Struct { flags, name, word: None, members: None, trailing_comma: false },
		_ => Decl::Import { flags, path: format!("m{position}.pn") },
	}
}

pub fn drive(d: &mut Driver)
{
	let quick = d.quick();
	let n = KINDS.len() * FLAGS.len();
	let lmax = if quick { 4 } else { 5 };
	d.bound("declaration kinds", json!(KINDS));
	d.bound("visibility variants", json!(FLAGS));
	d.bound("private extern declarations", json!("in all sequences shorter than the maximum length"));
	d.bound("max declarations per module", json!(lmax));
	let mut jobs = Vec::new();
	for len in 0..=lmax
	{
		if len <= 2
		{
			jobs.push(json!({"len": len, "prefix": [], "restricted": false}));
		}
		else if len <= 4
		{
			for a in 0..n
			{
				if len == lmax && a % FLAGS.len() == 3
				{
					continue;
				}
				jobs.push(json!({"len": len, "prefix": [a], "restricted": len == lmax}));
			}
		}
		else
		{
			for a in 0..n
			{
				for b in 0..n
				{
					if a % FLAGS.len() == 3 || b % FLAGS.len() == 3
					{
						continue;
					}
					jobs.push(json!({"len": len, "prefix": [a, b], "restricted": true}));
				}
			}
		}
	}
	d.phase("declaration sequences", jobs);
	d.assume("the model's projection (grammar::project_header) defines the expected header; the expected XML comes from the real parser run on the rendered projection (differential, no hand-written expectation) and from the model tree");
	d.assume("build_header is only called on trees without errors, its stated precondition");
}

pub fn work(spec: &Value, w: &mut WorkerCtx)
{
	if let Some(case) = spec.get("replay")
	{
		let seq: Vec<usize> = case["sequence"].as_array().unwrap().iter().map(|x| x.as_u64().unwrap() as usize).collect();
		judge(&seq, w);
		return;
	}
	let n = KINDS.len() * FLAGS.len();
	let len = spec["len"].as_u64().unwrap() as usize;
	let prefix: Vec<usize> = spec["prefix"].as_array().unwrap().iter().map(|x| x.as_u64().unwrap() as usize).collect();
	let mut idx = vec![0usize; len];
	for (k, p) in prefix.iter().enumerate()
	{
		idx[k] = *p;
	}
	let fixed = prefix.len();
	let restricted = spec["restricted"].as_bool().unwrap_or(false);
	loop
	{
		// at the longest length only the three visibility variants of the original space
		if !(restricted && idx.iter().any(|s| s % FLAGS.len() == 3))
		{
			w.result.transitions += if len > 0 { 1 } else { 0 };
			judge(&idx, w);
		}
		let mut k = len;
		loop
		{
			if k == fixed
			{
				return;
			}
			k -= 1;
			idx[k] += 1;
			if idx[k] < n
			{
				break;
			}
			idx[k] = 0;
		}
	}
}

fn pattern(seq: &[usize]) -> String
{
	// visibility pattern, e.g. "-P-P" (private / Public), used for signatures
	seq.iter().map(|s| if s % FLAGS.len() == 0 || s % FLAGS.len() == 3 { '-' } else { 'P' }).collect()
}

fn judge(seq: &[usize], w: &mut WorkerCtx)
{
	w.result.states += 1;
	let module: Vec<Decl> = seq.iter().enumerate().map(|(i, s)| make_decl(*s, i)).collect();
	let text = if module.is_empty() { "\n".to_string() } else { grammar::render_module(&module, Layout::OneLine) };
	let projected = grammar::project_header(&module);
	let text2 = if projected.is_empty() { "\n".to_string() } else { grammar::render_module(&projected, Layout::OneLine) };
	let desc = || json!({"sequence": seq, "kinds": seq.iter().map(|s| format!("{} {}", FLAGS[s % FLAGS.len()], KINDS[s / FLAGS.len()])).collect::<Vec<_>>()});
	let d = desc().to_string().into_bytes();
	let size = seq.len() as u64;
	let outcome = w.run_case(&d, || (delta_front_mode(text.as_bytes(), 2), delta_front_mode(text2.as_bytes(), 1)));
	match outcome
	{
		CaseOutcome::Done((full, proj)) =>
		{
			w.result.validated += 1;
			let pat = pattern(seq);
			if !full.accepted() || !proj.accepted()
			{
				w.result.outcome("rejected-MISMATCH");
				w.result.violation("module-or-projection-rejected", size, &desc, || format!("module codes {:?}, projection codes {:?}\n{text}", full.codes(), proj.codes()));
				return;
			}
			let header_xml = full.header_xml.clone().unwrap_or_default();
			let want_xml = proj.xml.clone().unwrap_or_default();
			let mut ok = true;
			if header_xml != want_xml
			{
				ok = false;
				let k = header_xml.iter().zip(want_xml.iter()).position(|(a, b)| a != b).unwrap_or(header_xml.len().min(want_xml.len()));
				let what = if header_xml.len() == want_xml.len() { "content" } else if header_xml.len() < want_xml.len() { "missing" } else { "extra" };
				let tag: String = header_xml.get(k).or(want_xml.get(k)).map(|l| l.chars().take_while(|c| *c != ' ' && *c != '>').collect()).unwrap_or_default();
				w.result.violation(&format!("header-xml-differs:{what}:{tag}"), size, &desc, || {
					format!(
						"visibility pattern {pat}; header XML differs from the XML of the parsed projection at line {k}:\n  header:     {:?}\n  projection: {:?}\nmodule: {text}",
						header_xml.get(k),
						want_xml.get(k)
					)
				});
			}
			match trees::delta_module(&header_xml)
			{
				Err(e) =>
				{
					ok = false;
					let sig: String = crate::pool::normalise_message(&e).chars().take(50).collect();
					w.result.violation(&format!("header-xml-malformed:{sig}"), size, &desc, || format!("pattern {pat}: {e}"));
				}
				Ok(tree) =>
				{
					let want = grammar::module_node(&projected);
					if let Some((path, a, b)) = want.first_difference(&tree)
					{
						ok = false;
						let short: Vec<&str> = path.split('/').collect();
						w.result.violation(&format!("header-tree-differs:{}", short[short.len().saturating_sub(2)..].join("/")), size, &desc, || {
							format!("pattern {pat}: at {path}: projection has {a}, header has {b}")
						});
					}
				}
			}
			if full.header_declarations != projected.len()
			{
				ok = false;
				w.result.violation("header-declaration-count", size, &desc, || format!("header has {} declarations, projection {}", full.header_declarations, projected.len()));
			}
			w.result.outcome(&format!("{} public of {}:{}", projected.len(), seq.len(), if ok { "exact" } else { "MISMATCH" }));
			if ok && projected.len() >= 2 && projected.len() < seq.len()
			{
				w.result.sample(|| json!({"pattern": pat, "kinds": desc()["kinds"], "header_lines": header_xml.len()}));
			}
		}
		CaseOutcome::Panicked { site, message } =>
		{
			w.result.outcome("panicked");
			let sig = format!("panic@{}", crate::util::site_signature(&site, &message));
			w.result.violation(&sig, size, &desc, || format!("panic at {site}: {message}"));
		}
		CaseOutcome::Crashed { .. } =>
		{}
	}
}
