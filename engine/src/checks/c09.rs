//! C09 — literals mean exactly what they say.
//!
//! Integer literals: every type context x boundary value x spelling x sign, compiled and
//! executed; the printed run-time value, the truncation lint L1142 and the rejections E140/E141
//! are compared with an arbitrary-precision model. Character and string literals: every byte
//! value as an escape, every ASCII character raw, every escape form, unicode escapes at the
//! UTF-8 length boundaries, adjacent-literal concatenation; the bytes seen at run time are
//! compared with the reference decoding, malformed literals with E110/E160-E163.

use crate::driver::Driver;
use crate::model::grammar::decode_quoted;
use crate::model::intval::{INT_TYPES, IntTy};
use crate::pool::{CaseOutcome, WorkerCtx};
use crate::subjects::alpha::{self, Verdict};
use crate::subjects::exec::run_lli;
use serde_json::{Value, json};

#[derive(Debug, Clone)]
pub struct Lit
{
	pub text: String,
	/// the literal's own magnitude
	pub magnitude: u128,
	pub negated: bool,
	/// spelling family for signatures
	pub spelling: &'static str,
	pub sign: &'static str,
	pub decimal: bool,
}

pub fn boundary_magnitudes(t: &IntTy) -> Vec<u128>
{
	let mut v = vec![
		0u128,
		1,
		t.max(),
		t.max().wrapping_add(1),
		t.min_magnitude(),
		t.min_magnitude().wrapping_add(1),
		(1u128 << 32) - 1,
		1u128 << 32,
		(1u128 << 32) + 1,
		(1u128 << 64) - 1,
		1u128 << 64,
		(1u128 << 127) - 1,
		1u128 << 127,
		u128::MAX,
		9,
		10,
		255,
		256,
	];
	v.sort();
	v.dedup();
	v
}

fn with_underscores(digits: &str, every: bool) -> String
{
	let mut s = String::new();
	for (i, c) in digits.chars().enumerate()
	{
		s.push(c);
		if i + 1 < digits.len() && (every || i == 0)
		{
			s.push('_');
		}
	}
	s
}

/// All spellings of a magnitude.
pub fn spellings(m: u128) -> Vec<(String, &'static str, bool)>
{
	let dec = m.to_string();
	let hex = format!("{m:x}");
	let bin = format!("{m:b}");
	vec![
		(dec.clone(), "decimal", true),
		(with_underscores(&dec, false), "decimal-underscore-after-first", true),
		(with_underscores(&dec, true), "decimal-underscores-everywhere", true),
		(if m == 0 { dec.clone() } else { format!("{dec}_") }, "decimal-trailing-underscore", true),
		(format!("0x{hex}"), "hex-lower", false),
		(format!("0x{}", hex.to_uppercase()), "hex-upper", false),
		(format!("0x{}", with_underscores(&hex, true)), "hex-underscores", false),
		(format!("0x_{hex}_"), "hex-outer-underscores", false),
		(format!("0x000{hex}"), "hex-leading-zeros", false),
		(format!("0b{bin}"), "binary", false),
		(format!("0b{}", with_underscores(&bin, false)), "binary-underscore", false),
		(format!("0b0000{bin}"), "binary-leading-zeros", false),
	]
}

pub fn literal_cases(t: &IntTy, suffixed: bool) -> Vec<Lit>
{
	let mut out = Vec::new();
	for m in boundary_magnitudes(t)
	{
		for (text, spelling, decimal) in spellings(m)
		{
			let base = if suffixed { format!("{text}{}", t.name) } else { text.clone() };
			out.push(Lit { text: base.clone(), magnitude: m, negated: false, spelling, sign: "plain", decimal });
			if t.signed
			{
				out.push(Lit { text: format!("-{base}"), magnitude: m, negated: true, spelling, sign: "minus", decimal });
				out.push(Lit { text: format!("-({base})"), magnitude: m, negated: true, spelling, sign: "minus-parenthesised", decimal });
			}
		}
	}
	out
}

/// Some(true): in range (no lint allowed); Some(false): out of range (lint required); None: open.
pub fn in_range(t: &IntTy, l: &Lit) -> Option<bool>
{
	if !l.negated
	{
		return Some(l.magnitude <= t.max());
	}
	match l.sign
	{
		"minus" =>
		{
			if l.magnitude <= t.max()
			{
				Some(true)
			}
			else if l.magnitude == t.min_magnitude()
			{
				// -128 for i8: in range when written in decimal ("negated literal"); for hex and
				// binary spellings the documentation does not say whether the minus belongs to
				// the literal
				if l.decimal { Some(true) } else { None }
			}
			else
			{
				Some(false)
			}
		}
		// -(lit): the literal inside the parentheses stands on its own
		_ => Some(l.magnitude <= t.max()),
	}
}

/// The run-time value: the literal truncated to the type, then negated (wrapping).
pub fn runtime_value(t: &IntTy, l: &Lit) -> u128
{
	let v = t.wrap(l.magnitude);
	if l.negated { t.neg(v) } else { v }
}

pub fn integer_program(t: &IntTy, suffixed: bool) -> (String, Vec<Lit>, usize)
{
	let cases = literal_cases(t, suffixed);
	let mut text = String::from("fn main() -> u8\n{\n");
	let first_line = 3;
	for (i, l) in cases.iter().enumerate()
	{
		if suffixed
		{
			text.push_str(&format!("\tvar v{i} = {}; print!(v{i}, \"\\n\");\n", l.text));
		}
		else
		{
			text.push_str(&format!("\tvar v{i}: {} = {}; print!(v{i}, \"\\n\");\n", t.name, l.text));
		}
	}
	text.push_str("\treturn: 0\n}\n");
	(text, cases, first_line)
}

/// Literals that must be rejected: (text of the literal, expected code)
pub fn rejected_integer_literals() -> Vec<(String, u16)>
{
	let mut v: Vec<(String, u16)> = Vec::new();
	for s in [
		"340282366920938463463374607431768211456",
		"340282366920938463463374607431768211461",
		"9999999999999999999999999999999999999999",
		"0x100000000000000000000000000000000",
		"0xfffffffffffffffffffffffffffffffff",
		"1_000_000_000_000_000_000_000_000_000_000_000_000_000_000",
	]
	{
		v.push((s.to_string(), 140));
		v.push((format!("{s}u128"), 140));
	}
	v.push((format!("0b1{}", "0".repeat(128)), 140));
	v.push((format!("0b{}", "1".repeat(129)), 140));
	for s in ["1i7", "1u", "12usiz", "1i128x", "0x1g", "012", "1a", "10i", "0x", "0b", "0b2", "0x_", "1_u", "5uu8", "7I32", "3U8"]
	{
		v.push((s.to_string(), 141));
	}
	v
}

const DUMP: &str = "fn dump(text: []char8)\n{\n\tvar i: usize = 0;\n\tprint!(|text|, \":\");\n\t{\n\t\tif i == |text|\n\t\t\tgoto end;\n\t\tprint!(\" \", text[i] as u8);\n\t\ti = i + 1;\n\t\tloop;\n\t}\n\tend:\n\tprint!(\"\\n\");\n}\n";

/// String literal expressions (possibly several adjacent literals with separators) that must
/// be accepted, with their expected bytes.
pub fn string_cases() -> Vec<(String, Vec<u8>, &'static str)>
{
	let mut v: Vec<(String, Vec<u8>, &'static str)> = Vec::new();
	let mut push = |spell: String, family: &'static str| {
		let bytes = decode_quoted(&spell);
		v.push((spell, bytes, family));
	};
	for b in 0..=255u32
	{
		push(format!("\"\\x{b:02x}\""), "hex escape");
		push(format!("\"a\\x{b:02X}z\""), "hex escape in context");
	}
	for c in 0x20u8..0x7f
	{
		let ch = c as char;
		if ch != '"' && ch != '\\'
		{
			push(format!("\"{ch}\""), "raw ascii");
		}
	}
	for esc in ["n", "r", "t", "\\", "'", "\"", "0"]
	{
		push(format!("\"\\{esc}\""), "simple escape");
		push(format!("\"x\\{esc}y\\{esc}\""), "simple escape repeated");
	}
	for u in ["0", "1", "7f", "80", "7ff", "800", "ffff", "10000", "10ffff", "20ac", "e9", "00e9", "d7ff", "e000", "10FFFF", "41"]
	{
		push(format!("\"\\u{{{u}}}\""), "unicode escape");
	}
	for raw in ["\u{e9}", "\u{20ac}", "\u{1F600}", "\u{80}", "\u{7ff}", "\u{800}", "\u{ffff}", "\u{10000}"]
	{
		push(format!("\"{raw}\""), "raw utf-8");
	}
	// every ordered pair of escape forms in one literal, adjacent and with a character in between
	// (state of the lexer that outlives one escape would show here)
	let forms = ["\\x41", "\\xe9", "\\x00", "\\n", "\\\\", "\\0", "\\u{e9}", "\\u{20ac}", "\\u{10ffff}", "\\u{41}", "\\u{0}", "\u{e9}", "a"];
	for e1 in forms
	{
		for e2 in forms
		{
			push(format!("\"{e1}{e2}\""), "pair of escapes");
			push(format!("\"{e1}-{e2}\""), "pair of escapes");
		}
	}
	push("\"\"".to_string(), "empty");
	push("\"Save up to \\u{20ac}50 or \\xA350 or more!\\0\"".to_string(), "mixed");
	let mut out = v;
	// adjacent literals: concatenation of 2 and 3 literals across spaces, newlines and comments
	for sep in [" ", "\n\t\t", " // c\n\t\t", "  \t ", ""]
	{
		for parts in [vec!["\"ab\"", "\"cd\""], vec!["\"a\"", "\"\"", "\"c\""], vec!["\"\\x41\"", "\"\\n\"", "\"\\u{e9}\""], vec!["\"\"", "\"\""]]
		{
			let spell = parts.join(sep);
			let mut bytes = Vec::new();
			for p in &parts
			{
				bytes.extend(decode_quoted(p));
			}
			out.push((spell, bytes, "adjacent literals"));
		}
	}
	out
}

pub fn char_cases() -> Vec<(String, u8, &'static str)>
{
	let mut v = Vec::new();
	for b in 0..=255u32
	{
		v.push((format!("'\\x{b:02x}'"), b as u8, "hex escape"));
	}
	for c in 0x20u8..0x7f
	{
		let ch = c as char;
		if ch != '\'' && ch != '\\'
		{
			v.push((format!("'{ch}'"), c, "raw ascii"));
		}
	}
	for (esc, b) in [("n", b'\n'), ("r", b'\r'), ("t", b'\t'), ("\\", b'\\'), ("'", b'\''), ("\"", b'"'), ("0", 0u8)]
	{
		v.push((format!("'\\{esc}'"), b, "simple escape"));
	}
	v
}

/// Quoted literals that must be rejected.
pub fn rejected_quoted() -> Vec<(String, u16)>
{
	let mut v: Vec<(String, u16)> = Vec::new();
	for c in (0u8..0x20).chain([0x7fu8])
	{
		if c == b'\n'
		{
			continue;
		}
		let ch = c as char;
		// a lone CR at the end of a line would be a CRLF line ending
		v.push((format!("\"a{ch}b\""), 110));
		v.push((format!("'{ch}'"), 110));
	}
	for s in ["\"\\q\"", "\"\\x4\"", "\"\\xG0\"", "\"\\x\"", "\"\\u41\"", "\"\\u{}\"", "\"\\u{110000}\"", "\"\\u{D800}\"", "\"\\u{DFFF}\"", "\"\\u{1234567}\"", "\"\\u{12\"", "\"\\U{41}\"", "\"\\a\"", "\"\\ \"", "'\\q'", "'\\x4'", "'\\u{41}'"]
	{
		v.push((s.to_string(), 162));
	}
	for s in ["\"abc", "\"", "'a", "'", "\"abc\\\"", "\"ab\\\\\\\""]
	{
		v.push((s.to_string(), 160));
	}
	for s in ["\"abc\\", "'\\"]
	{
		v.push((s.to_string(), 161));
	}
	for s in ["''", "'ab'", "'\u{e9}'", "'\\x41\\x42'"]
	{
		v.push((s.to_string(), 163));
	}
	v
}

pub fn drive(d: &mut Driver)
{
	let mut jobs = Vec::new();
	for (ti, _t) in INT_TYPES.iter().enumerate()
	{
		for suffixed in [false, true]
		{
			jobs.push(json!({"kind": "integers", "type": ti, "suffixed": suffixed}));
		}
	}
	for ti in 0..INT_TYPES.len()
	{
		jobs.push(json!({"kind": "positions", "type": ti}));
	}
	d.bound("literal positions", json!({"positions": POSITIONS.iter().map(|p| p.0).collect::<Vec<_>>(), "values": ["max of the type (no lint)", "max + 1 (lint, wraps)"], "types": 11}));
	let nrej = rejected_integer_literals().len();
	for lo in (0..nrej).step_by(8)
	{
		jobs.push(json!({"kind": "rejected-integers", "lo": lo, "hi": (lo + 8).min(nrej)}));
	}
	let ns = string_cases().len();
	for lo in (0..ns).step_by(80)
	{
		jobs.push(json!({"kind": "strings", "lo": lo, "hi": (lo + 80).min(ns)}));
	}
	for lo in (0..ns).step_by(80)
	{
		jobs.push(json!({"kind": "printed-strings", "lo": lo, "hi": (lo + 80).min(ns)}));
	}
	let nc = char_cases().len();
	for lo in (0..nc).step_by(120)
	{
		jobs.push(json!({"kind": "chars", "lo": lo, "hi": (lo + 120).min(nc)}));
	}
	let nq = rejected_quoted().len();
	for lo in (0..nq).step_by(8)
	{
		jobs.push(json!({"kind": "rejected-quoted", "lo": lo, "hi": (lo + 8).min(nq)}));
	}
	d.bound("integer literals per type context", json!(literal_cases(&INT_TYPES[0], false).len()));
	d.bound("type contexts", json!("11 integer types x {declared type with unsuffixed literal, untyped declaration with suffixed literal}"));
	d.bound("boundary magnitudes", json!(["0", "1", "max", "max+1", "|min|", "|min|+1", "2^32-1", "2^32", "2^32+1", "2^64-1", "2^64", "2^127-1", "2^127", "2^128-1", "9", "10", "255", "256"]));
	d.bound("spellings", json!(spellings(5).iter().map(|s| s.1).collect::<Vec<_>>()));
	d.bound("signs", json!(["plain", "minus", "minus-parenthesised (signed types)"]));
	d.bound("rejected integer literals", json!(nrej));
	d.bound("string cases / char cases / rejected quoted literals", json!([ns, nc, nq]));
	d.phase("literals", jobs);
	d.assume("run-time values are observed through print! and lli-14; the model is arbitrary-precision arithmetic in the engine");
	d.assume("whether a unary minus in front of a hexadecimal or binary literal belongs to the literal (so that -0x80 is in range for i8) is not documented: such cells are not judged for the lint");
}

pub fn work(spec: &Value, w: &mut WorkerCtx)
{
	let spec = if let Some(case) = spec.get("replay") { case.clone() } else { spec.clone() };
	match spec["kind"].as_str().unwrap()
	{
		"integers" =>
		{
			let t = INT_TYPES[spec["type"].as_u64().unwrap() as usize];
			let suffixed = spec["suffixed"].as_bool().unwrap();
			integers(&t, suffixed, &spec, w);
		}
		"positions" =>
		{
			let t = INT_TYPES[spec["type"].as_u64().unwrap() as usize];
			positions(&t, &spec, w);
		}
		"rejected-integers" =>
		{
			let all = rejected_integer_literals();
			for i in spec["lo"].as_u64().unwrap() as usize..spec["hi"].as_u64().unwrap() as usize
			{
				let (lit, code) = &all[i];
				for ctx in ["\tvar v: u128 = {};\n", "\tvar v = {};\n\tvar w: u128 = v;\n"]
				{
					let text = format!("fn main()\n{{\n{}}}\n", ctx.replace("{}", lit));
					expect_rejected(&text, *code, &format!("integer literal {}", shorten(lit)), json!({"kind": "rejected-integers", "lo": i, "hi": i + 1}), w);
				}
			}
		}
		"strings" =>
		{
			let all = string_cases();
			let lo = spec["lo"].as_u64().unwrap() as usize;
			let hi = spec["hi"].as_u64().unwrap() as usize;
			strings(&all[lo..hi], &spec, w);
		}
		"printed-strings" =>
		{
			let all = string_cases();
			let lo = spec["lo"].as_u64().unwrap() as usize;
			let hi = spec["hi"].as_u64().unwrap() as usize;
			printed_strings(&all[lo..hi], &spec, w);
		}
		"chars" =>
		{
			let all = char_cases();
			let lo = spec["lo"].as_u64().unwrap() as usize;
			let hi = spec["hi"].as_u64().unwrap() as usize;
			chars(&all[lo..hi], &spec, w);
		}
		"rejected-quoted" =>
		{
			let all = rejected_quoted();
			for i in spec["lo"].as_u64().unwrap() as usize..spec["hi"].as_u64().unwrap() as usize
			{
				let (lit, code) = &all[i];
				// the literal ends its line (unclosed literals and trailing backslashes need that)
				let text = if lit.starts_with('\'')
				{
					format!("fn main()\n{{\n\tvar c: char8 = {lit}\n\t;\n}}\n")
				}
				else
				{
					format!("fn main()\n{{\n\tvar s: []char8 = {lit}\n\t;\n}}\n")
				};
				expect_rejected(&text, *code, &format!("quoted literal {}", lit.escape_default()), json!({"kind": "rejected-quoted", "lo": i, "hi": i + 1}), w);
				// the same malformed literal behind a well-formed literal of either kind on the same
				// line (what the lexer learned from the first literal must not excuse the second)
				for (first, first_type) in [("'>'", "char8"), ("\"ok\"", "[]char8")]
				{
					let second_type = if lit.starts_with('\'') { "char8" } else { "[]char8" };
					let text = format!("fn take(a: {first_type}, b: {second_type})\n{{\n}}\nfn main()\n{{\n\ttake({first}, {lit}\n\t);\n}}\n");
					w.result.states += 1;
					expect_rejected(&text, *code, &format!("quoted literal {} behind {first}", lit.escape_default()), json!({"kind": "rejected-quoted", "lo": i, "hi": i + 1}), w);
				}
			}
		}
		other => panic!("unknown kind {other}"),
	}
}

/// Cause-level class of a literal case: radix class, sign form and magnitude bucket.
fn lit_class(t: &IntTy, l: &Lit) -> String
{
	let radix = if l.decimal { "decimal" } else if l.spelling.starts_with("hex") { "hex" } else { "binary" };
	let bits = 128 - l.magnitude.leading_zeros();
	let bucket = if l.magnitude == t.min_magnitude() && t.signed
	{
		"=|min|".to_string()
	}
	else if l.magnitude == t.max().wrapping_add(1)
	{
		"=max+1".to_string()
	}
	else
	{
		match bits
		{
			0..=31 => "<2^31".to_string(),
			32 => "32 bits".to_string(),
			33..=63 => "33-63 bits".to_string(),
			64 => "64 bits".to_string(),
			65..=127 => "65-127 bits".to_string(),
			_ => "128 bits".to_string(),
		}
	};
	format!("{}:{radix}:{}:{bucket}", t.name, l.sign)
}

fn shorten(s: &str) -> String
{
	if s.len() > 24 { format!("{}..({} chars)", &s[..12], s.len()) } else { s.to_string() }
}

fn expect_rejected(text: &str, code: u16, what: &str, replay: Value, w: &mut WorkerCtx)
{
	w.result.states += 1;
	w.result.transitions += 1;
	let desc = || replay.clone();
	let d = desc().to_string().into_bytes();
	let t = text.to_string();
	let outcome = w.run_case(&d, || alpha::compile_one(&t, alpha::FULL));
	match outcome
	{
		CaseOutcome::Done(v) =>
		{
			w.result.validated += 1;
			match &v
			{
				Verdict::Rejected { diags, .. } if diags.iter().any(|dg| dg.code == code) => w.result.outcome(&format!("rejected with E{code} as documented")),
				Verdict::Rejected { diags, .. } =>
				{
					let codes: Vec<u16> = diags.iter().map(|d| d.code).collect();
					w.result.outcome("rejected with another code:MISMATCH");
					w.result.violation(&format!("malformed-literal-wrong-code:E{code}-expected:E{}", codes.first().copied().unwrap_or(0)), text.len() as u64, &desc, || format!("{what}: expected E{code}, reported {codes:?}\n{text}"));
				}
				_ =>
				{
					w.result.outcome("malformed literal accepted:MISMATCH");
					w.result.violation(&format!("malformed-literal-accepted:E{code}-expected"), text.len() as u64, &desc, || format!("{what}: expected E{code}, but the program is accepted\n{text}"));
				}
			}
		}
		CaseOutcome::Panicked { site, message } =>
		{
			let sig = format!("panic@{}", crate::util::site_signature(&site, &message));
			w.result.violation(&sig, text.len() as u64, &desc, || format!("{what}: panic at {site}: {message}"));
		}
		CaseOutcome::Crashed { .. } =>
		{}
	}
}

/// Syntactic positions of a literal: (name, declarations before main with {T} {L} {N}, statements
/// in main with {T} {L} {N}, whether the statements print the value)
pub const POSITIONS: [(&str, &str, &str, bool); 9] = [
	("initialiser", "", "\tvar v{N}: {T} = {L};\n\tprint!(v{N}, \"\\n\");\n", true),
	("assignment", "", "\tvar v{N}: {T} = 0;\n\tv{N} = {L};\n\tprint!(v{N}, \"\\n\");\n", true),
	("argument", "fn id{N}(v: {T}) -> {T}\n{\n\treturn: v\n}\n", "\tvar v{N}: {T} = id{N}({L});\n\tprint!(v{N}, \"\\n\");\n", true),
	("return value", "fn get{N}() -> {T}\n{\n\treturn: {L}\n}\n", "\tvar v{N}: {T} = get{N}();\n\tprint!(v{N}, \"\\n\");\n", true),
	("condition", "", "\tvar v{N}: {T} = 1;\n\tif v{N} == {L}\n\t{\n\t\tv{N} = 2;\n\t}\n", false),
	("array element", "", "\tvar v{N}: [2]{T} = [0, {L}];\n\tprint!(v{N}[1], \"\\n\");\n", true),
	("structure member", "struct H{N}\n{\n\tm: {T},\n}\n", "\tvar v{N}: H{N} = H{N} { m: {L} };\n\tprint!(v{N}.m, \"\\n\");\n", true),
	("operand", "", "\tvar z{N}: {T} = 0;\n\tvar v{N}: {T} = z{N} + {L};\n\tprint!(v{N}, \"\\n\");\n", true),
	("constant", "const C{N}: {T} = {L};\n", "\tprint!(C{N}, \"\\n\");\n", true),
];

/// For every position: the maximum of the type (in range) and the maximum plus one (must raise
/// L1142 on the line of the literal and wrap at run time).
fn positions(t: &IntTy, spec: &Value, w: &mut WorkerCtx)
{
	let max: u128 = if t.signed { (1u128 << (t.bits - 1)) - 1 } else if t.bits == 128 { u128::MAX } else { (1u128 << t.bits) - 1 };
	let values: Vec<(u128, bool)> = if t.bits == 128 && !t.signed { vec![(max, true)] } else { vec![(max, true), (max + 1, false)] };
	for (pi, context) in (0..POSITIONS.len()).flat_map(|pi| (0..crate::checks::c07::CONTEXTS.len()).map(move |c| (pi, c)))
	{
		let (pname, decls, stmts, prints) = &POSITIONS[pi];
		let pname = &if context == 0 { pname.to_string() } else { format!("{pname} in a {}", crate::checks::c07::CONTEXTS[context]) };
		let mut head = String::new();
		let mut body = String::new();
		for (n, (value, _)) in values.iter().enumerate()
		{
			let fill = |s: &str| s.replace("{T}", t.name).replace("{L}", &value.to_string()).replace("{N}", &n.to_string());
			head.push_str(&fill(decls));
			body.push_str(&fill(stmts));
		}
		let body = crate::checks::c07::wrap_in_context(&body, context);
		let text = format!("{head}fn main() -> u8\n{{\n{body}\treturn: 0\n}}\n");
		w.result.states += values.len() as u64;
		w.result.transitions += values.len() as u64;
		let desc = || json!({"kind": "positions", "type": spec["type"], "position": pi, "context": context, "text": text, "sig_hint": format!("positions:{pname}")});
		let d = desc().to_string().into_bytes();
		let src = text.clone();
		let outcome = w.run_case(&d, || {
			let v = alpha::compile_one(&src, alpha::FULL);
			let exec = match &v
			{
				Verdict::Ok { irs, .. } => Some(run_lli(&irs[0], 20_000)),
				_ => None,
			};
			(v, exec)
		});
		match outcome
		{
			CaseOutcome::Done((Verdict::Ok { lints, .. }, Some(exec))) =>
			{
				let mut expected_out = String::new();
				for (value, in_range) in &values
				{
					w.result.validated += 1;
					let literal = value.to_string();
					let lines: Vec<usize> = text.lines().enumerate().filter(|(_, l)| l.contains(&literal) && !l.contains(&format!("{literal}0"))).map(|(i, _)| i + 1).collect();
					let linted = lints.iter().any(|x| x.code == 1142 && lines.contains(&x.line));
					if *in_range && linted
					{
						w.result.violation(&format!("L1142-on-in-range-literal:position:{pname}"), 10, &desc, || format!("{} {literal} as {pname}: within range but raises L1142\n{text}", t.name));
					}
					if !*in_range && !linted
					{
						w.result.violation(&format!("out-of-range-literal-without-L1142:position:{pname}"), 10, &desc, || format!("{} {literal} as {pname}: outside the range of the type but no L1142 on its line (lints: {:?})\n{text}", t.name, lints.iter().map(|x| (x.code, x.line)).collect::<Vec<_>>()));
					}
					w.result.outcome(&format!("positions:{}", if *in_range { "in range" } else { "out of range" }));
					if *prints
					{
						// max + 1 wraps to the minimum (signed) or to zero (unsigned)
						let shown = if *in_range { value.to_string() } else if t.signed { format!("-{}", max + 1) } else { "0".to_string() };
						expected_out.push_str(&format!("{shown}\n"));
					}
				}
				if exec.status != Some(0) || exec.stdout != expected_out
				{
					w.result.violation(&format!("wrong-runtime-value:position:{pname}"), 10, &desc, || format!("{} literals as {pname}: the program prints {:?} (status {:?}), expected {expected_out:?}\n{text}", t.name, exec.stdout, exec.status));
				}
			}
			CaseOutcome::Done((other, _)) =>
			{
				let codes = other.codes();
				w.result.violation(&format!("valid-literal-program-rejected:E{}:position:{pname}", codes.first().copied().unwrap_or(0)), 10, &desc, || format!("{} literals as {pname}: rejected with {codes:?}\n{text}", t.name));
			}
			CaseOutcome::Panicked { site, message } =>
			{
				let sig = format!("panic@{}", crate::util::site_signature(&site, &message));
				w.result.violation(&sig, 10, &desc, || format!("panic at {site}: {message}\n{text}"));
			}
			CaseOutcome::Crashed { .. } =>
			{}
		}
	}
}

fn integers(t: &IntTy, suffixed: bool, spec: &Value, w: &mut WorkerCtx)
{
	let (text, cases, first_line) = integer_program(t, suffixed);
	w.result.states += cases.len() as u64;
	w.result.transitions += cases.len() as u64;
	let desc = || json!({"kind": "integers", "type": spec["type"], "suffixed": suffixed, "sig_hint": format!("integers:{}", t.name)});
	let d = desc().to_string().into_bytes();
	let size = 1000;
	let ctx = format!("{}{}", t.name, if suffixed { " (suffix)" } else { " (declared)" });
	let src = text.clone();
	let outcome = w.run_case(&d, || {
		let v = alpha::compile_one(&src, alpha::FULL);
		let exec = match &v
		{
			Verdict::Ok { irs, .. } => Some(run_lli(&irs[0], 20_000)),
			_ => None,
		};
		(v, exec)
	});
	match outcome
	{
		CaseOutcome::Done((v, exec)) =>
		{
			match (&v, exec)
			{
				(Verdict::Ok { lints, .. }, Some(exec)) =>
				{
					let lines: Vec<&str> = exec.stdout.lines().collect();
					if exec.status != Some(0) || lines.len() != cases.len()
					{
						w.result.violation(&format!("execution-failed:{ctx}"), size, &desc, || {
							format!("{ctx}: lli status {:?} signal {:?}, {} lines of output for {} literals; stderr: {}", exec.status, exec.signal, lines.len(), cases.len(), exec.stderr_tail)
						});
						return;
					}
					for (i, l) in cases.iter().enumerate()
					{
						w.result.validated += 1;
						let line = first_line + i;
						let linted = lints.iter().any(|x| x.code == 1142 && x.line == line);
						let expected_value = t.show(runtime_value(t, l));
						let range = in_range(t, l);
						let mut ok = true;
						match range
						{
							Some(true) =>
							{
								if linted
								{
									ok = false;
									w.result.violation(&format!("L1142-on-in-range-literal:{}", lit_class(t, l)), l.text.len() as u64, &desc, || {
										format!("{ctx}: `{}` is within the range of {} but raises L1142", l.text, t.name)
									});
								}
								if lines[i] != expected_value
								{
									ok = false;
									w.result.violation(&format!("wrong-runtime-value:{}", lit_class(t, l)), l.text.len() as u64, &desc, || {
										format!("{ctx}: `{}` should be {expected_value} at run time, the program prints {}", l.text, lines[i])
									});
								}
							}
							Some(false) =>
							{
								if !linted
								{
									ok = false;
									w.result.violation(&format!("out-of-range-literal-without-L1142:{}", lit_class(t, l)), l.text.len() as u64, &desc, || {
										format!("{ctx}: `{}` is outside the range of {} but raises no L1142 (prints {})", l.text, t.name, lines[i])
									});
								}
								if lines[i] != expected_value
								{
									w.result.soft("out-of-range literal is not truncated modulo 2^width", || format!("{ctx}: `{}` prints {} (mod 2^w would be {expected_value})", l.text, lines[i]));
								}
							}
							None =>
							{
								w.result.count("cells not judged for the lint (minus before hex/binary minimum)", 1);
								if lines[i] != expected_value
								{
									ok = false;
									w.result.violation(&format!("wrong-runtime-value:{}", lit_class(t, l)), l.text.len() as u64, &desc, || {
										format!("{ctx}: `{}` should be {expected_value} at run time, the program prints {}", l.text, lines[i])
									});
								}
							}
						}
						let key = format!("{}:{}", match range { Some(true) => "in range", Some(false) => "out of range", None => "unspecified" }, if ok { "as documented" } else { "MISMATCH" });
						w.result.outcome(&key);
						if ok && i % 97 == 0
						{
							w.result.sample(|| json!({"context": ctx, "literal": l.text, "prints": lines[i], "lint": linted}));
						}
					}
					// lints on other lines?
					for x in lints.iter().filter(|x| x.code == 1142)
					{
						if x.line < first_line || x.line >= first_line + cases.len()
						{
							w.result.violation("L1142-on-unexpected-line", size, &desc, || format!("{ctx}: L1142 on line {}", x.line));
						}
					}
				}
				(other, _) =>
				{
					let codes = other.codes();
					w.result.outcome("program rejected:MISMATCH");
					let lines: Vec<usize> = other.diags().iter().map(|d| d.line).collect();
					let culprit = lines.first().and_then(|l| l.checked_sub(first_line)).and_then(|i| cases.get(i)).map(|l| format!("{} ({}, {})", l.text, l.spelling, l.sign)).unwrap_or_default();
					let class = lines.first().and_then(|l| l.checked_sub(first_line)).and_then(|i| cases.get(i)).map(|l| format!("{}:{}", l.spelling, l.sign)).unwrap_or_default();
					w.result.violation(&format!("valid-literal-rejected:E{}:{}:{class}", codes.first().copied().unwrap_or(0), if t.signed { "signed" } else { "unsigned" }), size, &desc, || {
						format!("{ctx}: the program of valid literals is rejected with {codes:?} on lines {lines:?}; first culprit: {culprit}")
					});
				}
			}
		}
		CaseOutcome::Panicked { site, message } =>
		{
			let sig = format!("panic@{}", crate::util::site_signature(&site, &message));
			w.result.violation(&sig, size, &desc, || format!("{ctx}: panic at {site}: {message}"));
		}
		CaseOutcome::Crashed { .. } =>
		{}
	}
}

/// Every string literal printed directly: alone, before and after a formatted argument.
fn printed_strings(cases: &[(String, Vec<u8>, &'static str)], spec: &Value, w: &mut WorkerCtx)
{
	const SEP: &str = "\n@@@\n";
	let forms = ["alone", "before a formatted argument", "after a formatted argument"];
	let mut text = String::from("fn main() -> u8\n{\n");
	let mut expected: Vec<Vec<u8>> = Vec::new();
	for (spell, bytes, _) in cases
	{
		text.push_str(&format!("\tprint!({spell});\n\tprint!(\"\\n@@@\\n\");\n"));
		expected.push(bytes.clone());
		text.push_str(&format!("\tprint!({spell}, 7u8, \"|\");\n\tprint!(\"\\n@@@\\n\");\n"));
		let mut e = bytes.clone();
		e.extend_from_slice(b"7|");
		expected.push(e);
		text.push_str(&format!("\tprint!(7u8, {spell}, \"|\");\n\tprint!(\"\\n@@@\\n\");\n"));
		let mut e = b"7".to_vec();
		e.extend_from_slice(bytes);
		e.push(b'|');
		expected.push(e);
	}
	text.push_str("\treturn: 0\n}\n");
	w.result.states += expected.len() as u64;
	w.result.transitions += expected.len() as u64;
	let desc = || json!({"kind": "printed-strings", "lo": spec["lo"], "hi": spec["hi"], "sig_hint": "printed strings"});
	let d = desc().to_string().into_bytes();
	let src = text.clone();
	let outcome = w.run_case(&d, || {
		let v = alpha::compile_one(&src, alpha::FULL);
		let exec = match &v
		{
			Verdict::Ok { irs, .. } => Some(run_lli(&irs[0], 20_000)),
			_ => None,
		};
		(v, exec)
	});
	match outcome
	{
		CaseOutcome::Done((Verdict::Ok { .. }, Some(exec))) =>
		{
			let pieces: Vec<&str> = exec.stdout.split(SEP).collect();
			if exec.status != Some(0) || pieces.len() != expected.len() + 1
			{
				w.result.violation("execution-failed:printed strings", 1000, &desc, || format!("lli status {:?}, {} pieces for {} prints; {}", exec.status, pieces.len(), expected.len(), exec.stderr_tail));
				return;
			}
			for (i, want) in expected.iter().enumerate()
			{
				w.result.validated += 1;
				let want_text = String::from_utf8_lossy(want).to_string();
				let (spell, bytes, family) = &cases[i / 3];
				if pieces[i] != want_text
				{
					let what = if bytes.contains(&0) { "with a NUL byte" } else if bytes.contains(&b'%') { "with a percent sign" } else { family };
					w.result.outcome("printed string:MISMATCH");
					w.result.violation(&format!("string-literal-printed-differently:{}:{what}", forms[i % 3]), spell.len() as u64, &desc, || format!("print! of the string literal {} ({}) writes {:?}, its bytes are {:?}", spell.escape_default(), forms[i % 3], pieces[i], want_text));
				}
				else
				{
					w.result.outcome("printed string as written");
				}
			}
		}
		CaseOutcome::Done((other, _)) =>
		{
			let codes = other.codes();
			w.result.violation(&format!("valid-string-rejected:E{}:printed", codes.first().copied().unwrap_or(0)), 1000, &desc, || format!("a program printing valid string literals is rejected with {codes:?}"));
		}
		CaseOutcome::Panicked { site, message } =>
		{
			let sig = format!("panic@{}", crate::util::site_signature(&site, &message));
			w.result.violation(&sig, 1000, &desc, || format!("panic at {site}: {message}"));
		}
		CaseOutcome::Crashed { .. } =>
		{}
	}
}

fn strings(cases: &[(String, Vec<u8>, &'static str)], spec: &Value, w: &mut WorkerCtx)
{
	let mut text = String::from(DUMP);
	text.push_str("fn main() -> u8\n{\n");
	for (spell, _, _) in cases
	{
		text.push_str(&format!("\tdump({spell});\n"));
	}
	text.push_str("\treturn: 0\n}\n");
	w.result.states += cases.len() as u64;
	w.result.transitions += cases.len() as u64;
	let desc = || json!({"kind": "strings", "lo": spec["lo"], "hi": spec["hi"], "sig_hint": "strings"});
	let d = desc().to_string().into_bytes();
	let src = text.clone();
	let outcome = w.run_case(&d, || {
		let v = alpha::compile_one(&src, alpha::FULL);
		let exec = match &v
		{
			Verdict::Ok { irs, .. } => Some(run_lli(&irs[0], 20_000)),
			_ => None,
		};
		(v, exec)
	});
	match outcome
	{
		CaseOutcome::Done((v, exec)) => match (&v, exec)
		{
			(Verdict::Ok { .. }, Some(exec)) =>
			{
				let lines: Vec<&str> = exec.stdout.lines().collect();
				if exec.status != Some(0) || lines.len() != cases.len()
				{
					w.result.violation("execution-failed:strings", 1000, &desc, || format!("lli status {:?}, {} lines for {} strings; {}", exec.status, lines.len(), cases.len(), exec.stderr_tail));
					return;
				}
				for (i, (spell, bytes, family)) in cases.iter().enumerate()
				{
					w.result.validated += 1;
					let mut want = format!("{}:", bytes.len());
					for b in bytes
					{
						want.push_str(&format!(" {b}"));
					}
					if lines[i] != want
					{
						w.result.outcome("string bytes:MISMATCH");
						w.result.violation(&format!("wrong-string-bytes:{family}"), spell.len() as u64, &desc, || format!("string literal {} should be the bytes `{want}`, the program sees `{}`", spell.escape_default(), lines[i]));
					}
					else
					{
						w.result.outcome("string bytes as documented");
						if i % 61 == 0
						{
							w.result.sample(|| json!({"string": spell, "length_and_bytes": want}));
						}
					}
				}
			}
			(other, _) =>
			{
				let codes = other.codes();
				let lines: Vec<usize> = other.diags().iter().map(|d| d.line).collect();
				// the dump function has 14 lines, main starts on line 15, first literal on line 17
				let culprit = lines.first().and_then(|l| l.checked_sub(17)).and_then(|i| cases.get(i)).map(|c| (c.0.escape_default().to_string(), c.2)).unwrap_or_default();
				w.result.outcome("valid string rejected:MISMATCH");
				w.result.violation(&format!("valid-string-rejected:E{}:{}", codes.first().copied().unwrap_or(0), culprit.1), 1000, &desc, || format!("a program of valid string literals is rejected with {codes:?} on lines {lines:?}; first culprit: {}", culprit.0));
			}
		},
		CaseOutcome::Panicked { site, message } =>
		{
			let sig = format!("panic@{}", crate::util::site_signature(&site, &message));
			w.result.violation(&sig, 1000, &desc, || format!("strings: panic at {site}: {message}"));
		}
		CaseOutcome::Crashed { .. } =>
		{}
	}
}

fn chars(cases: &[(String, u8, &'static str)], spec: &Value, w: &mut WorkerCtx)
{
	let mut text = String::from("fn main() -> u8\n{\n");
	for (i, (spell, _, _)) in cases.iter().enumerate()
	{
		text.push_str(&format!("\tvar c{i}: char8 = {spell}; print!(c{i} as u8, \"\\n\");\n"));
	}
	text.push_str("\treturn: 0\n}\n");
	w.result.states += cases.len() as u64;
	w.result.transitions += cases.len() as u64;
	let desc = || json!({"kind": "chars", "lo": spec["lo"], "hi": spec["hi"], "sig_hint": "chars"});
	let d = desc().to_string().into_bytes();
	let src = text.clone();
	let outcome = w.run_case(&d, || {
		let v = alpha::compile_one(&src, alpha::FULL);
		let exec = match &v
		{
			Verdict::Ok { irs, .. } => Some(run_lli(&irs[0], 20_000)),
			_ => None,
		};
		(v, exec)
	});
	match outcome
	{
		CaseOutcome::Done((v, exec)) => match (&v, exec)
		{
			(Verdict::Ok { .. }, Some(exec)) =>
			{
				let lines: Vec<&str> = exec.stdout.lines().collect();
				if exec.status != Some(0) || lines.len() != cases.len()
				{
					w.result.violation("execution-failed:chars", 1000, &desc, || format!("lli status {:?}, {} lines for {} chars; {}", exec.status, lines.len(), cases.len(), exec.stderr_tail));
					return;
				}
				for (i, (spell, byte, family)) in cases.iter().enumerate()
				{
					w.result.validated += 1;
					if lines[i] != byte.to_string()
					{
						w.result.outcome("char value:MISMATCH");
						w.result.violation(&format!("wrong-char-value:{family}"), spell.len() as u64, &desc, || format!("character literal {} should be {byte}, the program sees {}", spell.escape_default(), lines[i]));
					}
					else
					{
						w.result.outcome("char value as documented");
					}
				}
			}
			(other, _) =>
			{
				let codes = other.codes();
				let lines: Vec<usize> = other.diags().iter().map(|d| d.line).collect();
				let culprit = lines.first().and_then(|l| l.checked_sub(3)).and_then(|i| cases.get(i)).map(|c| (c.0.escape_default().to_string(), c.2)).unwrap_or_default();
				w.result.outcome("valid char rejected:MISMATCH");
				w.result.violation(&format!("valid-char-rejected:E{}:{}", codes.first().copied().unwrap_or(0), culprit.1), 1000, &desc, || format!("a program of valid character literals is rejected with {codes:?} on lines {lines:?}; first culprit: {}", culprit.0));
			}
		},
		CaseOutcome::Panicked { site, message } =>
		{
			let sig = format!("panic@{}", crate::util::site_signature(&site, &message));
			w.result.violation(&sig, 1000, &desc, || format!("chars: panic at {site}: {message}"));
		}
		CaseOutcome::Crashed { .. } =>
		{}
	}
}
