//! C08 — only vars and explicitly passed pointers can be mutated.
//!
//! Parameter kind x callee action x caller argument form (and a second call level), whole
//! aggregate copies and assignments to constants: verdicts against the documented rules
//! (E530, E531-E533, E513), and for every accepted program the non-interference clause is checked
//! on the executed program: a caller location changes across a call only if the caller wrote `&`.

use crate::driver::Driver;
use crate::pool::{CaseOutcome, WorkerCtx};
use crate::subjects::alpha::{self, Verdict};
use crate::subjects::exec::run_lli;
use serde_json::{Value, json};

const PRELUDE: &str = "fn pick(k: usize) -> usize\n{\n\treturn: k\n}\nfn ignore_n(k: usize)\n{\n}\nstruct S\n{\n\ta: i32,\n\tb: i32,\n}\nword64 W\n{\n\ta: i32,\n\tb: i32,\n}\nconst KONST: i32 = 7;\nconst KARR: [3]i32 = [7, 8, 9];\nstruct T\n{\n\ta: i32,\n\tarr: [3]i32,\n\tinner: S,\n}\nfn take_t(p: T)\n{\n}\nfn take_two(k: usize, p: T)\n{\n}\n";
const STATE_DECL: &str = "\tvar x: i32 = 1;\n\tvar arr: [3]i32 = [10, 20, 30];\n\tvar s: S = S { a: 100, b: 200 };\n\tvar w: W = W { a: 1000, b: 2000 };\n\tvar q: &i32 = &x;\n\tvar t: T = T { a: 5, arr: [6, 7, 8], inner: S { a: 9, b: 11 } };\n";
const PRINT_STATE: &str = "\tprint!(x, \" \", arr[0], \" \", arr[1], \" \", arr[2], \" \", s.a, \" \", s.b, \" \", w.a, \" \", w.b, \" \", t.a, \" \", t.arr[0], \" \", t.arr[1], \" \", t.arr[2], \" \", t.inner.a, \" \", t.inner.b, \"\\n\");\n";
const INITIAL: [i64; 14] = [1, 10, 20, 30, 100, 200, 1000, 2000, 5, 6, 7, 8, 9, 11];
const NAMES: [&str; 14] = ["x", "arr[0]", "arr[1]", "arr[2]", "s.a", "s.b", "w.a", "w.b", "t.a", "t.arr[0]", "t.arr[1]", "t.arr[2]", "t.inner.a", "t.inner.b"];

/// (name, parameter type, read expression, write statement, is pointer kind)
const KINDS: [(&str, &str, &str, &str, bool); 9] = [
	("pointer to endless array", "&[..]i32", "p[0]", "p[0] = 55;", true),
	("value", "i32", "p", "p = 55;", false),
	("word by value", "W", "p.a", "p.a = 55;", false),
	("view of array", "[]i32", "p[0]", "p[0] = 55;", false),
	("view of struct", "S", "p.a", "p.a = 55;", false),
	("slice pointer", "&[]i32", "p[0]", "p[0] = 55;", true),
	("pointer", "&i32", "p", "p = 55;", true),
	("pointer to struct", "&S", "p.a", "p.a = 55;", true),
	("pointer to pointer", "&&i32", "p", "p = 55;", true),
];

/// Argument forms: (text, base type it has without `&`s, number of `&`, location index written
/// when a pointer to it is dereferenced at element 0 / member a)
const ARGS: [(&str, &str, usize, Option<usize>); 16] = [
	("x", "i32", 0, Some(0)),
	("&x", "i32", 1, Some(0)),
	("5", "i32", 0, None),
	("KONST", "i32", 0, None),
	("arr[0]", "i32", 0, Some(1)),
	("s.a", "i32", 0, Some(4)),
	("&s.a", "i32", 1, Some(4)),
	("w.a", "i32", 0, Some(6)),
	("arr", "[3]i32", 0, Some(1)),
	("&arr", "[3]i32", 1, Some(1)),
	("KARR", "[3]i32", 0, None),
	("s", "S", 0, Some(4)),
	("&s", "S", 1, Some(4)),
	("w", "W", 0, Some(6)),
	("q", "&i32", 0, Some(0)),
	("&&q", "&i32", 2, Some(0)),
];

#[derive(Debug, Clone)]
pub struct Cell
{
	pub what: String,
	pub class: String,
	pub text: String,
	/// Some(codes): must be rejected with one of them; Some([]): must be accepted; None: open
	pub expect: Option<Vec<u16>>,
	/// expected state after the call when accepted and specified
	pub after: Option<[i64; 14]>,
	/// whether the caller wrote `&` on the argument (for non-interference)
	pub has_ampersand: bool,
}

fn param_accepts(kind: usize, arg: usize) -> Option<bool>
{
	// Some(true): documented as fine; Some(false): documented error; None: not documented
	let (_, ptype, _, _, _) = KINDS[kind];
	let (text, base, amps, _) = ARGS[arg];
	match ptype
	{
		"i32" => match (base, amps)
		{
			("i32", 0) => Some(true),
			("&i32", 0) => None,
			_ => Some(false),
		},
		"W" => Some(base == "W" && amps == 0),
		"[]i32" => match (base, amps)
		{
			("[3]i32", 0) => Some(true),
			_ => Some(false),
		},
		"S" => Some(base == "S" && amps == 0),
		"&[]i32" => match (base, amps)
		{
			("[3]i32", 1) => Some(text != "&KARR"),
			_ => Some(false),
		},
		"&i32" => match (base, amps)
		{
			("i32", 1) => Some(true),
			("&i32", 0) => None,
			("&i32", _) => None,
			_ => Some(false),
		},
		"&S" => Some(base == "S" && amps == 1),
		// which arguments a pointer to an endless array takes is not documented; such cells
		// are judged for non-interference only
		"&[..]i32" => None,
		_ => match (base, amps)
		{
			("&i32", 2) => Some(true),
			("&i32", _) => None,
			("i32", 2) => None,
			_ => Some(false),
		},
	}
}

pub fn cells() -> Vec<Cell>
{
	let mut out = Vec::new();
	for (k, (kname, ptype, read, write, is_pointer)) in KINDS.iter().enumerate()
	{
		for action in [
			"read",
			"write",
			"write in a branch after comparing with a literal",
			"write in a branch after comparing a literal with it",
			"write in a nested block",
			"write after a label",
			"write after an unrelated comparison",
			"write in an else branch",
			"write in the then branch of an else-if",
			"write in the else branch of an else-if chain",
			"write in a block that loops",
		]
		{
			for (a, (arg, base, amps, target)) in ARGS.iter().enumerate()
			{
				let body = match action
				{
					"read" => format!("\tvar r: i32 = {read};\n"),
					"write" => format!("\t{write}\n"),
					"write in a branch after comparing with a literal" => format!("\tif {read} != 77\n\t{{\n\t\t{write}\n\t}}\n"),
					"write in a branch after comparing a literal with it" => format!("\tif 77i32 != {read}\n\t{{\n\t\t{write}\n\t}}\n"),
					"write in a nested block" => format!("\t{{\n\t\t{{\n\t\t\t{write}\n\t\t}}\n\t}}\n"),
					"write after a label" => format!("\tgoto next;\n\tnext:\n\t{write}\n"),
					"write in an else branch" => format!("\tif 1i32 == 2i32\n\t{{\n\t}}\n\telse\n\t{{\n\t\t{write}\n\t}}\n"),
					"write in the then branch of an else-if" => format!("\tif 1i32 == 2i32\n\t{{\n\t}}\n\telse if 1i32 == 1i32\n\t{{\n\t\t{write}\n\t}}\n"),
					"write in the else branch of an else-if chain" => format!("\tif 1i32 == 2i32\n\t{{\n\t}}\n\telse if 1i32 == 3i32\n\t{{\n\t}}\n\telse\n\t{{\n\t\t{write}\n\t}}\n"),
					"write in a block that loops" => format!("\tvar i: i32 = 0;\n\t{{\n\t\tif i == 1i32\n\t\t\tgoto done;\n\t\ti = i + 1;\n\t\t{write}\n\t\tloop;\n\t}}\n\tdone:\n"),
					_ => format!("\tif 1i32 == 1i32\n\t{{\n\t}}\n\t{write}\n"),
				};
				let action_full = action;
				let action = if action == "read" { "read" } else { "write" };
				let text = format!("{PRELUDE}fn callee(p: {ptype})\n{{\n{body}}}\nfn main() -> u8\n{{\n{STATE_DECL}{PRINT_STATE}\tcallee({arg});\n{PRINT_STATE}\treturn: 0\n}}\n");
				let arg_ok = param_accepts(k, a);
				let mut expect: Option<Vec<u16>>;
				let mut after = None;
				if action == "write" && !is_pointer
				{
					// writing through a by-value parameter or a view is E530, whatever the argument
					expect = Some(vec![530]);
					if arg_ok == Some(false)
					{
						expect = Some(vec![530, 512, 513, 500, 504, 506, 507, 538]);
					}
				}
				else
				{
					match arg_ok
					{
						Some(true) =>
						{
							expect = Some(vec![]);
							let mut st = INITIAL;
							if action == "write"
							{
								if let Some(t) = target
								{
									st[*t] = 55;
								}
							}
							after = Some(st);
						}
						Some(false) =>
						{
							// missing address where a pointer is expected: E513; otherwise a type error
							let missing_address = *amps == 0 && ptype.starts_with('&') && !base.starts_with('&');
							expect = Some(if missing_address { vec![513, 512] } else { vec![512, 513, 500, 504, 506, 507, 530, 538] });
						}
						None => expect = None,
					}
				}
				out.push(Cell {
					what: format!("callee(p: {ptype}): {action_full}; caller passes {arg}"),
					class: format!("{kname}:{action}:{}", if *amps > 0 { "with &" } else { "without &" }),
					text,
					expect,
					after,
					has_ampersand: *amps > 0,
				});
				let _ = base;
			}
		}
	}
	// whole-aggregate copies and constant assignments
	let agg: [(&str, &str, u16); 22] = [
		// the same copies with a call of an unrelated function earlier in the statement or just before it
		("copy array into a row chosen by a call", "\tvar mm: [2][3]i32 = [[1, 2, 3], [4, 5, 6]];\n\tmm[pick(1)] = arr;\n", 531),
		("copy struct into an element chosen by a call", "\tvar ss: [2]S = [S { a: 1, b: 2 }, S { a: 3, b: 4 }];\n\tss[pick(0)] = s;\n", 533),
		("copy array in declaration after a call statement", "\tignore_n(pick(1));\n\tvar b: [3]i32 = arr;\n", 531),
		("copy struct by assignment after a call with a variable argument", "\tvar b: S = S { a: 0, b: 0 };\n\tvar n: usize = pick(x as usize);\n\tb = s;\n", 533),
		("copy array into a member of a structure literal after a call in an earlier member", "\tvar b: T = T { a: x + (pick(1) as i32), arr: arr, inner: S { a: 1, b: 2 } };\n", 531),
		("copy struct into a member of a structure literal passed behind an argument that is a call", "\ttake_two(pick(1), T { a: 1, arr: [1, 2, 3], inner: s });\n", 533),
		("assign to element of constant array chosen by a call", "\tKARR[pick(1)] = 5;\n", 530),
		("legal: element chosen by a call", "\tarr[pick(1)] = 5;\n\ts.a = pick(2) as i32;\n", 0),
		("copy struct into a member of a structure literal passed as argument", "\ttake_t(T { a: 1, arr: [1, 2, 3], inner: s });\n", 533),
		("copy array into a member of a structure literal passed as argument", "\ttake_t(T { a: 1, arr: arr, inner: S { a: 1, b: 2 } });\n", 531),
		("copy struct into a member of a structure literal", "\tvar b: T = T { a: 1, arr: [1, 2, 3], inner: s };\n", 533),
		("copy array into a member of a structure literal", "\tvar b: T = T { a: 1, arr: arr, inner: S { a: 1, b: 2 } };\n", 531),
		("copy array in declaration", "\tvar b: [3]i32 = arr;\n", 531),
		("copy array by assignment", "\tvar b: [3]i32 = [0, 0, 0];\n\tb = arr;\n", 531),
		("copy constant array", "\tvar b = KARR;\n", 531),
		("copy struct in declaration", "\tvar b: S = s;\n", 533),
		("copy struct by assignment", "\tvar b: S = S { a: 0, b: 0 };\n\tb = s;\n", 533),
		("assign to constant", "\tKONST = 5;\n", 530),
		("assign to element of constant array", "\tKARR[0] = 5;\n", 530),
		("copy word in declaration (words are values)", "\tvar b: W = w;\n", 0),
		("assign to variable", "\tx = 5;\n", 0),
		("assign to member and element", "\ts.a = 5;\n\tarr[1] = 6;\n\tw.b = 7;\n", 0),
	];
	for (name, stmts, code) in agg
	{
		let text = format!("{PRELUDE}fn main() -> u8\n{{\n{STATE_DECL}{stmts}\treturn: 0\n}}\n");
		out.push(Cell { what: name.to_string(), class: format!("statement:{name}"), text, expect: Some(if code == 0 { vec![] } else { vec![code] }), after: None, has_ampersand: true });
	}
	// views inside the callee: copying a view parameter
	for (name, ptype, stmt, code) in [("copy array view parameter", "[]i32", "\tvar c = p;\n", 532u16), ("copy struct view parameter", "S", "\tvar c = p;\n", 533)]
	{
		let arg = if ptype == "S" { "s" } else { "arr" };
		let text = format!("{PRELUDE}fn callee(p: {ptype})\n{{\n{stmt}}}\nfn main() -> u8\n{{\n{STATE_DECL}\tcallee({arg});\n\treturn: 0\n}}\n");
		out.push(Cell { what: name.to_string(), class: format!("statement:{name}"), text, expect: Some(vec![code]), after: None, has_ampersand: false });
	}
	// second call level: the callee passes its parameter on
	for (k, (kname, ptype, _read, _write, is_pointer)) in KINDS.iter().enumerate()
	{
		for (k2, (_k2name, ptype2, _r2, write2, is_pointer2)) in KINDS.iter().enumerate()
		{
			for pass in ["p", "&p"]
			{
				// only combinations whose types can line up
				let arg = match *ptype
				{
					"i32" => "x",
					"W" => "w",
					"[]i32" => "arr",
					"S" => "s",
					"&[]i32" => "&arr",
					"&[..]i32" => "&arr",
					"&i32" => "&x",
					"&S" => "&s",
					_ => "&&q",
				};
				let text = format!(
					"{PRELUDE}fn inner(p: {ptype2})\n{{\n\t{write2}\n}}\nfn callee(p: {ptype})\n{{\n\tinner({pass});\n}}\nfn main() -> u8\n{{\n{STATE_DECL}{PRINT_STATE}\tcallee({arg});\n{PRINT_STATE}\treturn: 0\n}}\n"
				);
				let _ = (k, k2, is_pointer, is_pointer2);
				out.push(Cell {
					what: format!("callee(p: {ptype}) passes {pass} to inner(p: {ptype2}) which writes; caller passes {arg}"),
					class: format!("two levels:{kname}:{}", if arg.starts_with('&') { "with &" } else { "without &" }),
					text,
					expect: None,
					after: None,
					has_ampersand: arg.starts_with('&'),
				});
			}
		}
	}
	// second call level through a member: the callee passes (the address of) a member of its
	// parameter on to a function that writes
	let inners: [(&str, &str, &str, &str, usize); 8] = [
		// (pass expression, inner parameter type, inner write, what, index of the written location)
		("&p.arr", "&[]i32", "x[0] = 55;", "address of an array member to a slice pointer", 9),
		("&p.arr", "&[3]i32", "x[0] = 55;", "address of an array member to a pointer to a sized array", 9),
		("&p.a", "&i32", "x = 55;", "address of a member", 8),
		("&p.inner", "&S", "x.a = 55;", "address of a structure member", 12),
		("&p.inner.a", "&i32", "x = 55;", "address of a member of a member", 12),
		("p.arr", "[]i32", "x[0] = 55;", "array member as a view", 9),
		("p.inner", "S", "x.a = 55;", "structure member as a view", 12),
		("p.a", "i32", "x = 55;", "member by value", 8),
	];
	for (first_type, caller_arg, first_name) in [("T", "t", "view of struct"), ("&T", "&t", "pointer to struct")]
	{
		for (pass, inner_type, inner_write, what, target) in inners
		{
		for (context, _) in CALL_CONTEXTS
		{
			let text = if context == "statement"
			{
				format!(
				"{PRELUDE}fn inner(x: {inner_type})\n{{\n\t{inner_write}\n}}\nfn callee(p: {first_type})\n{{\n\tinner({pass});\n}}\nfn main() -> u8\n{{\n{STATE_DECL}{PRINT_STATE}\tcallee({caller_arg});\n{PRINT_STATE}\treturn: 0\n}}\n"
				)
			}
			else
			{
				format!(
				"{PRELUDE}fn ignore(v: i32)\n{{\n}}\nfn inner(x: {inner_type}) -> i32\n{{\n\t{inner_write}\n\treturn: 1\n}}\nfn callee(p: {first_type})\n{{\n{}}}\nfn main() -> u8\n{{\n{STATE_DECL}{PRINT_STATE}\tcallee({caller_arg});\n{PRINT_STATE}\treturn: 0\n}}\n",
				call_in_context(context, &format!("inner({pass})"))
				)
			};
			let what = &format!("{what}{}", if context == "statement" { String::new() } else { format!(", call as {context}") });
			let inner_is_pointer = inner_type.starts_with('&');
			let (expect, after) = if !inner_is_pointer
			{
				// the inner function writes through a view or a by-value parameter
				(Some(vec![530]), None)
			}
			else if first_type == "T"
			{
				// a mutable address of (a part of) a view cannot be taken
				(Some(vec![530, 512, 513, 538, 500, 504, 506, 507]), None)
			}
			else
			{
				let mut st = INITIAL;
				st[target] = 55;
				(Some(vec![]), Some(st))
			};
			out.push(Cell {
				what: format!("callee(p: {first_type}) passes {pass} ({what}) to inner(x: {inner_type}) which writes; caller passes {caller_arg}"),
				class: format!("member passed on:{first_name}:{what}"),
				text,
				expect,
				after,
				has_ampersand: caller_arg.starts_with('&'),
			});
		}
		}
	}
	// deep access paths: the written location lies several steps behind the parameter (members of
	// members, elements of array members) and the argument is a part of a caller's aggregate
	// (kind of parameter, parameter type, write, [(argument, what the rules say, written location)])
	// rule: 0 = legal and writes the location, 1 = missing `&` (E513), 2 = the callee writes through a view or a value (E530)
	let deep: [(&str, &str, &str, &[(&str, u8, usize)]); 12] = [
		("pointer to a structure with aggregates", "&T", "p.arr[1] = 55;", &[("&t", 0, 10), ("t", 1, 10)]),
		("pointer to a structure with aggregates", "&T", "p.inner.b = 55;", &[("&t", 0, 13), ("t", 1, 13)]),
		("pointer to a structure with aggregates", "&T", "p.a = 55;", &[("&t", 0, 8), ("t", 1, 8)]),
		("view of a structure with aggregates", "T", "p.arr[1] = 55;", &[("t", 2, 10)]),
		("view of a structure with aggregates", "T", "p.inner.b = 55;", &[("t", 2, 13)]),
		("pointer to a sized array", "&[3]i32", "p[2] = 55;", &[("&t.arr", 0, 11), ("&arr", 0, 3), ("t.arr", 1, 11), ("arr", 1, 3)]),
		("slice pointer", "&[]i32", "p[2] = 55;", &[("&t.arr", 0, 11), ("t.arr", 1, 11)]),
		("view of array", "[]i32", "p[2] = 55;", &[("t.arr", 2, 11)]),
		("pointer to struct", "&S", "p.b = 55;", &[("&t.inner", 0, 13), ("t.inner", 1, 13)]),
		("view of struct", "S", "p.b = 55;", &[("t.inner", 2, 13)]),
		("pointer", "&i32", "p = 55;", &[("&t.inner.b", 0, 13), ("&t.a", 0, 8), ("&s.b", 0, 5), ("t.inner.b", 1, 13)]),
		("pointer to a word", "&W", "p.b = 55;", &[("&w", 0, 7), ("w", 1, 7)]),
	];
	for (kname, ptype, write, args) in deep
	{
		for action in ["write", "write in a nested block", "write in an else branch", "write in a block that loops", "write after a label"]
		{
			let body = match action
			{
				"write" => format!("\t{write}\n"),
				"write in a nested block" => format!("\t{{\n\t\t{{\n\t\t\t{write}\n\t\t}}\n\t}}\n"),
				"write in an else branch" => format!("\tif 1i32 == 2i32\n\t{{\n\t}}\n\telse\n\t{{\n\t\t{write}\n\t}}\n"),
				"write in a block that loops" => format!("\tvar i: i32 = 0;\n\t{{\n\t\tif i == 1i32\n\t\t\tgoto done;\n\t\ti = i + 1;\n\t\t{write}\n\t\tloop;\n\t}}\n\tdone:\n"),
				_ => format!("\tgoto next;\n\tnext:\n\t{write}\n"),
			};
			for (arg, rule, target) in args
			{
				let text = format!("{PRELUDE}fn callee(p: {ptype})\n{{\n{body}}}\nfn main() -> u8\n{{\n{STATE_DECL}{PRINT_STATE}\tcallee({arg});\n{PRINT_STATE}\treturn: 0\n}}\n");
				let (expect, after) = match rule
				{
					0 =>
					{
						let mut st = INITIAL;
						st[*target] = 55;
						(Some(vec![]), Some(st))
					}
					1 => (Some(vec![513, 512]), None),
					_ => (Some(vec![530]), None),
				};
				out.push(Cell {
					what: format!("callee(p: {ptype}): {write} ({action}); caller passes {arg}"),
					class: format!("deep path:{kname}:{}", if arg.starts_with('&') { "with &" } else { "without &" }),
					text,
					expect,
					after,
					has_ampersand: arg.starts_with('&'),
				});
			}
		}
	}
	// the first call level again with the call standing in every expression context
	for (k, (kname, ptype, _read, write, is_pointer)) in KINDS.iter().enumerate()
	{
		for (context, _) in CALL_CONTEXTS.iter().skip(1)
		{
			for (a, (arg, base, amps, target)) in ARGS.iter().enumerate()
			{
				let text = format!(
					"{PRELUDE}fn ignore(v: i32)\n{{\n}}\nfn callee(p: {ptype}) -> i32\n{{\n\t{write}\n\treturn: 1\n}}\nfn main() -> u8\n{{\n{STATE_DECL}{PRINT_STATE}{}{PRINT_STATE}\treturn: 0\n}}\n",
					call_in_context(context, &format!("callee({arg})"))
				);
				let arg_ok = param_accepts(k, a);
				let (expect, after) = if !is_pointer
				{
					(Some(if arg_ok == Some(false) { vec![530, 512, 513, 500, 504, 506, 507, 538] } else { vec![530] }), None)
				}
				else
				{
					match arg_ok
					{
						Some(true) =>
						{
							let mut st = INITIAL;
							if let Some(t) = target
							{
								st[*t] = 55;
							}
							(Some(vec![]), Some(st))
						}
						Some(false) =>
						{
							let missing_address = *amps == 0 && ptype.starts_with('&') && !base.starts_with('&');
							(Some(if missing_address { vec![513, 512] } else { vec![512, 513, 500, 504, 506, 507, 530, 538] }), None)
						}
						None => (None, None),
					}
				};
				out.push(Cell {
					what: format!("callee(p: {ptype}) writes; caller passes {arg} in a call standing as {context}"),
					class: format!("{kname}:write:{}:call as {context}", if *amps > 0 { "with &" } else { "without &" }),
					text,
					expect,
					after,
					has_ampersand: *amps > 0,
				});
			}
		}
	}
	// history: every cell again behind an unrelated function that writes through a pointer parameter,
	// reads a view and compares with literals (what the analyzer learned there must not carry over)
	let with_history: Vec<Cell> = out
		.iter()
		.map(|c| Cell { what: format!("{} [behind two function heads and a function that writes through its pointer parameter]", c.what), class: format!("{}:behind a writing function", c.class), text: c.text.replacen(PRELUDE, &format!("{PRELUDE}{EARLIER}"), 1), expect: c.expect.clone(), after: c.after, has_ampersand: c.has_ampersand })
		.collect();
	out.extend(with_history);
	out
}

const EARLIER: &str = "fn head_only(data: []i32, q: S, k: i32) -> i32;\nextern fn ext_head(k: i32, p: &i32);\nfn earlier(e: &i32, v: []i32, z: &S) -> i32\n{\n\te = 3;\n\tif v[0] == 1\n\t{\n\t\te = 4;\n\t\tz.a = 5;\n\t}\n\telse if 2i32 == v[1]\n\t{\n\t\tz.b = e;\n\t}\n\treturn: v[0]\n}\n";

/// Expression contexts in which a call (returning i32) can stand.
const CALL_CONTEXTS: [(&str, &str); 6] = [
	("statement", ""),
	("initialiser", ""),
	("operand", ""),
	("condition", ""),
	("argument of another call", ""),
	("argument of eprint!", ""),
];

fn call_in_context(context: &str, call: &str) -> String
{
	match context
	{
		"initialiser" => format!("\tvar r: i32 = {call};\n"),
		"operand" => format!("\tvar r: i32 = 1i32 + {call};\n"),
		"condition" => format!("\tif {call} == 1i32\n\t{{\n\t}}\n"),
		"argument of another call" => format!("\tignore({call});\n"),
		"argument of eprint!" => format!("\teprint!({call}, \"\\n\");\n"),
		_ => format!("\t{call};\n"),
	}
}

pub fn drive(d: &mut Driver)
{
	let n = cells().len();
	d.bound("parameter kinds", json!(KINDS.iter().map(|k| k.0).collect::<Vec<_>>()));
	d.bound("argument forms", json!(ARGS.iter().map(|a| a.0).collect::<Vec<_>>()));
	d.bound("cells (kind x read/write x argument, statements, two call levels)", json!(n));
	let jobs: Vec<Value> = (0..n).step_by(16).map(|lo| json!({"lo": lo, "hi": (lo + 16).min(n)})).collect();
	d.phase("mutability matrix", jobs);
	d.assume("documented rules: docs/errors.md E513, E530-E533, docs/features.md (views are read-only, pointers need an explicit address); combinations the documentation leaves open are judged for non-interference only");
	d.assume("non-interference is observed on the executed program: all caller variables are printed before and after the call");
}

pub fn work(spec: &Value, w: &mut WorkerCtx)
{
	let all = cells();
	if let Some(case) = spec.get("replay")
	{
		let i = case["index"].as_u64().unwrap() as usize;
		judge(&all[i], i, w);
		return;
	}
	for i in spec["lo"].as_u64().unwrap() as usize..spec["hi"].as_u64().unwrap() as usize
	{
		w.result.transitions += 1;
		judge(&all[i], i, w);
	}
}

fn judge(cell: &Cell, index: usize, w: &mut WorkerCtx)
{
	w.result.states += 1;
	let desc = || json!({"index": index, "cell": cell.what, "text": cell.text, "sig_hint": cell.class});
	let d = desc().to_string().into_bytes();
	let size = cell.text.len() as u64;
	let src = cell.text.clone();
	let outcome = w.run_case(&d, || {
		let v = alpha::compile_one(&src, alpha::FULL);
		let exec = match &v
		{
			Verdict::Ok { irs, .. } => Some(run_lli(&irs[0], 20_000)),
			_ => None,
		};
		(v, exec)
	});
	match outcome
	{
		CaseOutcome::Done((v, exec)) =>
		{
			w.result.validated += 1;
			let mut ok = true;
			match (&v, &cell.expect)
			{
				(Verdict::Ok { .. }, Some(codes)) if !codes.is_empty() =>
				{
					ok = false;
					w.result.violation(&format!("illegal-mutation-accepted:{}", cell.class), size, &desc, || format!("{}: must be rejected with one of {codes:?}, but is accepted\n{}", cell.what, cell.text));
				}
				(Verdict::Rejected { diags, .. }, Some(codes)) =>
				{
					let got: Vec<u16> = diags.iter().map(|d| d.code).collect();
					if codes.is_empty()
					{
						ok = false;
						w.result.violation(&format!("legal-program-rejected:E{}:{}", got.first().copied().unwrap_or(0), cell.class), size, &desc, || format!("{}: must be accepted, rejected with {got:?}\n{}", cell.what, cell.text));
					}
					else if !got.iter().any(|c| codes.contains(c))
					{
						ok = false;
						w.result.violation(&format!("rejected-with-undocumented-code:E{}:{}", got.first().copied().unwrap_or(0), cell.class), size, &desc, || {
							format!("{}: expected one of {codes:?}, reported {got:?}\n{}", cell.what, cell.text)
						});
					}
				}
				(Verdict::InternalError(e), _) =>
				{
					ok = false;
					w.result.violation("internal-error", size, &desc, || format!("{}: {e}", cell.what));
				}
				_ =>
				{}
			}
			if let (Verdict::Ok { .. }, Some(exec)) = (&v, exec)
			{
				let lines: Vec<&str> = exec.stdout.lines().collect();
				if lines.len() == 2
				{
					let parse = |l: &str| -> Vec<i64> { l.split(' ').filter_map(|x| x.parse().ok()).collect() };
					let (before, after) = (parse(lines[0]), parse(lines[1]));
					if before.len() == 14 && after.len() == 14
					{
						if before != INITIAL.to_vec()
						{
							ok = false;
							w.result.violation("wrong-initial-state", size, &desc, || format!("{}: state before the call prints {before:?}", cell.what));
						}
						let changed: Vec<&str> = (0..14).filter(|i| before[*i] != after[*i]).map(|i| NAMES[i]).collect();
						// non-interference: nothing changes unless the caller wrote `&`
						if !changed.is_empty() && !cell.has_ampersand
						{
							ok = false;
							w.result.violation(&format!("caller-variable-changed-without-ampersand:{}", cell.class), size, &desc, || {
								format!("{}: the call changed {changed:?} although the caller passed the argument without `&`\nbefore {before:?}\nafter  {after:?}\n{}", cell.what, cell.text)
							});
						}
						if let Some(want) = cell.after
						{
							if after != want.to_vec()
							{
								ok = false;
								w.result.violation(&format!("wrong-state-after-call:{}", cell.class), size, &desc, || format!("{}: after the call the state is {after:?}, expected {want:?}\n{}", cell.what, cell.text));
							}
						}
					}
				}
				else if !cell.class.starts_with("statement") && exec.status != Some(0)
				{
					ok = false;
					w.result.violation(&format!("execution-failed:{}", cell.class), size, &desc, || format!("{}: lli status {:?} signal {:?}: {}", cell.what, exec.status, exec.signal, exec.stderr_tail));
				}
			}
			let verdict = if v.accepted() { "accepted" } else { "rejected" };
			let exp = match &cell.expect
			{
				Some(c) if c.is_empty() => "legal",
				Some(_) => "illegal",
				None => "open",
			};
			w.result.outcome(&format!("{exp}:{verdict}{}", if ok { "" } else { ":MISMATCH" }));
			if ok && cell.after.is_some() && index % 13 == 0
			{
				w.result.sample(|| json!({"cell": cell.what, "state_after": cell.after}));
			}
		}
		CaseOutcome::Panicked { site, message } =>
		{
			let sig = format!("panic@{}", crate::util::site_signature(&site, &message));
			w.result.violation(&sig, size, &desc, || format!("{}: panic at {site}: {message}\n{}", cell.what, cell.text));
		}
		CaseOutcome::Crashed { .. } =>
		{}
	}
}
