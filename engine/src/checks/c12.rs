//! C12 — imports expose exactly the public interface and modules compose.
//!
//! S-MOD: programs over a fixed universe of items (constants, a structure, a word, an extern
//! head, functions that depend on each other through interfaces and bodies) x all set partitions
//! of their items into 2..=4 modules with the induced `pub` / `import` lines x all file orders x
//! all orders in which the expander can splice the import pairs (the hash-set iteration is
//! replaced by each permutation in turn; permutations that lead to the same expanded modules are
//! merged, the expanded modules being the only input of the later stages).
//!
//! Oracles: (1) split-equivalence: accepted, and the linked program prints what the model of the
//! single-file program prints (which the single-file program is checked against as well);
//! (2) visibility: every cross-module reference made private, moved behind a two-step import
//! chain or left without import must be rejected; private names and transitively reachable
//! public names can be reused freely; (3) isolation: every sequence of unrelated modules through
//! one `Compiler` gives each module the IR it gets when compiled alone.

use crate::driver::Driver;
use crate::pool::{CaseOutcome, WorkerCtx};
use crate::subjects::alpha::{self, Verdict};
use crate::subjects::exec::run_lli;
use crate::util::permutations;
use serde_json::{Value, json};
use std::collections::{BTreeMap, BTreeSet, HashMap, HashSet};

// ---------------------------------------------------------------------------------------------
// The universe of items

pub struct Item
{
	pub name: &'static str,
	pub kind: &'static str,
	pub text: &'static str,
	/// items mentioned in the part that is exported (signature, members, constant value)
	pub iface: &'static [&'static str],
	/// items mentioned only in the body
	pub body: &'static [&'static str],
	/// what `main` does with it when it is a root, the items these lines mention, the output
	pub use_lines: &'static str,
	pub use_deps: &'static [&'static str],
	pub out: &'static str,
}

pub const ITEMS: [Item; 16] = [
	Item { name: "K", kind: "const", text: "const K: i32 = 5;\n", iface: &[], body: &[], use_lines: "\tprint!(\"k=\", K, \"\\n\");\n", use_deps: &["K"], out: "k=5\n" },
	Item { name: "N", kind: "const", text: "const N: usize = 3;\n", iface: &[], body: &[], use_lines: "", use_deps: &[], out: "" },
	Item { name: "M", kind: "const", text: "const M: usize = N + 1;\n", iface: &["N"], body: &[], use_lines: "", use_deps: &[], out: "" },
	Item { name: "S", kind: "struct", text: "struct S\n{\n\ta: i32,\n\tb: [N]i32,\n}\n", iface: &["N"], body: &[], use_lines: "", use_deps: &[], out: "" },
	Item { name: "W", kind: "word", text: "word32 W\n{\n\tlo: u16,\n\thi: u16,\n}\n", iface: &[], body: &[], use_lines: "", use_deps: &[], out: "" },
	Item { name: "abs", kind: "extern", text: "extern fn abs(n: i32) -> i32;\n", iface: &[], body: &[], use_lines: "\tprint!(\"x=\", abs(-8), \"\\n\");\n", use_deps: &["abs"], out: "x=8\n" },
	Item { name: "f", kind: "fn", text: "fn f(x: i32) -> i32\n{\n\tprint!(\"f \", x, \"\\n\");\n\treturn: x + K\n}\n", iface: &[], body: &["K"], use_lines: "\tprint!(\"f=\", f(1), \"\\n\");\n", use_deps: &["f"], out: "f 1\nf=6\n" },
	Item { name: "g", kind: "fn", text: "fn g(s: S) -> i32\n{\n\treturn: s.a + s.b[1]\n}\n", iface: &["S"], body: &[], use_lines: "\tvar s1 = S { a: 4, b: [1, 2, 3] };\n\tprint!(\"g=\", g(s1), \"\\n\");\n", use_deps: &["g", "S"], out: "g=6\n" },
	Item { name: "h", kind: "fn", text: "fn h(w: W) -> u16\n{\n\treturn: w.lo + w.hi\n}\n", iface: &["W"], body: &[], use_lines: "\tvar w1 = W { lo: 7, hi: 9 };\n\tprint!(\"h=\", h(w1), \"\\n\");\n", use_deps: &["h", "W"], out: "h=16\n" },
	Item { name: "t", kind: "fn", text: "fn t(x: i32) -> i32\n{\n\tvar y = f(x);\n\treturn: y * 2\n}\n", iface: &[], body: &["f"], use_lines: "\tprint!(\"t=\", t(2), \"\\n\");\n", use_deps: &["t"], out: "f 2\nt=14\n" },
	Item { name: "a", kind: "fn", text: "fn a(v: []i32) -> i32\n{\n\treturn: v[M - 1]\n}\n", iface: &[], body: &["M"], use_lines: "\tvar v1: [M]i32 = [1, 2, 3, 4];\n\tprint!(\"a=\", a(v1), \"\\n\");\n", use_deps: &["a", "M"], out: "a=4\n" },
	Item { name: "u", kind: "fn", text: "fn u(s: &S)\n{\n\ts.a = 9;\n}\n", iface: &["S"], body: &[], use_lines: "\tvar s2 = S { a: 4, b: [1, 2, 3] };\n\tu(&s2);\n\tprint!(\"u=\", s2.a, \"\\n\");\n", use_deps: &["u", "S"], out: "u=9\n" },
	Item { name: "r", kind: "fn", text: "fn r(n: i32) -> i32\n{\n\treturn: abs(n) + 1\n}\n", iface: &[], body: &["abs"], use_lines: "\tprint!(\"r=\", r(-3), \"\\n\");\n", use_deps: &["r"], out: "r=4\n" },
	// compound exported parts: a structure whose members are a structure, a word and a pointer to a
	// structure; a function over a pointer to it; a function over a view of rows of named length
	Item { name: "P", kind: "struct", text: "struct P\n{\n\ts: S,\n\tw: W,\n\tnext: &S,\n}\n", iface: &["S", "W"], body: &[], use_lines: "", use_deps: &[], out: "" },
	Item { name: "q", kind: "fn", text: "fn q(p: &P) -> i32\n{\n\treturn: p.s.a + p.s.b[2] + p.next.a\n}\n", iface: &["P"], body: &[], use_lines: "\tvar s3 = S { a: 30, b: [1, 2, 3] };\n\tvar p1 = P { s: S { a: 4, b: [1, 2, 3] }, w: W { lo: 7, hi: 9 }, next: &s3 };\n\tprint!(\"q=\", q(&p1), \"\\n\");\n", use_deps: &["q", "P", "S", "W"], out: "q=37\n" },
	Item { name: "z", kind: "fn", text: "fn z(rows: [][N]i32) -> i32\n{\n\treturn: rows[1][N - 1]\n}\n", iface: &["N"], body: &[], use_lines: "\tvar m1: [2][N]i32 = [[1, 2, 3], [4, 5, 6]];\n\tprint!(\"z=\", z(m1), \"\\n\");\n", use_deps: &["z", "N"], out: "z=6\n" },
];

/// Items that `main` can exercise directly.
pub const ROOTS: [&str; 11] = ["K", "abs", "f", "g", "h", "t", "a", "u", "r", "q", "z"];
/// The roots with compound exported parts: in the quick tier (programs of at most 6 units) z is
/// combined with at most one other root and q (whose closure has six units) is left to the thorough tier.
pub const COMPOUND_ROOTS: [&str; 2] = ["q", "z"];

fn item_index(name: &str) -> usize
{
	ITEMS.iter().position(|i| i.name == name).unwrap()
}

/// Index of the pseudo item `main` in unit numbering.
const MAIN: usize = ITEMS.len();

#[derive(Debug, Clone)]
pub struct Program
{
	pub roots: Vec<usize>,
	/// units in partition order: MAIN first, then the items of the closure in universe order
	pub units: Vec<usize>,
}

fn deps_of(unit: usize, roots: &[usize]) -> Vec<usize>
{
	let mut out = Vec::new();
	if unit == MAIN
	{
		for r in roots
		{
			for d in ITEMS[*r].use_deps
			{
				out.push(item_index(d));
			}
		}
	}
	else
	{
		for d in ITEMS[unit].iface.iter().chain(ITEMS[unit].body.iter())
		{
			out.push(item_index(d));
		}
	}
	out.sort();
	out.dedup();
	out
}

/// Everything that must be visible wherever `d` is mentioned: `d` and, transitively, what its
/// exported part mentions.
fn need(d: usize, out: &mut BTreeSet<usize>)
{
	if out.insert(d)
	{
		for e in ITEMS[d].iface
		{
			need(item_index(e), out);
		}
	}
}

pub fn programs(max_units: usize) -> Vec<Program>
{
	let mut out = Vec::new();
	for mask in 1u32..(1 << ROOTS.len())
	{
		let roots: Vec<usize> = (0..ROOTS.len()).filter(|i| mask & (1 << i) != 0).map(|i| item_index(ROOTS[i])).collect();
		let mut closure = BTreeSet::new();
		let mut todo: Vec<usize> = deps_of(MAIN, &roots);
		while let Some(x) = todo.pop()
		{
			if closure.insert(x)
			{
				todo.extend(deps_of(x, &roots));
			}
		}
		if closure.len() + 1 > max_units
		{
			continue;
		}
		// quick tier: the root with the six-unit closure (q) only in the thorough tier, the other
		// compound root with at most one other root
		if max_units <= 6 && (roots.iter().any(|r| ITEMS[*r].name == "q") || (roots.len() > 2 && roots.iter().any(|r| COMPOUND_ROOTS.contains(&ITEMS[*r].name))))
		{
			continue;
		}
		let mut units = vec![MAIN];
		units.extend(closure.iter().copied());
		let mut roots = roots;
		roots.sort();
		out.push(Program { roots, units });
	}
	out.sort_by_key(|p| (p.units.len(), p.roots.clone()));
	out
}

pub fn main_text(roots: &[usize]) -> String
{
	let mut t = String::from("fn main() -> u8\n{\n");
	for r in roots
	{
		t.push_str(ITEMS[*r].use_lines);
	}
	t.push_str("\treturn: 0\n}\n");
	t
}

pub fn expected_out(roots: &[usize]) -> String
{
	roots.iter().map(|r| ITEMS[*r].out).collect()
}

pub fn single_file(p: &Program) -> String
{
	let mut t = String::new();
	for u in &p.units[1..]
	{
		t.push_str(ITEMS[*u].text);
	}
	t.push_str(&main_text(&p.roots));
	t
}

/// All restricted growth strings of length n with between lo and hi blocks.
pub fn partitions(n: usize, lo: usize, hi: usize) -> Vec<Vec<usize>>
{
	fn rec(cur: &mut Vec<usize>, max: usize, n: usize, lo: usize, hi: usize, out: &mut Vec<Vec<usize>>)
	{
		if cur.len() == n
		{
			if max >= lo && max <= hi
			{
				out.push(cur.clone());
			}
			return;
		}
		for b in 0..=max.min(hi - 1)
		{
			cur.push(b);
			rec(cur, max.max(b + 1), n, lo, hi, out);
			cur.pop();
		}
	}
	let mut out = Vec::new();
	rec(&mut Vec::new(), 0, n, lo, hi, &mut out);
	out
}

// ---------------------------------------------------------------------------------------------
// Splitting a program into modules

#[derive(Debug, Clone, PartialEq)]
pub enum Tweak
{
	None,
	/// the item loses its `pub`
	Private(usize),
	/// module x imports a synthetic middle module that imports y, instead of y
	Mid(usize, usize),
	/// module x does not import y (which a module that x imports does import)
	DropImport(usize, usize),
}

pub const FORMS: [&str; 4] = ["flat", "directory, imports relative to the includer", "directory, imports by full key", "main at top, others in lib/"];

fn module_name(form: usize, b: usize) -> String
{
	match form
	{
		0 => format!("m{b}.pn"),
		1 | 2 => format!("src/m{b}.pn"),
		_ =>
		{
			if b == 0
			{
				"m0.pn".to_string()
			}
			else
			{
				format!("lib/m{b}.pn")
			}
		}
	}
}

fn import_text(form: usize, from: usize, to: usize) -> String
{
	match form
	{
		0 | 1 => format!("m{to}.pn"),
		2 => format!("src/m{to}.pn"),
		_ =>
		{
			if to == 0
			{
				"m0.pn".to_string()
			}
			else if from == 0
			{
				format!("lib/m{to}.pn")
			}
			else
			{
				format!("m{to}.pn")
			}
		}
	}
}

pub struct Split
{
	pub files: Vec<(String, String)>,
	pub imports: Vec<(usize, usize)>,
	pub pubs: BTreeSet<usize>,
}

pub fn split(p: &Program, rgs: &[usize], form: usize, tweak: &Tweak) -> Split
{
	let nblocks = rgs.iter().max().unwrap() + 1;
	let block_of: HashMap<usize, usize> = p.units.iter().copied().zip(rgs.iter().copied()).collect();
	let mut imports: BTreeSet<(usize, usize)> = BTreeSet::new();
	let mut pubs: BTreeSet<usize> = BTreeSet::new();
	for u in &p.units
	{
		let x = block_of[u];
		for d in deps_of(*u, &p.roots)
		{
			let mut needed = BTreeSet::new();
			need(d, &mut needed);
			for e in needed
			{
				let y = block_of[&e];
				if y != x
				{
					imports.insert((x, y));
					pubs.insert(e);
				}
			}
		}
	}
	// An import brings in every public item of the module, so the importer also needs the
	// modules that the exported parts of those items mention (docs/features.md: "all function
	// signatures, structures and constants marked pub").
	loop
	{
		let mut more: Vec<(usize, usize)> = Vec::new();
		for (x, y) in &imports
		{
			for e in &pubs
			{
				if block_of[e] != *y
				{
					continue;
				}
				let mut needed = BTreeSet::new();
				need(*e, &mut needed);
				for f in needed
				{
					let z = block_of[&f];
					if z != *x && !imports.contains(&(*x, z))
					{
						more.push((*x, z));
					}
				}
			}
		}
		if more.is_empty()
		{
			break;
		}
		imports.extend(more);
	}
	let mut files = Vec::new();
	for b in 0..nblocks
	{
		let mut t = String::new();
		for (x, y) in &imports
		{
			if *x != b
			{
				continue;
			}
			match tweak
			{
				Tweak::Mid(tx, ty) if tx == x && ty == y => t.push_str("import \"mid.pn\";\n"),
				Tweak::DropImport(tx, ty) if tx == x && ty == y =>
				{}
				_ => t.push_str(&format!("import \"{}\";\n", import_text(form, *x, *y))),
			}
		}
		if !t.is_empty()
		{
			t.push('\n');
		}
		for u in &p.units[1..]
		{
			if block_of[u] == b
			{
				let private = matches!(tweak, Tweak::Private(i) if i == u);
				if pubs.contains(u) && !private
				{
					t.push_str("pub ");
				}
				t.push_str(ITEMS[*u].text);
			}
		}
		if b == 0
		{
			t.push_str(&main_text(&p.roots));
		}
		files.push((module_name(form, b), t));
	}
	if let Tweak::Mid(_, y) = tweak
	{
		files.push(("mid.pn".to_string(), format!("import \"{}\";\n\npub const MID: i32 = 1;\n", import_text(form, usize::MAX, *y))));
	}
	Split { files, imports: imports.into_iter().collect(), pubs }
}

pub const IMPORT_PLACEMENTS: [&str; 4] = ["on top", "at the bottom", "first on top, the others at the bottom", "behind the first declaration"];

/// The module text with its import lines moved.
pub fn place_imports(text: &str, placement: usize) -> String
{
	let lines: Vec<&str> = text.lines().collect();
	let imports: Vec<&str> = lines.iter().copied().filter(|l| l.starts_with("import \"")).collect();
	let rest: Vec<&str> = lines.iter().copied().filter(|l| !l.starts_with("import \"")).skip_while(|l| l.is_empty()).collect();
	if imports.is_empty()
	{
		return text.to_string();
	}
	let mut out: Vec<&str> = Vec::new();
	match placement
	{
		1 =>
		{
			out.extend(rest.iter());
			out.extend(imports.iter());
		}
		2 =>
		{
			out.push(imports[0]);
			out.extend(rest.iter());
			out.extend(imports[1..].iter());
		}
		_ =>
		{
			// behind the first declaration: it ends at the first line that is `}` or that ends in `;` at column 0
			let end = rest.iter().position(|l| *l == "}" || (!l.starts_with('\t') && l.ends_with(';'))).map(|i| i + 1).unwrap_or(rest.len());
			out.extend(rest[..end].iter());
			out.extend(imports.iter());
			out.extend(rest[end..].iter());
		}
	}
	let mut s = out.join("\n");
	s.push('\n');
	s
}

// ---------------------------------------------------------------------------------------------
// Hand-written families around private and transitively reachable names

pub struct Scenario
{
	pub name: String,
	pub class: &'static str,
	pub files: Vec<(String, String)>,
	pub expect: Expect,
}

#[derive(Debug, Clone)]
pub enum Expect
{
	Accept(String),
	Reject,
	/// whether the program is accepted is not prescribed; if it is, it must print this
	IfAccepted(String),
}

fn private_block(present: u8, secret: i32, hidden_members: &str, hidden_literal: &str) -> (String, String)
{
	// returns (declarations, expression computing the module's value)
	let mut t = String::new();
	let mut terms: Vec<String> = Vec::new();
	if present & 1 != 0
	{
		t.push_str(&format!("const SECRET: i32 = {secret};\n"));
		terms.push("SECRET".to_string());
	}
	else
	{
		terms.push(format!("{secret}i32"));
	}
	if present & 2 != 0
	{
		t.push_str(&format!("fn helper() -> i32\n{{\n\treturn: {}\n}}\n", secret * 10));
		terms.push("helper()".to_string());
	}
	else
	{
		terms.push(format!("{}i32", secret * 10));
	}
	if present & 4 != 0
	{
		t.push_str(&format!("struct Hidden\n{{\n{hidden_members}}}\n"));
	}
	if present & 8 != 0
	{
		// a private function with the C calling convention
		t.push_str(&format!("extern fn scale(v: i32) -> i32\n{{\n\treturn: v * {secret}\n}}\n"));
		terms.push("scale(0)".to_string());
	}
	let _ = hidden_literal;
	(t, terms.join(" + "))
}

pub fn scenarios() -> Vec<Scenario>
{
	let mut out = Vec::new();
	// (1) the same private names in every module; shapes star, chain, diamond
	let hidden = [("\tv: i32,\n", "Hidden { v: 3 }"), ("\tw: i64,\n\tv: i32,\n", "Hidden { w: 0, v: 3 }"), ("\tv: i32,\n\tz: [4]u8,\n", "Hidden { v: 3, z: [0, 0, 0, 0] }"), ("\tq: u8,\n\tv: i32,\n", "Hidden { q: 1, v: 3 }")];
	for shape in ["star", "chain", "diamond"]
	{
		for present in 1u8..16
		{
			let nmod = if shape == "diamond" { 4 } else { 3 };
			let mut files = Vec::new();
			let mut expected = String::new();
			for m in 0..nmod
			{
				let secret = (m as i32) + 1;
				let (decls, expr) = private_block(present, secret, hidden[m].0, hidden[m].1);
				let uses_hidden = present & 4 != 0;
				let hidden_part = if uses_hidden { format!("\tvar hid = {};\n", hidden[m].1) } else { String::new() };
				let hidden_term = if uses_hidden { " + hid.v" } else { " + 3i32" };
				let own = secret + secret * 10 + 3;
				let mut t = String::new();
				// imports and value of the module
				let (imports, extra, extra_value): (Vec<usize>, String, i32) = match (shape, m)
				{
					("star", 0) => (vec![1, 2], String::new(), 0),
					("chain", 0) => (vec![1], String::new(), 0),
					("chain", 1) => (vec![2], " + get_2()".to_string(), 3 + 30 + 3),
					("diamond", 0) => (vec![1, 2], String::new(), 0),
					("diamond", 1) | ("diamond", 2) => (vec![3], " + get_3()".to_string(), 4 + 40 + 3),
					_ => (vec![], String::new(), 0),
				};
				for i in &imports
				{
					t.push_str(&format!("import \"m{i}.pn\";\n"));
				}
				if !imports.is_empty()
				{
					t.push('\n');
				}
				t.push_str(&decls);
				if m == 0
				{
					t.push_str(&format!("fn main() -> u8\n{{\n{hidden_part}\tprint!(\"own=\", {expr}{hidden_term}, \"\\n\");\n"));
					expected.push_str(&format!("own={own}\n"));
					for i in &imports
					{
						t.push_str(&format!("\tprint!(\"m{i}=\", get_{i}(), \"\\n\");\n"));
					}
					t.push_str("\treturn: 0\n}\n");
				}
				else
				{
					t.push_str(&format!("pub fn get_{m}() -> i32\n{{\n{hidden_part}\treturn: {expr}{hidden_term}{extra}\n}}\n"));
				}
				let _ = extra_value;
				files.push((format!("m{m}.pn"), t));
			}
			// expected values of the imported getters
			let value = |m: i32| m + 1 + (m + 1) * 10 + 3;
			match shape
			{
				"star" => expected.push_str(&format!("m1={}\nm2={}\n", value(1), value(2))),
				"chain" => expected.push_str(&format!("m1={}\n", value(1) + value(2))),
				_ => expected.push_str(&format!("m1={}\nm2={}\n", value(1) + value(3), value(2) + value(3))),
			}
			out.push(Scenario { name: format!("same private names ({}{}{}{}) in every module, {shape}", if present & 1 != 0 { "const " } else { "" }, if present & 2 != 0 { "fn " } else { "" }, if present & 4 != 0 { "struct " } else { "" }, if present & 8 != 0 { "extern fn" } else { "" }), class: "private names reused", files, expect: Expect::Accept(expected) });
		}
	}
	// (2) a public name two imports away is free for reuse, and is not visible
	let kinds: [(&str, &str, &str, &str, &str, &str); 5] = [
		// (kind, public declaration in m2, use in m1's z(), own declaration in m0, use in main, expected)
		("fn", "pub fn v() -> i32\n{\n\treturn: 1\n}\n", "v() + 1", "fn v() -> i32\n{\n\treturn: 100\n}\n", "v()", "100"),
		("const", "pub const V: i32 = 1;\n", "V + 1", "const V: i32 = 100;\n", "V", "100"),
		("struct", "pub struct T\n{\n\ta: i32,\n}\n", "1 + |:T| as i32 - 4 + 1", "struct T\n{\n\ta: i64,\n\tb: i64,\n}\n", "|:T| as i32 + 84", "100"),
		("word", "pub word32 T\n{\n\ta: i32,\n}\n", "1 + |:T| as i32 - 4 + 1", "word64 T\n{\n\ta: i64,\n}\n", "|:T| as i32 + 92", "100"),
		("extern head", "pub extern fn abs(n: i32) -> i32;\n", "abs(-1) + 1", "extern fn abs(n: i32) -> i32;\n", "abs(-100)", "100"),
	];
	for (kind, public, use1, own, use0, expected) in kinds
	{
		// reuse: must be accepted
		let m2 = public.to_string();
		let m1 = format!("import \"m2.pn\";\n\npub fn z() -> i32\n{{\n\treturn: {use1}\n}}\n");
		let m0 = format!("import \"m1.pn\";\n\n{own}fn main() -> u8\n{{\n\tprint!(\"own=\", {use0}, \"\\n\");\n\tprint!(\"z=\", z(), \"\\n\");\n\treturn: 0\n}}\n");
		out.push(Scenario {
			name: format!("{kind} that is public two imports away is declared again privately"),
			class: "transitive name reused",
			files: vec![("m0.pn".into(), m0), ("m1.pn".into(), m1.clone()), ("m2.pn".into(), m2.clone())],
			expect: Expect::Accept(format!("own={expected}\nz=2\n")),
		});
		// use without own declaration: must be rejected
		let use_far = match kind
		{
			"fn" => "v()".to_string(),
			"const" => "V".to_string(),
			"struct" | "word" => "|:T| as i32".to_string(),
			_ => "abs(-100)".to_string(),
		};
		let m0 = format!("import \"m1.pn\";\n\nfn main() -> u8\n{{\n\tprint!(\"far=\", {use_far}, \"\\n\");\n\tprint!(\"z=\", z(), \"\\n\");\n\treturn: 0\n}}\n");
		out.push(Scenario {
			name: format!("{kind} that is public two imports away is used"),
			class: "transitive item used",
			files: vec![("m0.pn".into(), m0), ("m1.pn".into(), m1.clone()), ("m2.pn".into(), m2.clone())],
			expect: Expect::Reject,
		});
		// diamond: two routes to the same public item, still not visible at the top
		let m1b = m1.replace("pub fn z()", "pub fn y()");
		let m0 = format!("import \"m1.pn\";\nimport \"m3.pn\";\n\nfn main() -> u8\n{{\n\tprint!(\"far=\", {use_far}, \"\\n\");\n\tprint!(\"z=\", z() + y(), \"\\n\");\n\treturn: 0\n}}\n");
		out.push(Scenario {
			name: format!("{kind} that is public two imports away along two routes is used"),
			class: "transitive item used",
			files: vec![("m0.pn".into(), m0), ("m1.pn".into(), m1.clone()), ("m2.pn".into(), m2.clone()), ("m3.pn".into(), m1b.clone())],
			expect: Expect::Reject,
		});
		let m0 = format!("import \"m1.pn\";\nimport \"m3.pn\";\n\n{own}fn main() -> u8\n{{\n\tprint!(\"own=\", {use0}, \"\\n\");\n\tprint!(\"z=\", z() + y(), \"\\n\");\n\treturn: 0\n}}\n");
		out.push(Scenario {
			name: format!("{kind} that is public two imports away along two routes is declared again privately"),
			class: "transitive name reused",
			files: vec![("m0.pn".into(), m0), ("m1.pn".into(), m1), ("m2.pn".into(), m2), ("m3.pn".into(), m1b)],
			expect: Expect::Accept(format!("own={expected}\nz=4\n")),
		});
	}
	// (3b) declarations without a body may be repeated: two modules each declare the same public
	// extern head, a public head in one module stands for the definition in another
	{
		let a = "pub extern fn abs(x: i32) -> i32;\npub fn twice(x: i32) -> i32\n{\n\treturn: abs(x) * 2\n}\n".to_string();
		let b = "pub extern fn abs(x: i32) -> i32;\npub fn thrice(x: i32) -> i32\n{\n\treturn: abs(x) * 3\n}\n".to_string();
		let c = "import \"m2.pn\";\n\npub fn sixfold(x: i32) -> i32\n{\n\treturn: thrice(x) * 2\n}\n".to_string();
		let m = "import \"m1.pn\";\nimport \"m3.pn\";\n\nfn main() -> u8\n{\n\tprint!(\"v=\", twice(-1) + sixfold(-2), \"\\n\");\n\treturn: 0\n}\n".to_string();
		out.push(Scenario {
			name: "the same public extern head in two modules that are imported by different modules".to_string(),
			class: "repeated heads",
			files: vec![("m0.pn".into(), m), ("m1.pn".into(), a), ("m2.pn".into(), b), ("m3.pn".into(), c)],
			expect: Expect::Accept("v=14\n".to_string()),
		});
		let head = "pub fn total() -> i32;\npub fn doubled() -> i32\n{\n\treturn: total() * 2\n}\n".to_string();
		let body = "pub fn total() -> i32\n{\n\treturn: 21\n}\n".to_string();
		let m = "import \"m1.pn\";\n\nfn main() -> u8\n{\n\tprint!(\"v=\", doubled(), \"\\n\");\n\treturn: 0\n}\n".to_string();
		out.push(Scenario {
			name: "a public head in one module, the definition in a module nobody imports".to_string(),
			class: "repeated heads",
			files: vec![("m0.pn".into(), m), ("m1.pn".into(), head), ("m2.pn".into(), body)],
			expect: Expect::Accept("v=42\n".to_string()),
		});
	}
	// (3c) a public function that shares its name with a constant of its module
	{
		let lib = "const value: i32 = 7;\npub fn value() -> i32\n{\n\treturn: value + 1\n}\n".to_string();
		let m = "import \"m1.pn\";\n\nfn main() -> u8\n{\n\tprint!(\"v=\", value(), \"\\n\");\n\treturn: 0\n}\n".to_string();
		out.push(Scenario {
			name: "a public function that shares its name with a private constant of its module".to_string(),
			class: "function named like a constant",
			files: vec![("m0.pn".into(), m), ("m1.pn".into(), lib)],
			expect: Expect::Accept("v=8\n".to_string()),
		});
	}
	// (4) names of the importer must not be captured by what it imports
	{
		let lib = "const B: i32 = 5;\npub const A: i32 = B * 2;\npub fn lib_a() -> i32\n{\n\treturn: A\n}\n".to_string();
		for own in [true, false]
		{
			let main = format!("import \"m1.pn\";\n\n{}fn main() -> u8\n{{\n\tprint!(\"A=\", A, \" lib=\", lib_a(), \"\\n\");\n\treturn: 0\n}}\n", if own { "const B: i32 = 100;\n" } else { "" });
			out.push(Scenario {
				name: format!("public constant defined through a private constant{}", if own { ", importer has a constant of the same name" } else { "" }),
				class: "importer names captured:value of a public constant",
				files: vec![("m0.pn".into(), main), ("m1.pn".into(), lib.clone())],
				expect: Expect::IfAccepted("A=10 lib=10\n".to_string()),
			});
		}
		let lib = "const N: usize = 2;\npub struct S\n{\n\ta: [N]i32,\n\tb: i32,\n}\npub fn sum(s: S) -> i32\n{\n\treturn: s.a[0] + s.a[1] + s.b\n}\npub fn size_in_lib() -> usize\n{\n\treturn: |:S|\n}\n".to_string();
		for own in [true, false]
		{
			let main = format!("import \"m1.pn\";\n\n{}fn main() -> u8\n{{\n\tvar s: S = S {{ a: [1, 2], b: 5 }};\n\tprint!(\"sum=\", sum(s), \" sizes \", |:S|, \" \", size_in_lib(), \"\\n\");\n\treturn: 0\n}}\n", if own { "const N: usize = 4;\n" } else { "" });
			out.push(Scenario {
				name: format!("public structure sized by a private constant{}", if own { ", importer has a constant of the same name" } else { "" }),
				class: "importer names captured:array length in a public structure",
				files: vec![("m0.pn".into(), main), ("m1.pn".into(), lib.clone())],
				expect: Expect::IfAccepted("sum=8 sizes 12 12\n".to_string()),
			});
			// the same without a literal of the structure in the importer: only the two sizes
			let main = format!("import \"m1.pn\";\n\n{}fn main() -> u8\n{{\n\tprint!(\"sizes \", |:S|, \" \", size_in_lib(), \"\\n\");\n\treturn: 0\n}}\n", if own { "const N: usize = 4;\n" } else { "" });
			out.push(Scenario {
				name: format!("public structure sized by a private constant, sizes only{}", if own { ", importer has a constant of the same name" } else { "" }),
				class: "importer names captured:array length in a public structure",
				files: vec![("m0.pn".into(), main), ("m1.pn".into(), lib.clone())],
				expect: Expect::IfAccepted("sizes 12 12\n".to_string()),
			});
		}
		// a structure of the importer with the name of a private structure used in a public signature
		let lib = "struct Inner\n{\n\tv: i32,\n}\npub struct Outer\n{\n\tinner: Inner,\n\tw: i32,\n}\npub fn outer_size() -> usize\n{\n\treturn: |:Outer|\n}\n".to_string();
		for own in [true, false]
		{
			let main = format!("import \"m1.pn\";\n\n{}fn main() -> u8\n{{\n\tprint!(\"sizes \", |:Outer|, \" \", outer_size(), \"\\n\");\n\treturn: 0\n}}\n", if own { "struct Inner\n{\n\tv: i64,\n\tx: i64,\n}\n" } else { "" });
			out.push(Scenario {
				name: format!("public structure with a member of a private structure type{}", if own { ", importer has a structure of the same name" } else { "" }),
				class: "importer names captured:member type in a public structure",
				files: vec![("m0.pn".into(), main), ("m1.pn".into(), lib.clone())],
				expect: Expect::IfAccepted("sizes 8 8\n".to_string()),
			});
		}
	}
	// (5) import paths: an import names a file by its path as given, or relative to the directory of
	// the importing file; nothing else
	{
		// constants, not functions: two files that define the same function cannot be linked
		let lib = |v: i32| format!("pub const VALUE: i32 = {v};\n");
		let main = |import: &str| format!("import \"{import}\";\n\nfn main() -> u8\n{{\n\tprint!(\"v=\", VALUE, \"\\n\");\n\treturn: 0\n}}\n");
		let mut add = |name: &str, files: Vec<(&str, String)>, expect: Expect| {
			out.push(Scenario { name: name.to_string(), class: "import paths", files: files.into_iter().map(|(n, t)| (n.to_string(), t)).collect(), expect });
		};
		add("import of a file that only exists in a sub-directory", vec![("main.pn", main("util.pn")), ("lib/util.pn", lib(1))], Expect::Reject);
		add("import of a file that only exists in a deeper sub-directory of the importer's directory", vec![("d/main.pn", main("x.pn")), ("d/sub/x.pn", lib(2))], Expect::Reject);
		add("same file name next to the importer and in a sub-directory", vec![("d/main.pn", main("x.pn")), ("d/x.pn", lib(1)), ("d/sub/x.pn", lib(2))], Expect::Accept("v=1\n".to_string()));
		add("same file name in the sub-directory, imported with its relative path", vec![("d/main.pn", main("sub/x.pn")), ("d/x.pn", lib(1)), ("d/sub/x.pn", lib(2))], Expect::Accept("v=2\n".to_string()));
		add("same relative path below another directory", vec![("main.pn", main("a/x.pn")), ("a/x.pn", lib(1)), ("b/a/x.pn", lib(2))], Expect::Accept("v=1\n".to_string()));
		add("same file name in a sibling directory", vec![("a/main.pn", main("x.pn")), ("a/x.pn", lib(1)), ("b/x.pn", lib(2))], Expect::Accept("v=1\n".to_string()));
		add("import by the path as given on the command line", vec![("main.pn", main("d/x.pn")), ("d/x.pn", lib(1)), ("x.pn", lib(2))], Expect::Accept("v=1\n".to_string()));
		add("file name that is a suffix of another file name", vec![("main.pn", main("x.pn")), ("x.pn", lib(1)), ("ax.pn", lib(2)), ("d/x.pn", lib(3))], Expect::Accept("v=1\n".to_string()));
		add("import of a directory name", vec![("main.pn", main("d")), ("d/x.pn", lib(1))], Expect::Reject);
	}
	// (3) private items of every kind referenced from the importer
	let privates: [(&str, &str, &str); 5] = [
		("fn", "fn v() -> i32\n{\n\treturn: 1\n}\n", "v()"),
		("const", "const V: i32 = 1;\n", "V"),
		("struct", "struct T\n{\n\ta: i32,\n}\n", "|:T| as i32"),
		("word", "word32 T\n{\n\ta: i32,\n}\n", "|:T| as i32"),
		("extern head", "extern fn abs(n: i32) -> i32;\n", "abs(-100)"),
	];
	for (kind, private, use0) in privates
	{
		let m1 = format!("{private}pub fn z() -> i32\n{{\n\treturn: 2\n}}\n");
		let m0 = format!("import \"m1.pn\";\n\nfn main() -> u8\n{{\n\tprint!(\"p=\", {use0}, \"\\n\");\n\tprint!(\"z=\", z(), \"\\n\");\n\treturn: 0\n}}\n");
		out.push(Scenario { name: format!("private {kind} of an imported module is used"), class: "private item used", files: vec![("m0.pn".into(), m0), ("m1.pn".into(), m1)], expect: Expect::Reject });
	}
	out
}

// ---------------------------------------------------------------------------------------------
// Module histories through one Compiler

/// (name, source with `@` standing for the position in the history, has main, expected stdout,
/// struct names whose LLVM type may be renamed)
pub const KINDS: [(&str, &str, bool, &str); 10] = [
	("opaque structure and a function over a pointer to it", "pub struct Handle;\npub fn generation(h: &Handle) -> i32\n{\n\treturn: 1\n}\n", false, ""),
	("comment only", "// nothing to see here\n", false, ""),
	("main printing", "fn helper() -> i32\n{\n\treturn: 7\n}\nfn main() -> u8\n{\n\tprint!(\"main \", helper(), \" \", true, \"\\n\");\n\treturn: 0\n}\n", true, "main 7 true\n"),
	("struct Hidden {a} and a public user", "struct Hidden\n{\n\ta: i32,\n}\nfn helper(h: Hidden) -> i32\n{\n\treturn: h.a\n}\npub fn use_small() -> i32\n{\n\tvar h = Hidden { a: 5 };\n\treturn: helper(h)\n}\n", false, ""),
	("struct Hidden {b, c, a} and a public user", "struct Hidden\n{\n\tb: i64,\n\tc: [3]u8,\n\ta: i32,\n}\nfn helper(h: Hidden) -> i32\n{\n\treturn: h.a\n}\npub fn use_large() -> i32\n{\n\tvar h = Hidden { b: 1, c: [1, 2, 3], a: 6 };\n\treturn: helper(h)\n}\n", false, ""),
	("constant array and loop", "const TABLE: [4]i32 = [1, 2, 3, 4];\npub fn sum_table() -> i32\n{\n\tvar total = 0;\n\tvar i: usize = 0;\n\t{\n\t\tif i == |TABLE|\n\t\t\tgoto done;\n\t\ttotal = total + TABLE[i];\n\t\ti = i + 1;\n\t\tloop;\n\t}\n\tdone:\n\treturn: total\n}\n", false, ""),
	("type error", "pub fn broken() -> i32\n{\n\tvar x: i32 = true;\n\treturn: x\n}\n", false, ""),
	("word and casts", "word16 Pair\n{\n\tlo: u8,\n\thi: u8,\n}\npub fn widen(p: Pair) -> u32\n{\n\treturn: (p.lo as u32) + (p.hi as u32)\n}\n", false, ""),
	("extern head and call", "extern fn abs(n: i32) -> i32;\npub fn magnitude(n: i32) -> i32\n{\n\treturn: abs(n)\n}\n", false, ""),
	("printing without main", "const TABLE: [2]u8 = [1, 2];\nfn helper() -> u8\n{\n\treturn: TABLE[1]\n}\npub fn show()\n{\n\tprint!(\"show \", helper(), \"\\n\");\n}\n", false, ""),
];

fn fix_kinds_text(k: usize) -> String
{
	KINDS[k].1.to_string()
}

pub fn histories(max_len: usize) -> Vec<Vec<usize>>
{
	let mut out = Vec::new();
	fn rec(cur: &mut Vec<usize>, max_len: usize, out: &mut Vec<Vec<usize>>)
	{
		if !cur.is_empty()
		{
			out.push(cur.clone());
		}
		if cur.len() == max_len
		{
			return;
		}
		for k in 0..KINDS.len()
		{
			if cur.contains(&k)
			{
				continue;
			}
			cur.push(k);
			rec(cur, max_len, out);
			cur.pop();
		}
	}
	rec(&mut Vec::new(), max_len, &mut out);
	out
}

// ---------------------------------------------------------------------------------------------
// Drive

pub fn drive(d: &mut Driver)
{
	let quick = d.quick();
	let max_units = if quick { 6 } else { 7 };
	let max_modules = 4;
	let progs = programs(max_units);
	d.bound("items", json!(ITEMS.iter().map(|i| i.name).collect::<Vec<_>>()));
	d.bound("programs (sets of roots whose closure with main has at most this many units)", json!({"max_units": max_units, "programs": progs.len()}));
	d.bound("modules per partition", json!({"from": 2, "to": max_modules, "note": "quick: programs of exactly 6 units are split into at most 3 modules"}));
	d.bound("file orders", json!("all permutations of the files"));
	d.bound("splice orders", json!("if the expander iterates a hash collection (reported by the hook): all permutations of up to 6 import pairs (720); above that all permutations up to commutation of independent splices (at most 20000 per file order, counted when hit); merged where the expanded modules are identical; the commutation argument is cross-checked on every fully enumerated space; if the expander's order is deterministic (as on the repaired tree): exactly that order"));
	d.bound("path forms", json!(FORMS));

	// single-file programs against the model
	let jobs: Vec<Value> = (0..progs.len()).step_by(8).map(|lo| json!({"family": "single", "max_units": max_units, "lo": lo, "hi": (lo + 8).min(progs.len())})).collect();
	d.phase("single-file programs against the model output", jobs);

	// splits
	let mut jobs = Vec::new();
	for (pi, p) in progs.iter().enumerate()
	{
		// the largest programs of the thorough tier are split into at most three modules
		let modules_here = if quick && p.units.len() == max_units { 3 } else { max_modules };
		let parts = partitions(p.units.len(), 2, modules_here);
		let forms: Vec<usize> = if p.units.len() <= (if quick { 3 } else { 4 }) { vec![0, 1, 2, 3] } else { vec![0] };
		for form in forms
		{
			for chunk in (0..parts.len()).step_by(4)
			{
				jobs.push(json!({"family": "split", "max_units": max_units, "max_modules": modules_here, "prog": pi, "form": form, "lo": chunk, "hi": (chunk + 4).min(parts.len())}));
			}
		}
	}
	let r = d.phase("partitions x file orders x splice orders: split-equivalence", jobs);
	let capped: u64 = r.counters.iter().filter(|(k, _)| k.starts_with("CAP:")).map(|(_, v)| *v).sum();
	if capped > 0
	{
		d.cap_hit(&format!("{capped} file orders (partitions with 9 or more import pairs) have more than 20000 splice orders up to commutation; the first 20000 in lexicographic order were explored for them; everything with fewer pairs is complete"));
	}

	// negatives derived from the splits
	let mut jobs = Vec::new();
	let neg_units = if quick { 5 } else { 6 };
	for (pi, p) in progs.iter().enumerate()
	{
		if p.units.len() > neg_units
		{
			continue;
		}
		let parts = partitions(p.units.len(), 2, max_modules.min(3));
		for chunk in (0..parts.len()).step_by(2)
		{
			jobs.push(json!({"family": "negative", "max_units": max_units, "max_modules": max_modules.min(3), "prog": pi, "lo": chunk, "hi": (chunk + 2).min(parts.len())}));
		}
	}
	d.bound("negative variants", json!({"programs up to units": neg_units, "variants": ["each exported item made private", "each import replaced by a middle module that imports the target", "each import dropped where another imported module imports the target", "each import dropped"]}));
	d.phase("visibility negatives x file orders x splice orders", jobs);

	let n = scenarios().len();
	let jobs: Vec<Value> = (0..n).map(|i| json!({"family": "scenario", "index": i})).collect();
	d.bound("name reuse / visibility scenarios", json!(n));
	d.phase("private and transitive names: reuse accepted, use rejected", jobs);

	let hist = histories(if quick { 2 } else { 3 });
	d.bound("module histories", json!({"kinds": KINDS.iter().map(|k| k.0).collect::<Vec<_>>(), "max_length": if quick { 2 } else { 3 }, "histories": hist.len()}));
	let jobs: Vec<Value> = (0..hist.len()).step_by(6).map(|lo| json!({"family": "history", "max_len": if quick { 2 } else { 3 }, "lo": lo, "hi": (lo + 6).min(hist.len())})).collect();
	d.phase("histories of unrelated modules through one Compiler", jobs);

	d.assume("the stages after import expansion are a function of the expanded declaration lists: splice permutations that produce identical expanded modules (compared on the Debug dump of all declarations, locations included) are compiled once");
	d.assume("a module needs an import for every item its own items mention and for every item mentioned in the exported part (signature, members, constant value) of such an item; this is what docs/features.md and tests/samples/valid/import_position_and_line.pn show");
	d.assume("trusted: lli-14 executing the linked IR; the model outputs in checks/c12.rs");
}

// ---------------------------------------------------------------------------------------------
// Work

pub fn work(spec: &Value, w: &mut WorkerCtx)
{
	if let Some(case) = spec.get("replay")
	{
		let files: Vec<(String, String)> = case["files"].as_array().unwrap().iter().map(|f| (f[0].as_str().unwrap().to_string(), f[1].as_str().unwrap().to_string())).collect();
		let perm = case["perm"].as_u64().map(|p| p as usize);
		if case["kind"] == "history"
		{
			judge_history(&files, case["what"].as_str().unwrap_or(""), w);
			return;
		}
		let expect = match (case["expect_out"].as_str(), case["expect_out"]["if_accepted"].as_str())
		{
			(Some(s), _) => Expect::Accept(s.to_string()),
			(_, Some(s)) => Expect::IfAccepted(s.to_string()),
			_ => Expect::Reject,
		};
		judge(&files, perm, &expect, case["class"].as_str().unwrap_or(""), case["what"].as_str().unwrap_or(""), w);
		return;
	}
	match spec["family"].as_str().unwrap()
	{
		"single" =>
		{
			let progs = programs(spec["max_units"].as_u64().unwrap() as usize);
			for pi in spec["lo"].as_u64().unwrap() as usize..spec["hi"].as_u64().unwrap() as usize
			{
				let p = &progs[pi];
				let files = vec![("m0.pn".to_string(), single_file(p))];
				w.result.transitions += 1;
				judge(&files, None, &Expect::Accept(expected_out(&p.roots)), "single file", &format!("roots {:?}", root_names(p)), w);
			}
		}
		"split" =>
		{
			let progs = programs(spec["max_units"].as_u64().unwrap() as usize);
			let p = &progs[spec["prog"].as_u64().unwrap() as usize];
			let form = spec["form"].as_u64().unwrap() as usize;
			let parts = partitions(p.units.len(), 2, spec["max_modules"].as_u64().unwrap() as usize);
			for pi in spec["lo"].as_u64().unwrap() as usize..spec["hi"].as_u64().unwrap() as usize
			{
				let s = split(p, &parts[pi], form, &Tweak::None);
				let what = format!("roots {:?} partition {:?} form '{}'", root_names(p), parts[pi], FORMS[form]);
				w.result.count(&format!("import pairs: {}", s.imports.len()), 1);
				explore(&s.files, &Expect::Accept(expected_out(&p.roots)), &format!("split:{}", if form == 0 { "flat" } else { "paths" }), &what, w);
				// the import lines need not stand on top: the same split with the imports of every
				// module at the bottom, with all but the first at the bottom, and behind the first
				// declaration (small programs only)
				let small = p.units.len() <= if w.tier == "quick" { 3 } else { 5 };
				if form == 0 && small
				{
					for placement in 1..=3
					{
						let files: Vec<(String, String)> = s.files.iter().map(|(n, t)| (n.clone(), place_imports(t, placement))).collect();
						if files == s.files
						{
							continue;
						}
						w.result.transitions += 1;
						explore(&files, &Expect::Accept(expected_out(&p.roots)), "split:imports not on top", &format!("{what} imports {}", IMPORT_PLACEMENTS[placement]), w);
					}
				}
			}
		}
		"negative" =>
		{
			let progs = programs(spec["max_units"].as_u64().unwrap() as usize);
			let p = &progs[spec["prog"].as_u64().unwrap() as usize];
			let parts = partitions(p.units.len(), 2, spec["max_modules"].as_u64().unwrap() as usize);
			for pi in spec["lo"].as_u64().unwrap() as usize..spec["hi"].as_u64().unwrap() as usize
			{
				let base = split(p, &parts[pi], 0, &Tweak::None);
				let mut tweaks: Vec<(Tweak, String)> = Vec::new();
				for e in &base.pubs
				{
					tweaks.push((Tweak::Private(*e), format!("private:{}", ITEMS[*e].kind)));
				}
				for (x, y) in &base.imports
				{
					tweaks.push((Tweak::Mid(*x, *y), "behind a middle module".to_string()));
					let natural = base.imports.iter().any(|(a, z)| a == x && z != y && base.imports.contains(&(*z, *y)));
					tweaks.push((Tweak::DropImport(*x, *y), if natural { "behind an imported module".to_string() } else { "import dropped".to_string() }));
				}
				for (tweak, class) in tweaks
				{
					let s = split(p, &parts[pi], 0, &tweak);
					let what = format!("roots {:?} partition {:?} {:?}", root_names(p), parts[pi], tweak);
					explore(&s.files, &Expect::Reject, &format!("negative:{class}"), &what, w);
				}
			}
		}
		"scenario" =>
		{
			let all = scenarios();
			let s = &all[spec["index"].as_u64().unwrap() as usize];
			explore(&s.files, &s.expect, s.class, &s.name, w);
		}
		"history" =>
		{
			let hist = histories(spec["max_len"].as_u64().unwrap() as usize);
			for hi in spec["lo"].as_u64().unwrap() as usize..spec["hi"].as_u64().unwrap() as usize
			{
				let h = &hist[hi];
				let files: Vec<(String, String)> = h.iter().enumerate().map(|(i, k)| (format!("h{i}_{k}.pn"), fix_kinds_text(*k))).collect();
				let what = format!("history {:?}", h.iter().map(|k| KINDS[*k].0).collect::<Vec<_>>());
				w.result.transitions += h.len() as u64;
				judge_history(&files, &what, w);
			}
		}
		other => panic!("unknown family {other}"),
	}
}

fn root_names(p: &Program) -> Vec<&'static str>
{
	p.roots.iter().map(|r| ITEMS[*r].name).collect()
}

/// Up to this many import pairs every permutation is tried.
const FULL_PAIRS: usize = 6;
/// Above that, permutations are enumerated up to commutation of independent splices, and at most
/// this many of them.
const MAX_TRACES: usize = 20_000;

/// The import pairs (includer, includee) of the files in the given order, resolved like
/// `expander::get_key_offset`, sorted.
fn import_pairs(files: &[(String, String)]) -> Vec<(usize, usize)>
{
	let mut pairs = BTreeSet::new();
	for (x, (name, text)) in files.iter().enumerate()
	{
		for line in text.lines()
		{
			let Some(rest) = line.strip_prefix("import \"")
			else
			{
				continue;
			};
			let target = rest.trim_end_matches("\";");
			let direct = files.iter().position(|f| f.0 == target);
			let relative = std::path::Path::new(name).parent().map(|p| p.join(target).to_string_lossy().to_string()).and_then(|t| files.iter().position(|f| f.0 == t));
			if let Some(y) = direct.or(relative)
			{
				if y != x
				{
					pairs.insert((x, y));
				}
			}
		}
	}
	pairs.into_iter().collect()
}

/// Two splices commute when neither writes what the other reads or writes.
fn independent(a: (usize, usize), b: (usize, usize)) -> bool
{
	a.0 != b.0 && a.0 != b.1 && a.1 != b.0
}

/// Index of a permutation (given as a sequence of indices into the sorted pairs) in the
/// factorial number system that `penne::verif::order_imports` decodes.
fn perm_index(seq: &[usize]) -> usize
{
	let n = seq.len();
	let mut remaining: Vec<usize> = (0..n).collect();
	let mut k = 0usize;
	for (i, s) in seq.iter().enumerate()
	{
		let j = remaining.iter().position(|r| r == s).unwrap();
		remaining.remove(j);
		let f: usize = (1..=(n - 1 - i)).product();
		k += j * f;
	}
	k
}

/// All permutations in which no two adjacent independent splices are in descending order: at
/// least one representative (the lexicographically least) of every commutation class.
fn trace_representatives(pairs: &[(usize, usize)], cap: usize) -> (Vec<Vec<usize>>, bool)
{
	fn rec(pairs: &[(usize, usize)], cur: &mut Vec<usize>, used: &mut Vec<bool>, out: &mut Vec<Vec<usize>>, cap: usize) -> bool
	{
		if cur.len() == pairs.len()
		{
			out.push(cur.clone());
			return out.len() < cap;
		}
		for c in 0..pairs.len()
		{
			if used[c]
			{
				continue;
			}
			if let Some(&last) = cur.last()
			{
				if c < last && independent(pairs[last], pairs[c])
				{
					continue;
				}
			}
			used[c] = true;
			cur.push(c);
			let go_on = rec(pairs, cur, used, out, cap);
			cur.pop();
			used[c] = false;
			if !go_on
			{
				return false;
			}
		}
		true
	}
	let mut out = Vec::new();
	let complete = rec(pairs, &mut Vec::new(), &mut vec![false; pairs.len()], &mut out, cap);
	(out, complete)
}

/// All file orders x all splice permutations (merged by expanded state).
fn explore(files: &[(String, String)], expect: &Expect, class: &str, what: &str, w: &mut WorkerCtx)
{
	use penne::alpha::{expander, lexer, parser};
	for order in permutations(files.len())
	{
		let ordered: Vec<(String, String)> = order.iter().map(|i| files[*i].clone()).collect();
		let pairs = import_pairs(&ordered);
		let k = pairs.len();
		// Which schedules can really happen? If the expander iterates a hash collection, every
		// permutation of the pairs; otherwise only the order it produces itself.
		let hashed = {
			penne::verif::set_import_permutation(None);
			let mut modules: Vec<(std::path::PathBuf, Vec<penne::alpha::common::Declaration>)> = vec![("probe.pn".into(), Vec::new())];
			expander::expand(&mut modules);
			penne::verif::last_import_order_is_hashed()
		};
		if !hashed
		{
			w.result.transitions += 1;
			w.result.max_counter("max_import_pairs", k as u64);
			w.result.count("file orders explored under the expander's own (deterministic) splice order", 1);
			judge(&ordered, None, expect, class, what, w);
			continue;
		}
		let (perms, complete, reduced): (Vec<usize>, bool, bool) = if k <= FULL_PAIRS
		{
			((0..(1..=k).product::<usize>()).collect(), true, false)
		}
		else
		{
			let (seqs, complete) = trace_representatives(&pairs, MAX_TRACES);
			(seqs.iter().map(|s| perm_index(s)).collect(), complete, true)
		};
		let ordered_desc = json!({"files": ordered, "probe": "expansion only", "what": what}).to_string().into_bytes();
		let probe = w.run_case(&ordered_desc, || {
			let parsed: Vec<(std::path::PathBuf, Vec<penne::alpha::common::Declaration>)> =
				ordered.iter().map(|(name, source)| (name.parse().unwrap_or_default(), parser::parse(lexer::lex(source, name)))).collect();
			let mut seen: HashSet<u64> = HashSet::new();
			let mut representatives = Vec::new();
			for perm in &perms
			{
				penne::verif::set_import_permutation(Some(*perm));
				let mut modules = parsed.clone();
				expander::expand(&mut modules);
				assert_eq!(penne::verif::last_import_count(), k, "the expander sees other import pairs than the check");
				let dump = format!("{modules:?}");
				if seen.insert(crate::driver::fnv(dump.as_bytes()))
				{
					representatives.push(*perm);
				}
			}
			// cross-check of the commutation argument wherever the full space was enumerated
			if !reduced && k >= 2
			{
				let (seqs, _) = trace_representatives(&pairs, usize::MAX);
				let mut seen_reduced: HashSet<u64> = HashSet::new();
				for s in &seqs
				{
					penne::verif::set_import_permutation(Some(perm_index(s)));
					let mut modules = parsed.clone();
					expander::expand(&mut modules);
					seen_reduced.insert(crate::driver::fnv(format!("{modules:?}").as_bytes()));
				}
				assert!(seen_reduced == seen, "independent splices do not commute: the reduced enumeration reaches {} expanded states, the full one {}", seen_reduced.len(), seen.len());
			}
			penne::verif::set_import_permutation(None);
			representatives
		});
		penne::verif::set_import_permutation(None);
		let representatives = match probe
		{
			CaseOutcome::Done(x) => x,
			CaseOutcome::Panicked { site, message } =>
			{
				let sig = format!("panic@{}", crate::util::site_signature(&site, &message));
				let size: u64 = ordered.iter().map(|f| f.1.len() as u64).sum();
				let desc = || json!({"files": ordered, "perm": 0, "class": class, "what": what, "expect_out": expect_json(expect)});
				w.result.violation(&sig, size, &desc, || format!("{what}: panic during expansion at {site}: {message}"));
				continue;
			}
			CaseOutcome::Crashed { .. } => continue,
		};
		w.result.transitions += perms.len() as u64;
		w.result.max_counter("max_import_pairs", k as u64);
		w.result.max_counter("max_distinct_expansions_of_one_file_order", representatives.len() as u64);
		if reduced
		{
			w.result.count("file orders whose splice orders were enumerated up to commutation (more than 6 import pairs)", 1);
		}
		if !complete
		{
			w.result.count("CAP: file orders with more than 20000 splice orders up to commutation", 1);
		}
		for perm in representatives
		{
			judge(&ordered, Some(perm), expect, class, what, w);
		}
	}
}

fn expect_json(e: &Expect) -> Value
{
	match e
	{
		Expect::Accept(s) => json!(s),
		Expect::IfAccepted(s) => json!({"if_accepted": s}),
		Expect::Reject => Value::Null,
	}
}

thread_local! {
	static EXEC_CACHE: std::cell::RefCell<HashMap<u64, (Option<i32>, Option<i32>, String, String)>> = std::cell::RefCell::new(HashMap::new());
}

fn run_cached(ir: &str) -> (Option<i32>, Option<i32>, String, String)
{
	let key = crate::driver::fnv(ir.as_bytes());
	if let Some(x) = EXEC_CACHE.with(|c| c.borrow().get(&key).cloned())
	{
		return x;
	}
	let e = run_lli(ir, 20_000);
	let x = (e.status, e.signal, e.stdout.clone(), e.stderr_tail.clone());
	EXEC_CACHE.with(|c| c.borrow_mut().insert(key, x.clone()));
	x
}

/// Link again, optimise with `opt-14 -O2`, execute: the same output and status 0?
fn optimised_agrees(files: &[(String, String)], perm: Option<usize>, stdout: &str) -> bool
{
	penne::verif::set_import_permutation(perm);
	let v = alpha::alpha_pipeline(files, alpha::FULL);
	penne::verif::set_import_permutation(None);
	let Verdict::Ok { linked: Some(ir), .. } = v
	else
	{
		return true;
	};
	match crate::subjects::exec::optimise(&ir)
	{
		Ok(opt) =>
		{
			let e = run_lli(&opt, 20_000);
			e.status == Some(0) && e.stdout == stdout
		}
		Err(_) => false,
	}
}

fn judge(files: &[(String, String)], perm: Option<usize>, expect: &Expect, class: &str, what: &str, w: &mut WorkerCtx)
{
	w.result.states += 1;
	let desc = || json!({"files": files, "perm": perm, "class": class, "what": what, "expect_out": expect_json(expect), "sig_hint": class});
	let d = desc().to_string().into_bytes();
	let size: u64 = files.iter().map(|f| f.1.len() as u64).sum::<u64>() + files.len() as u64 * 1000;
	let fs = files.to_vec();
	let outcome = w.run_case(&d, || {
		penne::verif::set_import_permutation(perm);
		let v = alpha::alpha_pipeline(&fs, alpha::FULL);
		penne::verif::set_import_permutation(None);
		let exec = match &v
		{
			Verdict::Ok { linked: Some(ir), .. } => Some(run_cached(ir)),
			_ => None,
		};
		(v, exec)
	});
	penne::verif::set_import_permutation(None);
	let show = || files.iter().map(|(n, t)| format!("--- {n}\n{t}")).collect::<String>();
	match outcome
	{
		CaseOutcome::Done((v, exec)) =>
		{
			w.result.validated += 1;
			match (&v, expect)
			{
				(Verdict::Rejected { diags, .. }, Expect::IfAccepted(_)) =>
				{
					let mut codes: Vec<u16> = diags.iter().map(|d| d.code).collect();
					codes.sort();
					codes.dedup();
					w.result.outcome(&format!("{class}:rejected (not prescribed):{codes:?}"));
				}
				(Verdict::Ok { .. }, Expect::Accept(want)) | (Verdict::Ok { .. }, Expect::IfAccepted(want)) =>
				{
					let (status, signal, stdout, stderr) = exec.unwrap();
					if status != Some(0) || &stdout != want
					{
						w.result.outcome(&format!("{class}:accepted:WRONG OUTPUT"));
						w.result.violation(&format!("behaves-differently-from-single-file:{class}"), size, &desc, || {
							format!("{what} (splice order {perm:?}): linked program gives status {status:?} signal {signal:?}\nstdout {stdout:?}\nexpected {want:?}\nstderr {stderr}\n{}", show())
						});
					}
					else if crate::driver::fnv(what.as_bytes()) % 8 == 0 && !optimised_agrees(files, perm, &stdout)
					{
						w.result.outcome(&format!("{class}:accepted:CHANGES UNDER OPTIMISATION"));
						w.result.violation(&format!("linked-program-changes-under-optimisation:{class}"), size, &desc, || format!("{what}: after `opt-14 -O2` the linked program no longer prints {stdout:?} with status 0 (the emitted IR relies on undefined behaviour)\n{}", show()));
					}
					else
					{
						w.result.outcome(&format!("{class}:accepted:same output"));
						if w.result.states % 97 == 0
						{
							w.result.sample(|| json!({"what": what, "perm": perm, "stdout": stdout}));
						}
					}
				}
				(Verdict::Ok { .. }, Expect::Reject) =>
				{
					w.result.outcome(&format!("{class}:ACCEPTED"));
					w.result.violation(&format!("invisible-item-accepted:{class}"), size, &desc, || format!("{what} (splice order {perm:?}): must be rejected, but is accepted\n{}", show()));
				}
				(Verdict::Rejected { diags, .. }, Expect::Accept(_)) =>
				{
					let codes: Vec<u16> = diags.iter().map(|d| d.code).collect();
					w.result.outcome(&format!("{class}:REJECTED"));
					w.result.violation(&format!("rejected:E{}:{class}", codes.first().copied().unwrap_or(0)), size, &desc, || format!("{what} (splice order {perm:?}): must be accepted, rejected with {codes:?}\n{}", show()));
				}
				(Verdict::Rejected { diags, .. }, Expect::Reject) =>
				{
					let mut codes: Vec<u16> = diags.iter().map(|d| d.code).collect();
					codes.sort();
					codes.dedup();
					w.result.outcome(&format!("{class}:rejected:{codes:?}"));
					if !codes.iter().all(|c| [401, 402, 405, 433, 470].contains(c))
					{
						w.result.soft(&format!("invisible item rejected with other codes {codes:?}"), || format!("{what}\n{}", show()));
					}
				}
				(Verdict::InternalError(e), _) =>
				{
					w.result.outcome(&format!("{class}:INTERNAL ERROR"));
					w.result.violation(&format!("internal-error:{class}"), size, &desc, || format!("{what} (splice order {perm:?}): {e}\n{}", show()));
				}
			}
		}
		CaseOutcome::Panicked { site, message } =>
		{
			let sig = format!("panic@{}", crate::util::site_signature(&site, &message));
			w.result.violation(&sig, size, &desc, || format!("{what} (splice order {perm:?}): panic at {site}: {message}\n{}", show()));
		}
		CaseOutcome::Crashed { .. } =>
		{}
	}
}

/// The IR text up to the names of local values, types and private symbols: every `%name` and every
/// `@name` with private or internal linkage is renamed in order of first appearance. Two modules
/// that differ only in such names (LLVM's uniquifying suffixes, counters of string constants)
/// have the same canonical text.
fn normalise_ir(ir: &str) -> String
{
	fn name_end(bytes: &[u8], mut j: usize) -> usize
	{
		if bytes.get(j) == Some(&b'"')
		{
			j += 1;
			while j < bytes.len() && bytes[j] != b'"'
			{
				j += 1;
			}
			return (j + 1).min(bytes.len());
		}
		while j < bytes.len() && (bytes[j].is_ascii_alphanumeric() || matches!(bytes[j], b'_' | b'.' | b'$' | b'-'))
		{
			j += 1;
		}
		j
	}
	let bytes = ir.as_bytes();
	// private symbols of this module
	let mut private: std::collections::HashSet<String> = std::collections::HashSet::new();
	for line in ir.lines()
	{
		let is_private = line.contains(" private ") || line.contains(" internal ");
		if !is_private
		{
			continue;
		}
		if line.starts_with('@') || line.starts_with("define ")
		{
			if let Some(at) = line.find('@')
			{
				let end = name_end(line.as_bytes(), at + 1);
				private.insert(line[at + 1..end].to_string());
			}
		}
	}
	let mut locals: HashMap<String, usize> = HashMap::new();
	let mut globals: HashMap<String, usize> = HashMap::new();
	let mut out = String::with_capacity(ir.len());
	let mut i = 0;
	let mut in_string = false;
	while i < bytes.len()
	{
		let c = bytes[i];
		// constant strings c"..." are data, not names
		if c == b'"' && i > 0 && bytes[i - 1] == b'c' && !in_string
		{
			in_string = true;
			out.push('"');
			i += 1;
			continue;
		}
		if in_string
		{
			if c == b'"'
			{
				in_string = false;
			}
			out.push(c as char);
			i += 1;
			continue;
		}
		if c == b'%' || c == b'@'
		{
			let end = name_end(bytes, i + 1);
			if end > i + 1
			{
				let name = &ir[i + 1..end];
				if c == b'%'
				{
					let n = locals.len();
					let k = *locals.entry(name.to_string()).or_insert(n);
					out.push_str(&format!("%v{k}"));
					i = end;
					continue;
				}
				if private.contains(name)
				{
					let n = globals.len();
					let k = *globals.entry(name.to_string()).or_insert(n);
					out.push_str(&format!("@p{k}"));
					i = end;
					continue;
				}
			}
		}
		out.push(c as char);
		i += 1;
	}
	out
}

#[derive(Debug, Clone, PartialEq)]
enum ModuleResult
{
	Ir(String),
	Rejected(Vec<(u16, usize, usize, usize)>),
	Internal(String),
}

fn judge_history(files: &[(String, String)], what: &str, w: &mut WorkerCtx)
{
	use penne::alpha::{Compiler, expander, lexer, parser, resolver, scoper};
	w.result.states += 1;
	let desc = || json!({"kind": "history", "files": files, "perm": 0, "what": what, "sig_hint": "history"});
	let d = desc().to_string().into_bytes();
	let size: u64 = files.iter().map(|f| f.1.len() as u64).sum::<u64>() + files.len() as u64 * 1000;
	let fs = files.to_vec();
	let outcome = w.run_case(&d, || {
		// one module through a given compiler, as src/main.rs does it
		fn one(compiler: &mut Compiler, name: &str, declarations: Vec<penne::alpha::common::Declaration>) -> ModuleResult
		{
			let declarations = scoper::analyze(declarations);
			if let Err(e) = compiler.add_module(name)
			{
				return ModuleResult::Internal(e.to_string());
			}
			let resolved = match compiler.analyze_and_resolve(declarations)
			{
				Ok(r) => r,
				Err(e) => return ModuleResult::Internal(e.to_string()),
			};
			let declarations = match resolved
			{
				Ok(d) => d,
				Err(errors) =>
				{
					return ModuleResult::Rejected(errors.errors.iter().map(|e| { let d = alpha::diag_of(e); (d.code, d.line, d.span_start, d.span_end) }).collect());
				}
			};
			let _ = compiler.take_lints();
			if let Err(e) = compiler.compile(&declarations)
			{
				return ModuleResult::Internal(e.to_string());
			}
			match compiler.generate_ir()
			{
				Ok(ir) => ModuleResult::Ir(ir),
				Err(e) => ModuleResult::Internal(e.to_string()),
			}
		}
		let parse = |name: &str, source: &str| {
			let mut modules = vec![(name.parse::<std::path::PathBuf>().unwrap_or_default(), parser::parse(lexer::lex(source, name)))];
			expander::expand(&mut modules);
			let (_, declarations) = modules.pop().unwrap();
			let surface = resolver::check_surface_level_errors(&declarations).is_ok();
			(declarations, surface)
		};
		// alone
		let mut alone = Vec::new();
		for (name, source) in &fs
		{
			let (declarations, surface) = parse(name, source);
			assert!(surface, "history module has surface errors");
			let mut compiler = Compiler::default();
			alone.push(one(&mut compiler, name, declarations));
		}
		// together
		let mut together = Vec::new();
		let mut compiler = Compiler::default();
		let mut all_ok = true;
		for (name, source) in &fs
		{
			let (declarations, _) = parse(name, source);
			let r = one(&mut compiler, name, declarations);
			let ok = matches!(r, ModuleResult::Ir(_));
			together.push(r);
			if !ok
			{
				// the command line tool stops at the first module that fails
				all_ok = false;
				break;
			}
		}
		let linked = if all_ok
		{
			match compiler.link_modules()
			{
				Ok(()) => match compiler.generate_ir()
				{
					Ok(ir) => Some(Ok(ir)),
					Err(e) => Some(Err(e.to_string())),
				},
				Err(e) => Some(Err(e.to_string())),
			}
		}
		else
		{
			None
		};
		let exec = match &linked
		{
			Some(Ok(ir)) => Some(run_cached_or_verify(ir)),
			_ => None,
		};
		(alone, together, linked, exec)
	});
	match outcome
	{
		CaseOutcome::Done((alone, together, linked, exec)) =>
		{
			w.result.validated += 1;
			let mut ok = true;
			for (i, t) in together.iter().enumerate()
			{
				let same = match (t, &alone[i])
				{
					(ModuleResult::Ir(a), ModuleResult::Ir(b)) => normalise_ir(a) == normalise_ir(b),
					(a, b) => a == b,
				};
				if !same
				{
					ok = false;
					let kind = match (t, &alone[i])
					{
						(ModuleResult::Ir(_), ModuleResult::Ir(_)) => "ir-differs",
						(ModuleResult::Rejected(_), ModuleResult::Rejected(_)) => "diagnostics-differ",
						_ => "verdict-differs",
					};
					let name = files[i].0.clone();
					w.result.violation(&format!("module-result-depends-on-earlier-modules:{kind}"), size, &desc, || {
						format!("{what}: module {name} (position {i}) compiled after the others gives\n{}\nbut alone gives\n{}", brief(t), brief(&alone[i]))
					});
					break;
				}
			}
			if let Some(Err(e)) = &linked
			{
				ok = false;
				w.result.violation("linking-unrelated-modules-failed", size, &desc, || format!("{what}: {e}"));
			}
			if let Some((status, signal, stdout, stderr)) = exec
			{
				let want: String = files.iter().filter_map(|(n, _)| { let k: usize = n.trim_end_matches(".pn").rsplit('_').next().unwrap().parse().unwrap(); if KINDS[k].2 { Some(KINDS[k].3) } else { None } }).collect();
				let has_main = !want.is_empty();
				if has_main && (status != Some(0) || stdout != want)
				{
					ok = false;
					w.result.violation("linked-history-behaves-differently", size, &desc, || format!("{what}: status {status:?} signal {signal:?} stdout {stdout:?} expected {want:?}\n{stderr}"));
				}
				if !has_main && status != Some(0)
				{
					ok = false;
					w.result.violation("linked-history-is-not-valid-ir", size, &desc, || format!("{what}: llvm-as status {status:?}: {stderr}"));
				}
			}
			w.result.outcome(&format!("history:{}{}", if together.iter().all(|t| matches!(t, ModuleResult::Ir(_))) { "all modules compiled" } else { "stopped at a rejected module" }, if ok { "" } else { ":MISMATCH" }));
		}
		CaseOutcome::Panicked { site, message } =>
		{
			let sig = format!("panic@{}", crate::util::site_signature(&site, &message));
			w.result.violation(&sig, size, &desc, || format!("{what}: panic at {site}: {message}"));
		}
		CaseOutcome::Crashed { .. } =>
		{}
	}
}

fn brief(r: &ModuleResult) -> String
{
	match r
	{
		ModuleResult::Ir(ir) => crate::driver::first_lines(ir, 40),
		other => format!("{other:?}"),
	}
}

/// Programs with a main are executed; others are only assembled.
fn run_cached_or_verify(ir: &str) -> (Option<i32>, Option<i32>, String, String)
{
	if ir.contains("@main(")
	{
		return run_cached(ir);
	}
	use std::io::Write;
	let mut child = match std::process::Command::new("llvm-as-14").arg("-o").arg("/dev/null").arg("-").stdin(std::process::Stdio::piped()).stdout(std::process::Stdio::null()).stderr(std::process::Stdio::piped()).spawn()
	{
		Ok(c) => c,
		Err(e) => return (None, None, String::new(), format!("cannot run llvm-as-14: {e}")),
	};
	let _ = child.stdin.take().unwrap().write_all(ir.as_bytes());
	let out = child.wait_with_output().unwrap();
	(out.status.code(), None, String::new(), String::from_utf8_lossy(&out.stderr).chars().take(400).collect())
}

#[allow(dead_code)]
fn unused(_: BTreeMap<u8, u8>) {}
