//! C14 — both lexers implement the same lexical grammar, with exact spans.
//!
//! Exhaustive enumeration of S-CHAR (all strings up to length L over the lexical alphabet) and
//! S-FRAG (all concatenations of up to k lexeme fragments); every string is lexed by the first
//! generation lexer, the second generation lexer and the reference lexer (`model::reflex`).

use crate::driver::Driver;
use crate::model::reflex::{self, RKind, RTok};
use crate::pool::{CaseOutcome, WorkerCtx};
use crate::subjects::lex::{OTok, alpha_tokens, delta_tokens};
use serde_json::{Value, json};

/// Lexically significant characters (valid UTF-8 part).
pub const SIGMA_TEXT: [&str; 50] = [
	"a", "b", "f", "x", "u", "i", "r", "n", "_", "0", "1", "2", "8", "9", "A", "F", " ", "\t", "\n", "(", ")", "{", "}", "[", "]", "<", ">", "|", "&", "^",
	"!", "+", "-", "*", "/", "%", ":", ";", ".", ",", "=", "\"", "'", "\\", "@", "\u{e9}", "\r", "\u{7f}", "\u{20ac}", "#",
];
/// Extra raw bytes for the byte-oriented lexer.
pub const SIGMA_BYTES: [&[u8]; 5] = [b"\x00", b"\x80", b"\xC3", b"\xFF", b"\xE2\x82"];

pub fn fragments() -> Vec<Vec<u8>>
{
	let mut v: Vec<String> = Vec::new();
	for k in reflex::KEYWORDS
	{
		v.push(k.to_string());
	}
	for k in reflex::TYPES
	{
		v.push(k.to_string());
	}
	for k in reflex::PUNCT2
	{
		v.push(k.to_string());
	}
	for c in reflex::PUNCT1.chars()
	{
		v.push(c.to_string());
	}
	for s in [
		"a", "a1", "_a", "_", "return", "returnx", "fnx", "i32x", "abc!", "true", "false", "truex", "0", "00", "0x", "0b", "0x_", "0b_", "1_", "_1", "7",
		"255", "256", "2147483647", "2147483648", "4294967295", "4294967296", "9223372036854775807", "9223372036854775808", "18446744073709551615",
		"18446744073709551616", "170141183460469231731687303715884105727", "170141183460469231731687303715884105728",
		"340282366920938463463374607431768211450", "340282366920938463463374607431768211455", "340282366920938463463374607431768211456",
		"340282366920938463463374607431768211457", "340282366920938463463374607431768211459", "340282366920938463463374607431768211460",
		"3402823669209384634633746074317682114550", "0xffffffffffffffffffffffffffffffff", "0x100000000000000000000000000000000", "0x0ffffffffffffffffffffffffffffffff",
		"0xFF", "0xfF_", "0xg", "0b2", "0b1", "0b_1_0", "012", "1a", "10i", "i8", "u", "usiz", "i128x", "i7", "u8", "usize", "i128", "x41", "xG0", "x4", "xFF",
		"u{41}", "u{20ac}", "u{10FFFF}", "u{110000}", "u{D800}", "u{}", "u{1234567}", "u{0000041}", "u41", "u{4", "q", "n", "t", "r", "e", "\\", "\"", "'", " ", "\t",
		"\n", "\r\n", "\r", "//c", "//", "\u{e9}", "\u{20ac}", "\u{1F600}", "\u{7f}", "\u{1}", "@", "#", "$", "~", "?", "`",
	]
	{
		if !v.iter().any(|x| x == s)
		{
			v.push(s.to_string());
		}
	}
	let mut out: Vec<Vec<u8>> = v.into_iter().map(|s| s.into_bytes()).collect();
	// 128 and 129 binary digits, with and without a leading zero.
	let ones128 = "1".repeat(128);
	out.push(format!("0b{ones128}").into_bytes());
	out.push(format!("0b1{ones128}").into_bytes());
	out.push(format!("0b0{ones128}").into_bytes());
	out
}

/// Numeric literals at every size boundary of every radix: digit patterns x counts around the
/// 128-bit limit, with leading zeros and underscores.
pub fn numeric_forms() -> Vec<String>
{
	let mut v: Vec<String> = Vec::new();
	let rep = |c: &str, n: usize| c.repeat(n);
	for n in [1usize, 2, 63, 64, 65, 126, 127, 128, 129, 130, 200]
	{
		v.push(format!("0b{}", rep("1", n)));
		v.push(format!("0b1{}", rep("0", n)));
		v.push(format!("0b0{}", rep("1", n)));
		v.push(format!("0b00{}1", rep("0", n)));
		v.push(format!("0b1{}1", rep("0", n)));
		v.push(format!("0b1_{}", rep("0", n)));
		v.push(format!("0b{}_", rep("10", n / 2 + 1)));
	}
	for n in [1usize, 15, 16, 17, 30, 31, 32, 33, 34, 50]
	{
		v.push(format!("0x{}", rep("f", n)));
		v.push(format!("0x{}", rep("F", n)));
		v.push(format!("0x1{}", rep("0", n)));
		v.push(format!("0x8{}", rep("0", n)));
		v.push(format!("0x0{}", rep("f", n)));
		v.push(format!("0x00{}1", rep("0", n)));
		v.push(format!("0x1{}1", rep("0", n)));
		v.push(format!("0x_{}", rep("f", n)));
	}
	for n in [1usize, 18, 19, 20, 37, 38, 39, 40, 41, 60]
	{
		v.push(rep("9", n));
		v.push(format!("1{}", rep("0", n)));
		v.push(format!("3{}", rep("4", n)));
		v.push(format!("1_{}", rep("0", n)));
	}
	let max = u128::MAX;
	for delta in 0..12u128
	{
		v.push(format!("{}", max - delta));
		// max + 1 + delta written by hand: 340282366920938463463374607431768211456 + delta
		v.push(format!("3402823669209384634633746074317682114{}", 56 + delta));
	}
	for t in [i128::MAX as u128, (i128::MAX as u128) + 1, u64::MAX as u128, (u64::MAX as u128) + 1, u32::MAX as u128, (u32::MAX as u128) + 1]
	{
		v.push(format!("{t}"));
		v.push(format!("{t:#x}"));
		v.push(format!("{t:#b}"));
	}
	v.sort();
	v.dedup();
	v
}

/// Complete quoted literals around every escape form (a closed literal needs four fragments,
/// more than the fragment sweeps reach): quote x prefix x one or two escapes x suffix.
pub fn quoted_forms() -> Vec<String>
{
	let escapes = [
		"\\n", "\\r", "\\t", "\\\\", "\\'", "\\\"", "\\0", "\\x41", "\\x7f", "\\x80", "\\xG0", "\\x4", "\\xFF", "\\u{41}", "\\u{20ac}", "\\u{10FFFF}", "\\u{110000}", "\\u{D7FF}",
		"\\u{D800}", "\\u{DBFF}", "\\u{dfff}", "\\u{E000}", "\\u{}", "\\u{1234567}", "\\u{0000041}", "\\u{00D800}", "\\u41", "\\u{4", "\\q", "\\e", "\\",
	];
	let mut v = Vec::new();
	for quote in ["\"", "'"]
	{
		for pre in ["", "a"]
		{
			for post in ["", "b"]
			{
				for e in escapes
				{
					v.push(format!("{quote}{pre}{e}{post}{quote}"));
					v.push(format!("{quote}{pre}{e}{post}{quote};"));
					// every ordered pair of escapes: state kept by the lexer between two escapes of
					// one literal (digit counts, values, first error) shows only here
					for e2 in escapes
					{
						v.push(format!("{quote}{pre}{e}{e2}{post}{quote}"));
					}
				}
			}
		}
	}
	v
}

pub const NUMERIC_SUFFIXES: [&str; 9] = ["", "u8", "i8", "u128", "i128", "usize", "u7", "x", "_u8"];
pub const NUMERIC_FOLLOWERS: [&str; 6] = ["", " ", ";", "\n1", " a", "."];

/// Fragments relevant to numbers, quotes and separators (for the deeper k = 4 sweep).
pub fn is_core_fragment(f: &[u8]) -> bool
{
	let s = String::from_utf8_lossy(f);
	if f.len() > 12
	{
		return false;
	}
	let first = f[0];
	first.is_ascii_digit()
		|| matches!(first, b'"' | b'\'' | b'\\' | b' ' | b'\n' | b'\r' | b'/' | b'_')
		|| s.starts_with('x')
		|| s.starts_with("u{")
		|| s == "u8"
		|| s == "i8"
		|| s == "a"
		|| s == "\u{e9}"
		|| s == "."
		|| s == "!"
}

pub fn drive(d: &mut Driver)
{
	let quick = d.quick();
	let nt = SIGMA_TEXT.len();
	let nb = SIGMA_BYTES.len();
	let (lmax_text, lmax_bytes, kmax, kcore) = if quick { (4usize, 3usize, 2usize, 3usize) } else { (5, 4, 3, 4) };
	d.bound("S-CHAR text alphabet size", json!(nt));
	d.bound("S-CHAR text max length", json!(lmax_text));
	d.bound("S-CHAR byte-extended alphabet size (second generation + reference only)", json!(nt + nb));
	d.bound("S-CHAR byte-extended max length", json!(lmax_bytes));
	let frags = fragments();
	let ncore = frags.iter().filter(|f| is_core_fragment(f)).count();
	d.bound("S-FRAG fragments", json!(frags.len()));
	d.bound("S-FRAG max fragments per string", json!(kmax));
	d.bound("S-FRAG core fragments (numbers, quotes, separators)", json!(ncore));
	d.bound("S-FRAG core max fragments per string", json!(kcore));

	// Text alphabet, all three lexers.
	let mut jobs = Vec::new();
	let n_text = if lmax_text >= 5 { 34 } else { nt };
	// For length 5 the alphabet is restricted to its first 34 symbols + the quote/escape symbols.
	for len in 0..=lmax_text.min(4)
	{
		push_prefix_jobs(&mut jobs, "char", nt, len);
	}
	d.phase("S-CHAR text", jobs);
	if lmax_text >= 5
	{
		let mut jobs = Vec::new();
		push_prefix_jobs(&mut jobs, "char5", n_text, 5);
		d.bound("S-CHAR length-5 alphabet", json!("16 word/digit characters, space, tab, newline, quote, apostrophe, backslash, slash, '.', '!', '=', '<', '|', ':', '-', '>', e-acute, CR, '(', '@', '{', '&'"));
		d.phase("S-CHAR text length 5 (restricted alphabet)", jobs);
	}
	// Byte alphabet, delta + reference.
	let mut jobs = Vec::new();
	for len in 1..=lmax_bytes
	{
		push_prefix_jobs(&mut jobs, "bytes", nt + nb, len);
	}
	d.phase("S-CHAR bytes", jobs);
	// Fragments.
	let mut jobs = Vec::new();
	for len in 1..=kmax
	{
		push_prefix_jobs(&mut jobs, "frag", frags.len(), len);
	}
	d.phase("S-FRAG", jobs);
	let mut jobs = Vec::new();
	push_prefix_jobs(&mut jobs, "fragcore", ncore, kcore);
	d.phase("S-FRAG core", jobs);

	let nforms = numeric_forms().len();
	d.bound("numeric boundary forms x suffixes x followers", json!([nforms, NUMERIC_SUFFIXES.len(), NUMERIC_FOLLOWERS.len()]));
	let jobs: Vec<Value> = (0..nforms).step_by(8).map(|lo| json!({"space": "numeric", "lo": lo, "hi": (lo + 8).min(nforms)})).collect();
	d.phase("numeric boundary forms", jobs);
	let nq = quoted_forms().len();
	d.bound("closed quoted literals around every escape form", json!(nq));
	let jobs: Vec<Value> = (0..nq).step_by(64).map(|lo| json!({"space": "quoted", "lo": lo, "hi": (lo + 64).min(nq)})).collect();
	d.phase("quoted literals around every escape form", jobs);

	d.assume("the reference lexer (engine/src/model/reflex.rs) transcribes docs/errors.md E100-E163, docs/syntax.md and the sample files; where they are silent it answers 'unspecified' and only agreement between the two implementations is required");
	d.assume("strings longer than the bounds, and characters outside the alphabets, are not explored");
}

fn push_prefix_jobs(jobs: &mut Vec<Value>, space: &str, n: usize, len: usize)
{
	if len <= 2
	{
		jobs.push(json!({"space": space, "n": n, "len": len, "prefix": []}));
	}
	else
	{
		// Shard by the first symbol (and by the second for the big spaces).
		let two = (n as u64).pow(len as u32) > 2_000_000;
		for a in 0..n
		{
			if two
			{
				for b in 0..n
				{
					jobs.push(json!({"space": space, "n": n, "len": len, "prefix": [a, b]}));
				}
			}
			else
			{
				jobs.push(json!({"space": space, "n": n, "len": len, "prefix": [a]}));
			}
		}
	}
}

pub const CHAR5: [&str; 34] = [
	"a", "x", "u", "i", "_", "0", "1", "8", "A", "F", " ", "\t", "\n", "\"", "'", "\\", "/", ".", "!", "=", "<", "|", ":", "-", ">", "\u{e9}", "\r", "(", "@", "{", "&", "b",
	"n", "\u{7f}",
];

pub fn work(spec: &Value, w: &mut WorkerCtx)
{
	if let Some(case) = spec.get("replay")
	{
		let bytes: Vec<u8> = case["bytes"].as_array().map(|a| a.iter().map(|x| x.as_u64().unwrap() as u8).collect()).unwrap_or_default();
		judge(&bytes, w);
		return;
	}
	let space = spec["space"].as_str().unwrap();
	if space == "numeric"
	{
		let forms = numeric_forms();
		for i in spec["lo"].as_u64().unwrap() as usize..spec["hi"].as_u64().unwrap() as usize
		{
			for suffix in NUMERIC_SUFFIXES
			{
				for follower in NUMERIC_FOLLOWERS
				{
					let text = format!("{}{}{}", forms[i], suffix, follower);
					w.result.transitions += 1;
					judge(text.as_bytes(), w);
				}
			}
		}
		return;
	}
	if space == "quoted"
	{
		let forms = quoted_forms();
		for i in spec["lo"].as_u64().unwrap() as usize..spec["hi"].as_u64().unwrap() as usize
		{
			w.result.transitions += 1;
			judge(forms[i].as_bytes(), w);
		}
		return;
	}
	let n = spec["n"].as_u64().unwrap() as usize;
	let len = spec["len"].as_u64().unwrap() as usize;
	let prefix: Vec<usize> = spec["prefix"].as_array().unwrap().iter().map(|x| x.as_u64().unwrap() as usize).collect();
	let frags;
	let symbols: Vec<&[u8]> = match space
	{
		"char" => SIGMA_TEXT.iter().map(|s| s.as_bytes()).collect(),
		"char5" => CHAR5.iter().map(|s| s.as_bytes()).collect(),
		"bytes" => SIGMA_TEXT.iter().map(|s| s.as_bytes()).chain(SIGMA_BYTES.iter().copied()).collect(),
		"frag" =>
		{
			frags = fragments();
			frags.iter().map(|f| f.as_slice()).collect()
		}
		"fragcore" =>
		{
			frags = fragments();
			frags.iter().filter(|f| is_core_fragment(f)).map(|f| f.as_slice()).collect()
		}
		_ => panic!("unknown space"),
	};
	assert_eq!(symbols.len(), n);
	let mut idx = vec![0usize; len];
	for (k, p) in prefix.iter().enumerate()
	{
		idx[k] = *p;
	}
	let fixed = prefix.len();
	let mut buf: Vec<u8> = Vec::new();
	loop
	{
		buf.clear();
		for i in &idx
		{
			buf.extend_from_slice(symbols[*i]);
		}
		w.result.transitions += if len > 0 { 1 } else { 0 };
		judge(&buf, w);
		// odometer
		let mut k = len;
		loop
		{
			if k == fixed
			{
				return;
			}
			k -= 1;
			idx[k] += 1;
			if idx[k] < n
			{
				break;
			}
			idx[k] = 0;
		}
	}
}

fn kind_name(k: &RKind) -> String
{
	match k
	{
		RKind::Punct(p) => format!("Punct{}", p.len()),
		RKind::Keyword(_) => "Keyword".into(),
		RKind::ReturnWord => "return".into(),
		RKind::Type(_) => "Type".into(),
		RKind::Placeholder => "Placeholder".into(),
		RKind::Ident => "Ident".into(),
		RKind::Builtin => "Builtin".into(),
		RKind::Dec(_) => "Dec".into(),
		RKind::Bit(_) => "Bit".into(),
		RKind::Suf(..) => "Suf".into(),
		RKind::Char(_) => "Char".into(),
		RKind::Bool(_) => "Bool".into(),
		RKind::Str(_) => "Str".into(),
		RKind::Err { code, .. } => format!("E{code}"),
	}
}

fn same_kind(a: &RKind, b: &RKind, compare_str_bytes: bool) -> bool
{
	match (a, b)
	{
		(RKind::Str(x), RKind::Str(y)) => !compare_str_bytes || x == y,
		(RKind::Err { code: x, .. }, RKind::Err { code: y, .. }) => x == y,
		_ => a == b,
	}
}

fn char_class(src: &[u8], at: usize) -> &'static str
{
	if at >= src.len()
	{
		return "eof";
	}
	match src[at]
	{
		b'\r' => "CR",
		b'\n' => "LF",
		b'\\' => "backslash",
		b'"' => "dquote",
		b'\'' => "squote",
		b' ' | b'\t' => "blank",
		b'0'..=b'9' => "digit",
		b'_' => "underscore",
		b if b.is_ascii_alphabetic() => "letter",
		b if b >= 0x80 => "nonascii",
		b if b < 0x20 || b == 0x7f => "control",
		_ => "punct",
	}
}

/// Shape of a lexeme: coarse description used in signatures.
fn lexeme_shape(src: &[u8], start: usize, end: usize) -> String
{
	let end = end.min(src.len());
	let start = start.min(end);
	let lex = &src[start..end];
	if lex.is_empty()
	{
		return "empty".into();
	}
	let mut s = String::new();
	match lex[0]
	{
		b'0'..=b'9' =>
		{
			let t = String::from_utf8_lossy(lex);
			let radix = if t.starts_with("0x") { "hex" } else if t.starts_with("0b") { "bin" } else { "dec" };
			s.push_str(radix);
			let digits = t.chars().filter(|c| c.is_ascii_hexdigit()).count();
			if digits > 120
			{
				s.push_str("-verylong");
			}
			else if digits >= 33
			{
				s.push_str("-long");
			}
			if t.contains('_')
			{
				s.push_str("-underscore");
			}
		}
		b'"' | b'\'' =>
		{
			s.push_str(if lex[0] == b'"' { "string" } else { "char" });
			let t = String::from_utf8_lossy(lex);
			if t.contains("\\u")
			{
				s.push_str("-uescape");
			}
			if t.contains("\\x")
			{
				s.push_str("-xescape");
			}
			if t.ends_with('\\')
			{
				s.push_str("-trailingbackslash");
			}
			if lex.iter().any(|b| *b == b'\r')
			{
				s.push_str("-CR");
			}
			if lex.iter().any(|b| *b >= 0x80)
			{
				s.push_str("-nonascii");
			}
		}
		b if b >= 0x80 => s.push_str("nonascii"),
		b'\r' => s.push_str("CR"),
		b if b < 0x20 || b == 0x7f => s.push_str("control"),
		b if b.is_ascii_alphabetic() || b == b'_' => s.push_str("word"),
		_ => s.push_str("punct"),
	}
	s
}

struct Mismatch
{
	signature: String,
	detail: String,
}

fn kinds_of(tokens: &[&OTok]) -> String
{
	if tokens.is_empty()
	{
		return "none".to_string();
	}
	let mut names: Vec<String> = tokens.iter().map(|t| kind_name(&t.kind)).collect();
	if names.len() > 3
	{
		let n = names.len();
		names.truncate(2);
		names.push(format!("..x{n}"));
	}
	names.join("+")
}

/// Assign every observed token to the reference lexeme whose span contains its start (error
/// tokens may also sit at the very end of the preceding lexeme). Returns per-lexeme lists and
/// the unassigned tokens.
fn assign<'a>(refs: &[RTok], obs: &'a [OTok]) -> (Vec<Vec<&'a OTok>>, Vec<&'a OTok>)
{
	let mut per: Vec<Vec<&OTok>> = vec![Vec::new(); refs.len()];
	let mut extra = Vec::new();
	for t in obs
	{
		let mut found = None;
		for (k, r) in refs.iter().enumerate()
		{
			if (r.start <= t.start && t.start < r.end) || (r.start == r.end && t.start == r.start)
			{
				found = Some(k);
				break;
			}
		}
		if found.is_none() && matches!(t.kind, RKind::Err { .. })
		{
			for (k, r) in refs.iter().enumerate()
			{
				if r.end == t.start && matches!(r.kind, RKind::Err { .. })
				{
					found = Some(k);
				}
			}
		}
		match found
		{
			Some(k) => per[k].push(t),
			None => extra.push(t),
		}
	}
	(per, extra)
}

fn shape_at(src: &[u8], r: &RTok) -> String
{
	let shape = lexeme_shape(src, r.start, r.end);
	if shape == "punct" || shape == "control"
	{
		format!("{shape}({})", char_class(src, r.start))
	}
	else
	{
		shape
	}
}

/// Compare one implementation's tokens with the reference, lexeme by lexeme.
fn compare_with_reference(who: &str, src: &[u8], refs: &[RTok], obs: &[OTok], col_in_chars: bool, compare_str_bytes: bool) -> Option<Mismatch>
{
	let (per, extra) = assign(refs, obs);
	for (r, ts) in refs.iter().zip(per.iter())
	{
		if r.kind == RKind::ReturnWord && r.end - r.start > 6
		{
			continue;
		}
		let fail = |aspect: &str| {
			Some(Mismatch {
				signature: format!(
					"ref:{who}:lexeme={}:ref={}:{who}={}{}",
					shape_at(src, r),
					kind_name(&r.kind),
					kinds_of(ts),
					if aspect.is_empty() { String::new() } else { format!(":{aspect}") }
				),
				detail: format!("reference lexeme {:?} vs {who} tokens {:?}", r, ts),
			})
		};
		match &r.kind
		{
			RKind::Err { code, splittable: true, .. } =>
			{
				if ts.is_empty() || !ts.iter().all(|t| matches!(t.kind, RKind::Err { code: c, .. } if c == *code))
				{
					return fail("");
				}
				if ts.iter().any(|t| t.line != r.line)
				{
					return fail("line");
				}
			}
			RKind::Err { unspecified: true, .. } =>
			{
				if ts.len() != 1
				{
					return fail("");
				}
			}
			RKind::Err { code, .. } =>
			{
				if ts.len() != 1 || !matches!(ts[0].kind, RKind::Err { code: c, .. } if c == *code)
				{
					return fail("");
				}
				if *code != 101 && ts[0].line != r.line
				{
					return fail("line");
				}
			}
			_ =>
			{
				if ts.len() != 1
				{
					return fail("");
				}
				let o = ts[0];
				if !same_kind(&r.kind, &o.kind, compare_str_bytes)
				{
					return fail(if kind_name(&r.kind) == kind_name(&o.kind) { "value" } else { "" });
				}
				if o.start != r.start
				{
					if who == "alpha" && src[..r.start].windows(2).any(|w| w == b"\r\n")
					{
						return Some(Mismatch {
							signature: "ref:alpha:spans-drift-after-CRLF".to_string(),
							detail: format!("reference lexeme {:?} vs alpha token {:?} after a CRLF line end", r, o),
						});
					}
					return fail("start");
				}
				if o.end != r.end
				{
					return fail("end");
				}
				if o.line != r.line
				{
					return fail("line");
				}
				let col = if col_in_chars
				{
					String::from_utf8_lossy(&src[r.line_start..r.start]).chars().count()
				}
				else
				{
					r.start - r.line_start
				};
				if o.col != col
				{
					return fail("column");
				}
			}
		}
	}
	if let Some(o) = extra.first()
	{
		if src[..o.start.min(src.len())].windows(2).any(|w| w == b"\r\n") && who == "alpha"
		{
			return Some(Mismatch {
				signature: "ref:alpha:spans-drift-after-CRLF".to_string(),
				detail: format!("first generation token {:?} does not start at a lexeme although its kind is plausible; a CRLF line end precedes it", o),
			});
		}
		return Some(Mismatch {
			signature: format!("ref:{who}:extra:at={}:{who}={}", char_class(src, o.start), kind_name(&o.kind)),
			detail: format!("{who} produced a token {:?} where the reference has only whitespace or a comment", o),
		});
	}
	None
}

/// Agreement between the two implementations (hard clause, independent of the reference's
/// verdict; the reference only provides the segmentation into lexemes).
fn compare_implementations(src: &[u8], refs: &[RTok], a: &[OTok], d: &[OTok]) -> Option<Mismatch>
{
	let (pa, ea) = assign(refs, a);
	let (pd, ed) = assign(refs, d);
	for (k, r) in refs.iter().enumerate()
	{
		let (x, y) = (&pa[k], &pd[k]);
		if r.kind == RKind::ReturnWord && r.end - r.start > 6
		{
			// The documented difference: `return` is reserved in the second generation only.
			continue;
		}
		let fail = |aspect: &str| {
			Some(Mismatch {
				signature: format!(
					"agree:lexeme={}:alpha={}:delta={}{}",
					shape_at(src, r),
					kinds_of(x),
					kinds_of(y),
					if aspect.is_empty() { String::new() } else { format!(":{aspect}") }
				),
				detail: format!("lexeme {:?}: first generation {:?} vs second generation {:?}", r, x, y),
			})
		};
		let splittable = matches!(r.kind, RKind::Err { splittable: true, .. });
		if splittable
		{
			let all_same = |v: &Vec<&OTok>| !v.is_empty() && v.iter().all(|t| matches!(t.kind, RKind::Err { code: 110, .. }));
			if all_same(x) && all_same(y)
			{
				continue;
			}
			return fail("");
		}
		if x.len() != y.len()
		{
			return fail("");
		}
		for (t, u) in x.iter().zip(y.iter())
		{
			if !same_kind(&t.kind, &u.kind, false)
			{
				return fail(if kind_name(&t.kind) == kind_name(&u.kind) { "value" } else { "" });
			}
			let is_err = matches!(t.kind, RKind::Err { .. });
			if matches!(t.kind, RKind::Err { code: 101, .. })
			{
				continue;
			}
			if t.line != u.line
			{
				return fail("line");
			}
			if !is_err && (t.start != u.start || t.end != u.end)
			{
				return fail("span");
			}
		}
	}
	if ea.len() != ed.len() || ea.iter().zip(ed.iter()).any(|(t, u)| !same_kind(&t.kind, &u.kind, false) || t.start != u.start)
	{
		let p = ea.first().map(|t| t.start).unwrap_or(usize::MAX).min(ed.first().map(|t| t.start).unwrap_or(usize::MAX));
		let ea2: Vec<&OTok> = ea.iter().copied().filter(|t| t.start == p).collect();
		let ed2: Vec<&OTok> = ed.iter().copied().filter(|t| t.start == p).collect();
		return Some(Mismatch {
			signature: format!("agree:outside-lexeme:at={}:alpha={}:delta={}", char_class(src, p), kinds_of(&ea2), kinds_of(&ed2)),
			detail: format!("outside any reference lexeme: first generation {:?} vs second generation {:?}", ea, ed),
		});
	}
	None
}

pub fn judge(src: &[u8], w: &mut WorkerCtx)
{
	w.result.states += 1;
	let desc = case_json(src);
	let desc_bytes = desc.to_string().into_bytes();
	let text = std::str::from_utf8(src).ok();
	let refs = reflex::lex(src);
	let outcome = w.run_case(&desc_bytes, || {
		let a = text.map(alpha_tokens);
		let d = delta_tokens(src);
		(a, d)
	});
	let size = src.len() as u64;
	match outcome
	{
		CaseOutcome::Done((a, d)) =>
		{
			w.result.validated += 1;
			let mut ok = true;
			if d.end_of_source != 2 && !(src.is_empty())
			{
				ok = false;
				w.result.violation("delta:end-of-source-count", size, || desc.clone(), || format!("{} EndOfSource tokens", d.end_of_source));
			}
			if let Some(m) = compare_with_reference("delta", src, &refs, &d.tokens, false, false)
			{
				ok = false;
				w.result.violation(&m.signature, size, || desc.clone(), || m.detail.clone());
			}
			if let Some((a, drifted)) = &a
			{
				if *drifted
				{
					ok = false;
					w.result.violation("ref:alpha:spans-drift-left-after-CRLF", size, || desc.clone(), || "first generation spans (character offsets) lag by one per preceding CRLF line end".to_string());
				}
				if let Some(m) = compare_with_reference("alpha", src, &refs, a, true, true)
				{
					ok = false;
					w.result.violation(&m.signature, size, || desc.clone(), || m.detail.clone());
				}
				if let Some(m) = compare_implementations(src, &refs, a, &d.tokens)
				{
					ok = false;
					w.result.violation(&m.signature, size, || desc.clone(), || m.detail.clone());
				}
			}
			// Outcome histogram: the multiset of reference token kinds is too fine; use (has error, #tokens bucket).
			let has_err = refs.iter().any(|t| matches!(t.kind, RKind::Err { .. }));
			let key = format!("{}:{}tokens:{}", if has_err { "illegal" } else { "legal" }, refs.len().min(5), if ok { "conform" } else { "MISMATCH" });
			w.result.outcome(&key);
			if ok && refs.len() >= 3
			{
				w.result.sample(|| json!({"input": String::from_utf8_lossy(src), "reference_tokens": refs.iter().map(|t| format!("{:?}@{}..{}", t.kind, t.start, t.end)).collect::<Vec<_>>()}));
			}
		}
		CaseOutcome::Panicked { site, message } =>
		{
			w.result.outcome("panicked");
			let sig = format!("panic@{}", crate::util::site_signature(&site, &message));
			w.result.violation(&sig, size, || desc.clone(), || format!("panic at {site}: {message}"));
		}
		CaseOutcome::Crashed { .. } =>
		{}
	}
}

pub fn case_json(src: &[u8]) -> Value
{
	json!({"text": String::from_utf8_lossy(src), "bytes": src})
}
