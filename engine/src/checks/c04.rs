//! C04 — goto only ever jumps forward and outward.
//!
//! All statement forests over {A:, B:, goto A, goto B, if c goto A, if c goto B} with nested
//! blocks up to a size bound, compiled by the real first-generation pipeline and judged against
//! the reference label-scoping model.

use crate::driver::Driver;
use crate::model::labels::{self, L};
use crate::pool::{CaseOutcome, WorkerCtx};
use crate::spaces::body::{self, B, BodySpace};
use crate::subjects::alpha::{self, Verdict};
use serde_json::{Value, json};

pub const ATOMS: usize = 6;
pub const VARIANTS: [&str; 4] = ["void function", "function with `return:` value (goto return)", "second function holding labels A and B", "behind a function that jumps to its own labels B and A"];

/// The function in front of the judged one in variant 3 (its labels are its own).
const EARLIER: &str = "fn g(c: i32)\n{\n\tif c == 0 goto A;\n\tgoto B;\n\tB:\n\tA:\n}\n";

fn atom_text(variant: usize, a: u8) -> String
{
	let b_goto = if variant == 1 { "return" } else { "B" };
	match a
	{
		0 => "A:".into(),
		1 => "B:".into(),
		2 => "goto A;".into(),
		3 => format!("goto {b_goto};"),
		4 => "if c == 0 goto A;".into(),
		_ => format!("if c == 0 goto {b_goto};"),
	}
}

pub fn render(variant: usize, forest: &[B]) -> (String, Vec<usize>)
{
	let mut lines = Vec::new();
	let mut atom_lines = Vec::new();
	body::render_lines(forest, &|a| atom_text(variant, a), 1, &mut lines, &mut atom_lines);
	let mut text = String::new();
	if variant == 3
	{
		text.push_str(EARLIER);
	}
	if variant == 1
	{
		text.push_str("fn f(c: i32) -> i32\n{\n");
	}
	else
	{
		text.push_str("fn f(c: i32)\n{\n");
	}
	for l in &lines
	{
		text.push_str(l);
		text.push('\n');
	}
	if variant == 1
	{
		text.push_str("\treturn: c\n");
	}
	text.push_str("}\n");
	if variant == 2
	{
		text.push_str("fn g()\n{\n\tA:\n\tB:\n}\n");
	}
	// file line (1-based) of each atom
	let first_body_line = if variant == 3 { 3 + EARLIER.lines().count() } else { 3 };
	(text, atom_lines.iter().map(|l| l + first_body_line).collect())
}

/// Translate a forest into the model's vocabulary; ids are indices of atoms in textual order.
fn to_model(variant: usize, forest: &[B], next_id: &mut usize) -> Vec<L>
{
	const NAME_A: usize = 0;
	const NAME_B: usize = 1;
	const NAME_RETURN: usize = 2;
	forest
		.iter()
		.map(|s| match s
		{
			B::Atom(a) =>
			{
				let id = *next_id;
				*next_id += 1;
				let goto_b = if variant == 1 { NAME_RETURN } else { NAME_B };
				match a
				{
					0 => L::Label(NAME_A, id),
					1 => L::Label(NAME_B, id),
					2 | 4 => L::Goto(NAME_A, id),
					_ => L::Goto(goto_b, id),
				}
			}
			B::Block(inner) => L::Block(to_model(variant, inner, next_id)),
		})
		.collect()
}

pub fn drive(d: &mut Driver)
{
	let quick = d.quick();
	// (n, depth) pairs
	let plan: Vec<(usize, usize, usize)> = if quick
	{
		// (variant, max n, depth)
		vec![(0, 6, 3), (1, 5, 3), (2, 4, 3), (3, 4, 3)]
	}
	else
	{
		vec![(0, 7, 3), (1, 6, 3), (2, 6, 3), (3, 6, 3)]
	};
	d.bound("atoms", json!(["A:", "B:", "goto A;", "goto B;", "if c == 0 goto A;", "if c == 0 goto B;"]));
	d.bound("variants (max statements, block nesting depth)", json!(plan.iter().map(|(v, n, dep)| json!({"variant": VARIANTS[*v], "max_statements": n, "depth": dep})).collect::<Vec<_>>()));
	d.bound("symmetry reduction", json!("bodies are enumerated up to renaming of A and B (first mentioned label is A) where the two names are interchangeable"));
	let space = BodySpace::new(ATOMS);
	let mut jobs = Vec::new();
	for (variant, nmax, depth) in &plan
	{
		for n in 0..=*nmax
		{
			for first in space.first_choices(n, *depth)
			{
				jobs.push(json!({"variant": variant, "n": n, "depth": depth, "first": first}));
			}
		}
	}
	if !quick
	{
		// one size more at nesting depth 2
		for first in space.first_choices(8, 2)
		{
			jobs.push(json!({"variant": 0, "n": 8, "depth": 2, "first": first}));
		}
		d.bound("extra", json!("variant 0 with 8 statements at nesting depth 2"));
	}
	// larger jobs first
	jobs.reverse();
	d.phase("label/goto bodies", jobs);
	// slice of larger sizes: sequences of groups, a group being one or two statements inside zero,
	// one or two nested blocks of their own (up to 12 statements)
	let ngroups = group_forests().len();
	d.bound("sequences of groups (a group: 1-2 statements inside 0-2 blocks of its own)", json!({"two groups": "all", "three groups": "at most one group of two statements", "four groups": "single statements", "bodies": ngroups}));
	let jobs: Vec<Value> = (0..ngroups).step_by(2000).map(|lo| json!({"groups": true, "lo": lo, "hi": (lo + 2000).min(ngroups)})).collect();
	d.phase("labels and gotos in groups at different depths", jobs);
	d.assume("model: engine/src/model/labels.rs, transcribed from docs/features.md (reverse label scope) and docs/errors.md E400/E420");
	d.assume("bodies larger than the bound are not explored");
}

/// The bodies of the slice "labels and gotos in groups at different depths".
pub fn group_forests() -> Vec<Vec<B>>
{
	// group kinds: (depth, atoms)
	let mut singles: Vec<(usize, Vec<u8>)> = Vec::new();
	let mut doubles: Vec<(usize, Vec<u8>)> = Vec::new();
	for depth in 0..=2usize
	{
		for a in 0..ATOMS as u8
		{
			singles.push((depth, vec![a]));
			for b in 0..ATOMS as u8
			{
				doubles.push((depth, vec![a, b]));
			}
		}
	}
	let render = |groups: &[&(usize, Vec<u8>)]| -> Vec<B> {
		let mut forest = Vec::new();
		for (depth, atoms) in groups
		{
			let inner: Vec<B> = atoms.iter().map(|a| B::Atom(*a)).collect();
			if *depth == 0
			{
				forest.extend(inner);
			}
			else
			{
				let mut b = B::Block(inner);
				for _ in 1..*depth
				{
					b = B::Block(vec![b]);
				}
				forest.push(b);
			}
		}
		forest
	};
	let all: Vec<&(usize, Vec<u8>)> = singles.iter().chain(doubles.iter()).collect();
	let mut out = Vec::new();
	for g1 in &all
	{
		for g2 in &all
		{
			out.push(render(&[g1, g2]));
		}
	}
	for (pos, _) in [0, 1, 2].iter().enumerate()
	{
		for d in &doubles
		{
			for s1 in &singles
			{
				for s2 in &singles
				{
					let groups: Vec<&(usize, Vec<u8>)> = match pos
					{
						0 => vec![d, s1, s2],
						1 => vec![s1, d, s2],
						_ => vec![s1, s2, d],
					};
					out.push(render(&groups));
				}
			}
		}
	}
	for s1 in &singles
	{
		for s2 in &singles
		{
			for s3 in &singles
			{
				out.push(render(&[s1, s2, s3]));
				for s4 in &singles
				{
					out.push(render(&[s1, s2, s3, s4]));
				}
			}
		}
	}
	out
}

pub fn work(spec: &Value, w: &mut WorkerCtx)
{
	if spec.get("groups").is_some()
	{
		let all = group_forests();
		for forest in &all[spec["lo"].as_u64().unwrap() as usize..spec["hi"].as_u64().unwrap() as usize]
		{
			w.result.transitions += 1;
			judge(0, forest, w);
		}
		return;
	}
	if let Some(case) = spec.get("replay")
	{
		let variant = case["variant"].as_u64().unwrap() as usize;
		let forest: Vec<B> = decode_forest(&case["forest"]);
		judge(variant, &forest, w);
		return;
	}
	let variant = spec["variant"].as_u64().unwrap() as usize;
	let n = spec["n"].as_u64().unwrap() as usize;
	let depth = spec["depth"].as_u64().unwrap() as usize;
	let first = spec["first"].as_str().unwrap().to_string();
	let mut space = BodySpace::new(ATOMS);
	// (in variant 3 the labels of the earlier function are not interchangeable: A is its last one)
	let symmetric = variant != 1 && variant != 3;
	let mut order = Vec::new();
	space.for_each(n, depth, &first, &mut |forest| {
		w.result.transitions += 1;
		if symmetric
		{
			order.clear();
			body::atoms_in_order(forest, &mut order);
			if let Some(a) = order.first()
			{
				if a % 2 == 1
				{
					return;
				}
			}
		}
		judge(variant, forest, w);
	});
}

pub fn encode_forest(f: &[B]) -> Value
{
	Value::Array(
		f.iter()
			.map(|s| match s
			{
				B::Atom(a) => json!(a),
				B::Block(inner) => encode_forest(inner),
			})
			.collect(),
	)
}

pub fn decode_forest(v: &Value) -> Vec<B>
{
	v.as_array()
		.map(|a| {
			a.iter()
				.map(|x| match x
				{
					Value::Array(_) => B::Block(decode_forest(x)),
					other => B::Atom(other.as_u64().unwrap_or(0) as u8),
				})
				.collect()
		})
		.unwrap_or_default()
}

fn judge(variant: usize, forest: &[B], w: &mut WorkerCtx)
{
	w.result.states += 1;
	let (text, atom_lines) = render(variant, forest);
	let mut next_id = 0;
	let model_body = to_model(variant, forest, &mut next_id);
	let trailing: Vec<(usize, usize)> = if variant == 1 { vec![(2, usize::MAX)] } else { vec![] };
	let verdict = labels::judge(&model_body, &trailing);
	let desc = || json!({"variant": variant, "forest": encode_forest(forest), "text": text});
	let d = desc().to_string().into_bytes();
	let size = next_id as u64 + text.len() as u64 / 1000;
	let outcome = w.run_case(&d, || alpha::compile_one(&text, alpha::FULL));
	match outcome
	{
		CaseOutcome::Done(v) =>
		{
			w.result.validated += 1;
			let illegal_lines: Vec<usize> = verdict.illegal_gotos.iter().map(|id| atom_lines[*id]).collect();
			let clash_lines: Vec<usize> = verdict.clashing_labels.iter().chain(verdict.clash_partners.iter()).filter(|id| **id != usize::MAX).map(|id| atom_lines[*id]).collect();
			let expect_reject = !illegal_lines.is_empty() || !clash_lines.is_empty();
			let mut ok = true;
			match &v
			{
				Verdict::Ok { .. } =>
				{
					if expect_reject
					{
						ok = false;
						let what = if !illegal_lines.is_empty() { "illegal-goto" } else { "clashing-label" };
						w.result.violation(&format!("accepted-with-{what}:{}", VARIANTS[variant]), size, &desc, || {
							format!("accepted, but the model finds illegal gotos on lines {illegal_lines:?} and clashing labels on lines {clash_lines:?}\n{text}")
						});
					}
				}
				Verdict::Rejected { diags, .. } =>
				{
					let codes: Vec<u16> = diags.iter().map(|d| d.code).collect();
					if !expect_reject
					{
						ok = false;
						w.result.violation(&format!("rejected-legal-body:E{}:{}", codes.first().copied().unwrap_or(0), VARIANTS[variant]), size, &desc, || {
							format!("the model finds every goto forward/outward and every label unique, but the compiler reports {codes:?}\n{text}")
						});
					}
					else
					{
						if let Some(other) = codes.iter().find(|c| **c != 400 && **c != 420)
						{
							ok = false;
							w.result.violation(&format!("unexpected-code:E{other}"), size, &desc, || format!("codes {codes:?}\n{text}"));
						}
						let has400 = codes.contains(&400);
						let has420 = codes.contains(&420);
						if has400 != !illegal_lines.is_empty()
						{
							ok = false;
							w.result.violation(if has400 { "E400-without-illegal-goto" } else { "illegal-goto-without-E400" }, size, &desc, || {
								format!("codes {codes:?}; model: illegal gotos on lines {illegal_lines:?}\n{text}")
							});
						}
						if has420 != !clash_lines.is_empty()
						{
							ok = false;
							w.result.violation(if has420 { "E420-without-clash" } else { "clash-without-E420" }, size, &desc, || {
								format!("codes {codes:?}; model: clashing labels on lines {clash_lines:?}\n{text}")
							});
						}
						for dg in diags
						{
							if dg.code == 400 && !illegal_lines.is_empty() && !illegal_lines.contains(&dg.line)
							{
								ok = false;
								w.result.violation("E400-points-at-legal-goto", size, &desc, || format!("E400 on line {}, illegal gotos are on lines {illegal_lines:?}\n{text}", dg.line));
							}
							if dg.code == 420 && !clash_lines.is_empty() && !clash_lines.contains(&dg.line)
							{
								ok = false;
								w.result.violation("E420-points-at-unique-label", size, &desc, || format!("E420 on line {}, clashing labels are on lines {clash_lines:?}\n{text}", dg.line));
							}
						}
						// soft: counts
						let n400 = codes.iter().filter(|c| **c == 400).count();
						if n400 != verdict.illegal_gotos.len()
						{
							w.result.soft("number of E400 differs from number of illegal gotos", || text.clone());
						}
						let n420 = codes.iter().filter(|c| **c == 420).count();
						if n420 != verdict.clashing_labels.len()
						{
							w.result.soft("number of E420 differs from number of clashing labels", || text.clone());
						}
					}
				}
				Verdict::InternalError(e) =>
				{
					ok = false;
					w.result.violation("internal-error", size, &desc, || format!("{e}\n{text}"));
				}
			}
			let key = format!(
				"{}{}{}",
				if v.accepted() { "accepted" } else { "rejected" },
				if !illegal_lines.is_empty() { "+illegal-goto" } else { "" },
				if !clash_lines.is_empty() { "+clash" } else { "" }
			);
			w.result.outcome(&if ok { key } else { format!("{key}:MISMATCH") });
			if ok && expect_reject && next_id >= 4
			{
				w.result.sample(|| json!({"text": text, "model_illegal_goto_lines": illegal_lines, "model_clash_lines": clash_lines, "codes": v.codes()}));
			}
		}
		CaseOutcome::Panicked { site, message } =>
		{
			w.result.outcome("panicked");
			let sig = format!("panic@{}", crate::util::site_signature(&site, &message));
			w.result.violation(&sig, size, &desc, || format!("panic at {site}: {message}\n{text}"));
		}
		CaseOutcome::Crashed { .. } =>
		{}
	}
}
