//! C07 — no implicit conversions: ill-typed programs are rejected.
//!
//! The full finite matrix operator x operand x operand, comparison x operand x operand, unary x
//! operand, `as` x operand x target, and target type x source operand in every context with its
//! own inference path (initialisation, untyped declaration, assignment, argument, return,
//! constant, array element, struct member). Every cell is one small program compiled by the real
//! pipeline. Plus an invariant monitor over the resolved trees of all accepted programs.

use crate::driver::Driver;
use crate::pool::{CaseOutcome, WorkerCtx};
use crate::subjects::alpha::{self, Verdict};
use serde_json::{Value, json};

pub const PRIMS: [&str; 13] = ["i8", "i16", "i32", "i64", "i128", "u8", "u16", "u32", "u64", "u128", "usize", "bool", "char8"];

/// Effective type of an operand expression.
#[derive(Debug, Clone, PartialEq, Eq)]
pub enum T
{
	Prim(&'static str),
	Pointer,
	Array,
	Struct,
	Word,
}

/// Operand forms: (name, expression text, effective type)
pub fn operands() -> Vec<(String, String, T)>
{
	let mut v = Vec::new();
	for p in PRIMS
	{
		v.push((format!("{p} variable"), format!("v_{p}"), T::Prim(p)));
	}
	v.push(("pointer variable (auto-dereferenced)".into(), "p".into(), T::Prim("i32")));
	v.push(("address of pointer variable".into(), "&p".into(), T::Pointer));
	v.push(("array variable".into(), "arr".into(), T::Array));
	v.push(("struct variable".into(), "st".into(), T::Struct));
	v.push(("word variable".into(), "wd".into(), T::Word));
	v
}

fn type_text(t: &T) -> &'static str
{
	match t
	{
		T::Prim(p) => p,
		T::Pointer => "&i32",
		T::Array => "[3]i32",
		T::Struct => "S",
		T::Word => "W",
	}
}

const PRELUDE: &str = "struct S\n{\n\tm: i32,\n}\nword32 W\n{\n\tm: i32,\n}\n";

fn locals() -> String
{
	let mut s = String::new();
	for p in PRIMS
	{
		let init = match p
		{
			"bool" => "true",
			"char8" => "'a'",
			_ => "1",
		};
		s.push_str(&format!("\tvar v_{p}: {p} = {init};\n"));
	}
	s.push_str("\tvar base: i32 = 1;\n\tvar p: &i32 = &base;\n\tvar arr: [3]i32 = [1, 2, 3];\n\tvar st: S = S { m: 1 };\n\tvar wd: W = W { m: 1 };\n");
	s
}

fn is_int(p: &str) -> bool
{
	!matches!(p, "bool" | "char8")
}
fn is_signed(p: &str) -> bool
{
	p.starts_with('i')
}
fn is_fixed_unsigned(p: &str) -> bool
{
	p.starts_with('u') && p != "usize"
}

/// Some(true) well-typed, Some(false) ill-typed, None unspecified by the documentation.
pub fn binary_ok(op: &str, l: &T, r: &T) -> Option<bool>
{
	if l != r
	{
		return Some(false);
	}
	match l
	{
		T::Prim(p) => match op
		{
			"+" | "-" | "*" | "/" | "%" =>
			{
				if is_int(p)
				{
					Some(true)
				}
				else if *p == "char8"
				{
					None
				}
				else
				{
					Some(false)
				}
			}
			_ =>
			{
				// bitwise and shift: fixed-width unsigned integers (usize is pinned as invalid by
				// tests/samples/invalid/bitwise_not_usize.pn)
				if is_fixed_unsigned(p) { Some(true) } else { Some(false) }
			}
		},
		_ => Some(false),
	}
}

pub fn comparison_ok(op: &str, l: &T, r: &T) -> Option<bool>
{
	if l != r
	{
		return Some(false);
	}
	let ordering = !matches!(op, "==" | "!=");
	match l
	{
		T::Prim(p) =>
		{
			if is_int(p)
			{
				Some(true)
			}
			else if ordering
			{
				None
			}
			else
			{
				Some(true)
			}
		}
		T::Pointer => Some(!ordering),
		_ => Some(false),
	}
}

pub fn unary_ok(op: &str, t: &T) -> Option<bool>
{
	match t
	{
		T::Prim(p) =>
		{
			if op == "-"
			{
				Some(is_signed(p))
			}
			else if is_fixed_unsigned(p)
			{
				Some(true)
			}
			else if *p == "bool" || *p == "usize"
			{
				None
			}
			else
			{
				Some(false)
			}
		}
		_ => Some(false),
	}
}

pub fn cast_ok(from: &T, to: &str) -> Option<bool>
{
	match from
	{
		T::Prim(p) =>
		{
			if *p == to
			{
				// identity casts are pinned as accepted by tests/samples/valid/identity_casting.pn
				return Some(true);
			}
			if is_int(p) && is_int(to)
			{
				return Some(true);
			}
			if *p == "bool" && is_int(to)
			{
				return Some(true);
			}
			if to == "bool"
			{
				return Some(false);
			}
			if (*p == "u8" && to == "char8") || (*p == "char8" && to == "u8")
			{
				return Some(true);
			}
			None
		}
		_ => Some(false),
	}
}

#[derive(Debug, Clone)]
pub struct Cell
{
	pub family: &'static str,
	pub what: String,
	pub text: String,
	/// Some(true): must be accepted; Some(false): must be rejected; None: unspecified.
	pub expect: Option<bool>,
	/// Codes of which at least one must be reported when rejected (empty = any).
	pub codes: Vec<u16>,
	/// The operand expression that makes an ill-typed cell ill-typed, when it is a single one (used
	/// by C13: a diagnostic with one of the cell's codes must cover it).
	pub offender: Option<String>,
}

pub const CONTEXTS: [&str; 7] = ["straight-line code", "then branch", "else branch", "then branch of an else-if", "nested block", "looping block", "after a label"];

/// Unrelated, valid declarations placed in front of or behind the program of a cell (contexts
/// 100 + 2 * bystander + position): the verdict of the cell must not depend on them.
pub const BYSTANDERS: [(&str, &str); 9] = [
	("constants named like the structure and the word of the cell", "const S: u8 = 4;\nconst W: u8 = 5;\n"),
	("function writing through a pointer parameter", "fn by0(p: &i32)\n{\n\tp = 1;\n}\n"),
	("function with bitwise operators and a comparison", "fn by1(a: u8, b: u8) -> u8\n{\n\tvar c: u8 = a & b;\n\tif c == 0u8\n\t{\n\t\tc = 1;\n\t}\n\treturn: c\n}\n"),
	("function with casts", "fn by2(a: i64) -> u8\n{\n\tvar b: i32 = a as i32;\n\treturn: b as u8\n}\n"),
	("function passing an array literal as a view", "fn by3h(v: []i16) -> usize\n{\n\treturn: |v|\n}\nfn by3() -> usize\n{\n\tvar n: usize = by3h([1, 2, 3]);\n\treturn: n\n}\n"),
	("structure with a literal and a member access", "struct By4\n{\n\ta: u16,\n\tb: bool,\n}\nfn by4() -> u16\n{\n\tvar s: By4 = By4 { a: 1, b: true };\n\treturn: s.a\n}\n"),
	("function comparing characters", "fn by5(c: char8) -> u8\n{\n\tvar r: u8 = 0;\n\tif c == 'a'\n\t{\n\t\tr = 1;\n\t}\n\treturn: r\n}\n"),
	("function ending in a loop with a conditional goto", "fn by6(n: usize)\n{\n\tvar i: usize = 0;\n\t{\n\t\tif i == n\n\t\t\tgoto done;\n\t\ti = i + 1;\n\t\tloop;\n\t}\n\tdone:\n}\n"),
	("constant with a cast and a size-of", "const BY7: u8 = |:i64| as u8;\n"),
];

/// More predecessors, of kinds that the seeded "history" defects needed (heads whose parameters are
/// named like the locals of the cell, calls with computed and aggregate arguments, labels of the
/// names the statement contexts use, string literals with escapes, wide integers, opaque
/// structures, constants made of several size-ofs); these stand in front of the cell only.
pub const PREDECESSORS: [(&str, &str); 12] = [
	("external head whose parameters are named like locals of the cell", "extern fn put(v_i32: i32, p: &i32, arr: u8, st: usize);\n"),
	("function head whose parameters are named like locals of the cell", "fn later(r: i32, wd: i32, base: u8);\n"),
	("public function", "pub fn exported(x: i32) -> i32\n{\n\treturn: x\n}\n"),
	("array constant and a function indexing it", "const BYLIT: [3]i32 = [1, 2, 3];\nfn bylit(i: usize) -> i32\n{\n\treturn: BYLIT[i]\n}\n"),
	("function printing a string with escapes", "fn bytext()\n{\n\tprint!(\"a\\x41\\u{e9}\\n\", 'q', \"\\t\");\n}\n"),
	("function with the labels of the statement contexts", "fn bylabels(c: i32)\n{\n\tif c == 0\n\t\tgoto l_done;\n\tl_next:\n\tl_done:\n}\n"),
	("function ending in an if with an empty else", "fn byelse(c: i32)\n{\n\tvar x: i32 = 0;\n\tif c == 0\n\t{\n\t\tx = 1;\n\t}\n\telse\n\t{\n\t}\n}\n"),
	("function with a pointer to pointer and a view of a structure", "struct ByS7\n{\n\tm: i32,\n}\nword32 ByW7\n{\n\tm: i32,\n}\nfn bydeep(pp: &&i32, q: ByS7, w: ByW7) -> i32\n{\n\tpp = q.m + w.m;\n\treturn: pp\n}\n"),
	("function with wide integers", "fn bywide(a: u128, b: i128) -> u128\n{\n\tvar c: u128 = (a << 100u128) | 18446744073709551615;\n\tvar d: i128 = -b;\n\treturn: c + (d as u128)\n}\n"),
	("function calling with a computed and an aggregate argument, as a statement", "struct ByS9\n{\n\tm: i32,\n}\nfn bycallee(k: i32, v: []i32, s: ByS9)\n{\n}\nfn bycall(n: i32)\n{\n\tvar loc: [2]i32 = [1, 2];\n\tvar sl: ByS9 = ByS9 { m: 2 };\n\tbycallee(n + 1, loc, sl);\n\tbycallee(-n, [n, 2], ByS9 { m: n });\n}\n"),
	("opaque structure and a function head taking a pointer to it", "struct ByOpaque;\nfn byopen(h: &ByOpaque);\n"),
	("constant made of several size-ofs", "struct ByS11\n{\n\tm: i32,\n}\nword32 ByW11\n{\n\tm: i32,\n}\nconst BYSUM: usize = |:i64| + |:ByS11| + |:[2]ByW11|;\n"),
];

fn context_name(context: usize) -> String
{
	if context >= 200
	{
		format!("behind a {}", PREDECESSORS[context - 200].0)
	}
	else if context >= 100
	{
		let b = (context - 100) / 2;
		format!("{} {}", if (context - 100) % 2 == 0 { "behind a" } else { "in front of a" }, BYSTANDERS[b].0)
	}
	else
	{
		format!("in a {}", CONTEXTS[context])
	}
}

fn with_bystander(text: &str, context: usize) -> String
{
	if context >= 200
	{
		return format!("{}{text}", PREDECESSORS[context - 200].1);
	}
	let b = (context - 100) / 2;
	if (context - 100) % 2 == 0 { format!("{}{text}", BYSTANDERS[b].1) } else { format!("{text}{}", BYSTANDERS[b].1) }
}

thread_local! {
	/// The statement context in which `function` places the statements of a cell.
	static CONTEXT: std::cell::Cell<usize> = std::cell::Cell::new(0);
}

/// Place statements (tab-indented lines) inside a statement context.
pub fn wrap_in_context(body: &str, context: usize) -> String
{
	match context
	{
		1 => format!("\tif 1i32 == 1i32\n\t{{\n{body}\t}}\n"),
		2 => format!("\tif 1i32 == 2i32\n\t{{\n\t}}\n\telse\n\t{{\n{body}\t}}\n"),
		3 => format!("\tif 1i32 == 2i32\n\t{{\n\t}}\n\telse if 1i32 == 1i32\n\t{{\n{body}\t}}\n"),
		4 => format!("\t{{\n\t\t{{\n{body}\t\t}}\n\t}}\n"),
		5 => format!("\tvar li: i32 = 0;\n\t{{\n\t\tif li == 1i32\n\t\t\tgoto l_done;\n\t\tli = li + 1i32;\n{body}\t\tloop;\n\t}}\n\tl_done:\n"),
		6 => format!("\tgoto l_next;\n\tl_next:\n{body}"),
		_ => body.to_string(),
	}
}

fn function(body: &str) -> String
{
	let wrapped = wrap_in_context(body, CONTEXT.with(|c| c.get()));
	format!("{PRELUDE}fn f()\n{{\n{}{wrapped}}}\n", locals())
}

/// The cells of a family with their statements placed in the given statement context.
pub fn cells_in(family: &str, context: usize) -> Vec<Cell>
{
	if context >= 100
	{
		let mut out = cells(family);
		for c in &mut out
		{
			c.text = with_bystander(&c.text, context);
		}
		return out;
	}
	CONTEXT.with(|c| c.set(context));
	let out = cells(family);
	CONTEXT.with(|c| c.set(0));
	out
}

pub fn cells(family: &str) -> Vec<Cell>
{
	let ops = operands();
	let mut out = Vec::new();
	match family
	{
		"binary" =>
		{
			for op in ["+", "-", "*", "/", "%", "&", "|", "^", "<<", ">>"]
			{
				for (ln, le, lt) in &ops
				{
					for (rn, re, rt) in &ops
					{
						let expect = binary_ok(op, lt, rt);
						let rtype = type_text(lt);
						let text = function(&format!("\tvar r: {rtype} = {le} {op} {re};\n"));
						out.push(Cell { family: "binary", what: format!("{ln} {op} {rn}"), text, expect, codes: vec![550, 551, 500, 504, 507, 531, 532, 533], offender: None });
					}
				}
			}
		}
		"comparison" =>
		{
			for op in ["==", "!=", "<", ">", "<=", ">="]
			{
				for (ln, le, lt) in &ops
				{
					for (rn, re, rt) in &ops
					{
						let expect = comparison_ok(op, lt, rt);
						let text = function(&format!("\tif {le} {op} {re}\n\t{{\n\t\tv_i32 = 2;\n\t}}\n"));
						out.push(Cell { family: "comparison", what: format!("{ln} {op} {rn}"), text, expect, codes: vec![550, 551, 500, 504], offender: None });
					}
				}
			}
		}
		"unary" =>
		{
			for op in ["-", "!"]
			{
				for (n, e, t) in &ops
				{
					let e2 = if e.starts_with('&') { continue } else { e };
					let expect = unary_ok(op, t);
					let text = function(&format!("\tvar r: {} = {op}{e2};\n", type_text(t)));
					out.push(Cell { family: "unary", what: format!("{op} {n}"), text, expect, codes: vec![550, 500, 504], offender: None });
				}
			}
		}
		"cast" =>
		{
			for (n, e, t) in &ops
			{
				for to in PRIMS
				{
					let expect = cast_ok(t, to);
					let text = function(&format!("\tvar r: {to} = {e} as {to};\n"));
					out.push(Cell { family: "cast", what: format!("{n} as {to}"), text, expect, codes: vec![552, 553, 500], offender: None });
				}
				for to in ["&i32", "[3]i32", "S", "W"]
				{
					let text = function(&format!("\tvar r: {to} = {e} as {to};\n"));
					// an identity cast converts nothing: not judged
					let expect = if type_text(t) == to { None } else { Some(false) };
					out.push(Cell { family: "cast", what: format!("{n} as {to}"), text, expect, codes: vec![], offender: None });
				}
			}
		}
		"initialisation" | "assignment" | "element assignment" | "matrix element assignment" | "element assignment through a slice pointer" | "member assignment" | "argument" | "return" | "constant" | "array element" | "struct member" | "index" | "index in assignment target" | "index in operand" | "index in condition" | "index in return value" =>
		{
			for target in PRIMS
			{
				for (n, e, t) in &ops
				{
					// same effective primitive type: well typed; different: ill typed.
					let same = *t == T::Prim(target);
					let expect = Some(same);
					let (text, codes): (String, Vec<u16>) = match family
					{
						"initialisation" => (function(&format!("\tvar r: {target} = {e};\n")), vec![500, 504, 507, 531, 532, 533]),
						"assignment" => (function(&format!("\tv_{target} = {e};\n")), vec![504, 500, 507, 531, 532, 533]),
						// assignments whose target has access steps: the value must have the type of
						// the element or member
						"element assignment" => (
							function(&format!("\tvar el: [2]{target} = [v_{target}, v_{target}];\n\tel[1] = {e};\n")),
							vec![504, 500, 507, 531, 532, 533],
						),
						"matrix element assignment" => (
							function(&format!("\tvar mx: [2][2]{target} = [[v_{target}, v_{target}], [v_{target}, v_{target}]];\n\tmx[1][0] = {e};\n")),
							vec![504, 500, 507, 531, 532, 533],
						),
						"element assignment through a slice pointer" => (
							format!("{PRELUDE}fn f(sl: &[]{target})\n{{\n{}{}}}\n", locals(), wrap_in_context(&format!("\tsl[1] = {e};\n"), CONTEXT.with(|c| c.get()))),
							vec![504, 500, 507, 531, 532, 533],
						),
						"member assignment" => (
							format!("{PRELUDE}struct Q\n{{\n\tx: {target},\n}}\nfn f()\n{{\n{}{}}}\n", locals(), wrap_in_context(&format!("\tvar q: Q = Q {{ x: v_{target} }};\n\tq.x = {e};\n"), CONTEXT.with(|c| c.get()))),
							vec![504, 500, 507, 531, 532, 533],
						),
						"argument" => (
							format!("{PRELUDE}fn g(x: {target})\n{{\n}}\nfn f()\n{{\n{}\tg({e});\n}}\n", locals()),
							vec![512, 513, 500, 504],
						),
						"return" => (format!("{PRELUDE}fn f() -> {target}\n{{\n{}\treturn: {e}\n}}\n", locals()), vec![333, 500, 504, 507]),
						"array element" => (function(&format!("\tvar r: [2]{target} = [v_{target}, {e}];\n")), vec![500, 504, 551]),
						"struct member" => (
							format!("{PRELUDE}struct Q\n{{\n\tx: {target},\n}}\nfn f()\n{{\n{}\tvar q: Q = Q {{ x: {e} }};\n}}\n", locals()),
							vec![500, 504, 512],
						),
						"index" | "index in assignment target" | "index in operand" | "index in condition" | "index in return value" =>
						{
							// the index of an array must be usize (E503), wherever the access stands
							if target != "usize"
							{
								continue;
							}
							let text = match family
							{
								"index" => function(&format!("\tvar r: i32 = arr[{e}];\n")),
								"index in assignment target" => function(&format!("\tarr[{e}] = 1;\n")),
								"index in operand" => function(&format!("\tvar r: i32 = arr[{e}] + 1i32;\n")),
								"index in condition" => function(&format!("\tif arr[{e}] == 1i32\n\t{{\n\t}}\n")),
								_ => format!("{PRELUDE}fn f() -> i32\n{{\n{}\treturn: arr[{e}]\n}}\n", locals()),
							};
							(text, vec![503, 500, 504])
						}
						_ =>
						{
							// constants are initialised by literal expressions of the source type
							let lit = match t
							{
								T::Prim("bool") => "true".to_string(),
								T::Prim("char8") => "'a'".to_string(),
								T::Prim(p) => format!("1{p}"),
								_ => continue,
							};
							if e.starts_with('p')
							{
								continue;
							}
							(format!("const K: {target} = {lit};\nfn f()\n{{\n}}\n"), vec![500, 504])
						}
					};
					out.push(Cell { family: leak(family), what: format!("{target} <- {n}"), text, expect, codes, offender: Some(e.to_string()) });
				}
			}
		}
		"call arity" =>
		{
			for nparams in 0..=3usize
			{
				for nargs in 0..=4usize
				{
					let params: Vec<String> = (0..nparams).map(|i| format!("x{i}: i32")).collect();
					let args: Vec<String> = (0..nargs).map(|_| "v_i32".to_string()).collect();
					let text = format!("{PRELUDE}fn g({})\n{{\n}}\nfn f()\n{{\n{}\tg({});\n}}\n", params.join(", "), locals(), args.join(", "));
					let codes = if nargs < nparams { vec![510] } else { vec![511] };
					out.push(Cell { family: "call arity", what: format!("{nparams} parameters, {nargs} arguments"), text, expect: Some(nparams == nargs), codes, offender: None });
				}
			}
		}
		"access" =>
		{
			// |x|, x[i], x.m on every operand type (E501, E502, E505)
			for (n, e, t) in &ops
			{
				if e.starts_with('&')
				{
					continue;
				}
				let is_array = *t == T::Array;
				let is_structural = matches!(t, T::Struct | T::Word);
				out.push(Cell { family: "access", what: format!("|{n}|"), text: function(&format!("\tvar r: usize = |{e}|;\n")), expect: Some(is_array), codes: vec![502], offender: None });
				out.push(Cell { family: "access", what: format!("{n}[0]"), text: function(&format!("\tvar r: i32 = {e}[0];\n")), expect: Some(is_array), codes: vec![501], offender: None });
				out.push(Cell { family: "access", what: format!("{n}.m"), text: function(&format!("\tvar r: i32 = {e}.m;\n")), expect: Some(is_structural), codes: vec![505, 406], offender: None });
			}
		}
		"nested call argument" =>
		{
			// the ill-typed call h(e) stands inside another expression: nothing that wraps a call
			// (a coercion of the enclosing argument, a literal, a cast, an index) may hide it from the
			// argument check
			for (form, template) in NESTED_FORMS
			{
				for target in PRIMS
				{
					for (n, e, t) in &ops
					{
						let same = *t == T::Prim(target);
						let call = format!("h({e})");
						let stmt = template.replace("CALL", &call);
						let text = format!(
							"{PRELUDE}struct Pair\n{{\n\ta: i32,\n\tb: i32,\n}}\nfn h(x: {target}) -> i32\n{{\n\treturn: 1\n}}\nfn hu(x: i32) -> usize\n{{\n\treturn: 1\n}}\nfn first(v: []i32) -> i32\n{{\n\treturn: v[0]\n}}\nfn sum(q: Pair) -> i32\n{{\n\treturn: q.a\n}}\nfn k(x: i32) -> i32\n{{\n\treturn: x\n}}\nfn f() -> i32\n{{\n{}\tvar rows: [2][3]i32 = [[1, 2, 3], [4, 5, 6]];\n{stmt}\treturn: 0\n}}\n",
							locals()
						);
						out.push(Cell { family: "nested call argument", what: format!("{target} <- {n} [{form}]"), text, expect: Some(same), codes: vec![512, 513, 500, 504, 503], offender: Some(e.to_string()) });
					}
				}
			}
		}
		"compound initialisation" | "compound argument" | "compound struct member" | "compound array element" | "compound return" | "compound assignment" => compound_cells(leak(family), &mut out),
		_ => panic!("unknown family {family}"),
	}
	out
}

/// (name, statement with CALL standing for the judged call `h(e)` of type i32)
pub const NESTED_FORMS: [(&str, &str); 14] = [
	("inside an array literal passed as a view", "\tvar r: i32 = first([CALL]);\n"),
	("inside an array literal passed as a view, second element", "\tvar r: i32 = first([1, CALL]);\n"),
	("inside a structure literal passed as an argument", "\tvar r: i32 = sum(Pair { a: CALL, b: 1 });\n"),
	("inside the index of a row passed as a view", "\tvar r: i32 = first(rows[hu(CALL)]);\n"),
	("inside an array literal that initialises a variable", "\tvar r: [2]i32 = [CALL, 2];\n"),
	("inside a structure literal that initialises a variable", "\tvar r: Pair = Pair { a: 1, b: CALL };\n"),
	("inside the argument of another call", "\tvar r: i32 = k(CALL);\n"),
	("inside a cast", "\tvar r: i64 = CALL as i64;\n"),
	("inside a comparison", "\tif CALL == 1i32\n\t{\n\t}\n"),
	("inside a parenthesised operand", "\tvar r: i32 = (CALL + 1i32) * 2i32;\n"),
	("inside the index of an assignment target", "\tarr[hu(CALL)] = 1;\n"),
	("as the value assigned to an element", "\tarr[0] = CALL;\n"),
	("inside a negation", "\tvar r: i32 = -CALL;\n"),
	("as a statement of its own", "\tCALL;\n"),
];

/// A compound type: pointer depth, array dimensions (None = view `[]`), base name. `int?` is the
/// base of an array literal whose elements are naked integer literals.
#[derive(Debug, Clone, PartialEq, Eq)]
pub struct CT
{
	pub ptr: u8,
	pub dims: Vec<Option<u32>>,
	pub base: &'static str,
}

impl CT
{
	pub fn text(&self) -> String
	{
		let mut s = String::new();
		for _ in 0..self.ptr
		{
			s.push('&');
		}
		for d in &self.dims
		{
			match d
			{
				Some(n) => s.push_str(&format!("[{n}]")),
				None => s.push_str("[]"),
			}
		}
		s.push_str(self.base);
		s
	}
}

fn ct(ptr: u8, dims: &[i32], base: &'static str) -> CT
{
	CT { ptr, dims: dims.iter().map(|d| if *d < 0 { None } else { Some(*d as u32) }).collect(), base }
}

/// Why no documented conversion can turn a value of type `u` into the type `t` (None: the pair is
/// not judged). Penne has no implicit conversions: the only documented adaptations are taking a
/// view of a sized array (`[N]T` as `[]T`, outermost dimension only... of any dimension that is
/// written `[]` in the target) and the typing of naked integer literals by their context; none
/// changes an element type, a length that both sides fix, the number of dimensions or the name
/// of a structure or word. Differences in pointer depth alone are left to the other families.
pub fn incompatible(t: &CT, u: &CT) -> Option<&'static str>
{
	let int_base = |b: &str| !matches!(b, "bool" | "char8" | "S" | "S2" | "W" | "W2");
	if t.base != u.base
	{
		let literal_fits = (u.base == "int?" && int_base(t.base)) || (t.base == "int?" && int_base(u.base));
		if !literal_fits
		{
			let nominal = |b: &str| matches!(b, "S" | "S2" | "W" | "W2");
			return Some(if nominal(t.base) && nominal(u.base) { "structure or word name differs" } else { "element or base type differs" });
		}
	}
	if t.dims.len() != u.dims.len()
	{
		return Some("number of dimensions differs");
	}
	for (a, b) in t.dims.iter().zip(u.dims.iter())
	{
		match (a, b)
		{
			(Some(n), Some(m)) if n != m => return Some("length differs"),
			(Some(_), None) => return Some("sized array from a view"),
			_ =>
			{}
		}
	}
	None
}

const COMPOUND_PRELUDE: &str = "struct S\n{\n\tm: i32,\n}\nstruct S2\n{\n\tm: i32,\n}\nword32 W\n{\n\tm: i32,\n}\nword32 W2\n{\n\tm: i32,\n}\n";

fn compound_locals() -> &'static str
{
	"\tvar v_i32: i32 = 1;\n\tvar v_u8: u8 = 1;\n\tvar a3i: [3]i32 = [1, 2, 3];\n\tvar a3u: [3]u8 = [1, 2, 3];\n\tvar a4i: [4]i32 = [1, 2, 3, 4];\n\tvar m23i: [2][3]i32 = [[1, 2, 3], [4, 5, 6]];\n\tvar m23u: [2][3]u8 = [[1, 2, 3], [4, 5, 6]];\n\tvar m32i: [3][2]i32 = [[1, 2], [3, 4], [5, 6]];\n\tvar m24i: [2][4]i32 = [[1, 2, 3, 4], [5, 6, 7, 8]];\n\tvar st: S = S { m: 1 };\n\tvar st2: S2 = S2 { m: 1 };\n\tvar wd: W = W { m: 1 };\n\tvar wd2: W2 = W2 { m: 1 };\n"
}

/// (description, expression, type)
pub fn compound_sources() -> Vec<(String, String, CT)>
{
	let vars: Vec<(&str, CT)> = vec![
		("v_i32", ct(0, &[], "i32")),
		("v_u8", ct(0, &[], "u8")),
		("a3i", ct(0, &[3], "i32")),
		("a3u", ct(0, &[3], "u8")),
		("a4i", ct(0, &[4], "i32")),
		("m23i", ct(0, &[2, 3], "i32")),
		("m23u", ct(0, &[2, 3], "u8")),
		("m32i", ct(0, &[3, 2], "i32")),
		("m24i", ct(0, &[2, 4], "i32")),
		("st", ct(0, &[], "S")),
		("st2", ct(0, &[], "S2")),
		("wd", ct(0, &[], "W")),
		("wd2", ct(0, &[], "W2")),
	];
	let mut v = Vec::new();
	for (name, t) in &vars
	{
		v.push((format!("variable {name}: {}", t.text()), name.to_string(), t.clone()));
		let mut p = t.clone();
		p.ptr += 1;
		v.push((format!("address of variable {name}: {}", t.text()), format!("&{name}"), p));
	}
	v.push(("row m23i[1]".into(), "m23i[1]".into(), ct(0, &[3], "i32")));
	v.push(("row m23u[1]".into(), "m23u[1]".into(), ct(0, &[3], "u8")));
	let literals: Vec<(&str, CT)> = vec![
		("[1i32, 2i32, 3i32]", ct(0, &[3], "i32")),
		("[1u8, 2u8, 3u8]", ct(0, &[3], "u8")),
		("[1i32, 2i32, 3i32, 4i32]", ct(0, &[4], "i32")),
		("[1, 2, 3]", ct(0, &[3], "int?")),
		("[1, 2, 3, 4]", ct(0, &[4], "int?")),
		("[v_u8, v_u8, v_u8]", ct(0, &[3], "u8")),
		("[[1i32, 2i32, 3i32], [4i32, 5i32, 6i32]]", ct(0, &[2, 3], "i32")),
		("[[1u8, 2u8, 3u8], [4u8, 5u8, 6u8]]", ct(0, &[2, 3], "u8")),
		("[[1, 2], [3, 4], [5, 6]]", ct(0, &[3, 2], "int?")),
		("[[1, 2, 3, 4], [5, 6, 7, 8]]", ct(0, &[2, 4], "int?")),
		("S { m: 1 }", ct(0, &[], "S")),
		("S2 { m: 1 }", ct(0, &[], "S2")),
		("W { m: 1 }", ct(0, &[], "W")),
		("W2 { m: 1 }", ct(0, &[], "W2")),
	];
	for (e, t) in literals
	{
		v.push((format!("literal {e}"), e.to_string(), t));
	}
	v
}

fn compound_targets(family: &str) -> Vec<CT>
{
	let arrays = vec![ct(0, &[3], "i32"), ct(0, &[3], "u8"), ct(0, &[4], "i32"), ct(0, &[2, 3], "i32"), ct(0, &[2, 3], "u8"), ct(0, &[3, 2], "i32")];
	let nominal = vec![ct(0, &[], "S"), ct(0, &[], "S2"), ct(0, &[], "W"), ct(0, &[], "W2")];
	let pointers = vec![
		ct(1, &[], "i32"),
		ct(1, &[], "u8"),
		ct(1, &[3], "i32"),
		ct(1, &[3], "u8"),
		ct(1, &[4], "i32"),
		ct(1, &[-1], "i32"),
		ct(1, &[-1], "u8"),
		ct(1, &[2, 3], "i32"),
		ct(1, &[-1, 3], "i32"),
		ct(1, &[-1, 3], "u8"),
		ct(1, &[], "S"),
		ct(1, &[], "S2"),
		ct(1, &[], "W"),
	];
	let views = vec![ct(0, &[-1], "i32"), ct(0, &[-1], "u8"), ct(0, &[-1, 3], "i32"), ct(0, &[-1, 3], "u8"), ct(0, &[-1, 2], "i32")];
	match family
	{
		"compound initialisation" => arrays.into_iter().chain(nominal).chain(pointers).collect(),
		// sized arrays are no parameter types (E354); views, pointers, structures and words are
		"compound argument" => views.into_iter().chain(nominal).chain(pointers).collect(),
		"compound struct member" => arrays.into_iter().chain(nominal).collect(),
		"compound array element" => vec![ct(0, &[3], "i32"), ct(0, &[3], "u8"), ct(0, &[], "S"), ct(0, &[], "W")],
		// only words (and primitives) are returned by value (E351)
		"compound return" => vec![ct(0, &[], "W"), ct(0, &[], "W2")],
		_ => vec![ct(0, &[], "W"), ct(0, &[], "W2")],
	}
}

/// A value of the target type for the positions that need one next to the judged operand.
fn compound_same(t: &CT) -> String
{
	match (t.dims.as_slice(), t.base)
	{
		([Some(3)], "i32") => "[7i32, 8i32, 9i32]".into(),
		([Some(3)], "u8") => "[7u8, 8u8, 9u8]".into(),
		([], "S") => "S { m: 7 }".into(),
		([], "W") => "W { m: 7 }".into(),
		([], "W2") => "W2 { m: 7 }".into(),
		_ => panic!("no same-typed value for {}", t.text()),
	}
}

fn compound_cells(family: &'static str, out: &mut Vec<Cell>)
{
	let codes = vec![500, 501, 502, 504, 505, 507, 512, 513, 531, 532, 533, 550];
	for t in compound_targets(family)
	{
		let tt = t.text();
		for (n, e, u) in compound_sources()
		{
			let Some(why) = incompatible(&t, &u)
			else
			{
				continue;
			};
			let body = match family
			{
				"compound initialisation" => format!("fn f()\n{{\n{}\tvar r: {tt} = {e};\n}}\n", compound_locals()),
				"compound argument" => format!("fn g(x: {tt})\n{{\n}}\nfn f()\n{{\n{}\tg({e});\n}}\n", compound_locals()),
				"compound struct member" => format!("struct Q\n{{\n\tx: {tt},\n\ty: i32,\n}}\nfn f()\n{{\n{}\tvar q: Q = Q {{ x: {e}, y: 5 }};\n}}\n", compound_locals()),
				"compound array element" => format!("fn f()\n{{\n{}\tvar r: [2]{tt} = [{}, {e}];\n}}\n", compound_locals(), compound_same(&t)),
				"compound return" => format!("fn f() -> {tt}\n{{\n{}\treturn: {e}\n}}\n", compound_locals()),
				_ => format!("fn f()\n{{\n{}\tvar r: {tt} = {};\n\tr = {e};\n}}\n", compound_locals(), compound_same(&t)),
			};
			out.push(Cell { family, what: format!("{tt} <- {n} ({why})"), text: format!("{COMPOUND_PRELUDE}{body}"), expect: Some(false), codes: codes.clone(), offender: Some(e.to_string()) });
		}
	}
}

fn leak(s: &str) -> &'static str
{
	FAMILIES.iter().find(|f| **f == s).copied().unwrap_or("?")
}

pub const FAMILIES: [&str; 29] = [
	"binary",
	"comparison",
	"unary",
	"cast",
	"initialisation",
	"assignment",
	"element assignment",
	"matrix element assignment",
	"element assignment through a slice pointer",
	"member assignment",
	"argument",
	"return",
	"constant",
	"array element",
	"struct member",
	"index",
	"index in assignment target",
	"index in operand",
	"index in condition",
	"index in return value",
	"call arity",
	"access",
	"nested call argument",
	"compound initialisation",
	"compound argument",
	"compound struct member",
	"compound array element",
	"compound return",
	"compound assignment",
];

pub fn drive(d: &mut Driver)
{
	d.bound("operand forms", json!(operands().iter().map(|o| o.0.clone()).collect::<Vec<_>>()));
	d.bound("families", json!(FAMILIES));
	let mut jobs = Vec::new();
	let mut sizes = serde_json::Map::new();
	for f in FAMILIES
	{
		let n = cells(f).len();
		sizes.insert(f.to_string(), json!(n));
		let mut lo = 0;
		while lo < n
		{
			let hi = (lo + 120).min(n);
			jobs.push(json!({"family": f, "lo": lo, "hi": hi}));
			lo = hi;
		}
	}
	d.bound("cells per family (the matrix is finite and enumerated completely in both tiers)", Value::Object(sizes));
	d.phase("type matrix", jobs);
	// the same matrix with the statements of every cell inside each statement context
	d.bound("statement contexts", json!(CONTEXTS));
	let mut jobs = Vec::new();
	for context in 1..CONTEXTS.len()
	{
		for f in FAMILIES
		{
			let n = cells(f).len();
			let mut lo = 0;
			while lo < n
			{
				let hi = (lo + 240).min(n);
				jobs.push(json!({"family": f, "lo": lo, "hi": hi, "context": context}));
				lo = hi;
			}
		}
	}
	d.phase("type matrix inside statement contexts", jobs);
	d.bound("bystander declarations (in front of and behind the program of every cell)", json!(BYSTANDERS.iter().map(|b| b.0).collect::<Vec<_>>()));
	d.bound("predecessor declarations (in front of the program of every cell)", json!(PREDECESSORS.iter().map(|b| b.0).collect::<Vec<_>>()));
	let mut jobs = Vec::new();
	for f in FAMILIES
	{
		let n = cells(f).len();
		let mut lo = 0;
		while lo < n
		{
			let hi = (lo + 40).min(n);
			jobs.push(json!({"family": f, "lo": lo, "hi": hi, "bystanders": true}));
			lo = hi;
		}
	}
	d.phase("type matrix next to bystander declarations", jobs);
	d.assume("next to a bystander declaration the verdict of a cell (accepted or rejected, and the sorted list of codes) must be the verdict of the cell alone; what that verdict should be is judged on the cell alone");
	let files: Vec<String> = crate::util::corpus_files().into_iter().filter(|f| f.contains("/valid/") || f.contains("/examples/")).collect();
	d.bound("corpus files for the resolved-tree monitor", json!(files.len()));
	let jobs: Vec<Value> = files.chunks(8).map(|c| json!({"corpus": c})).collect();
	d.phase("resolved-tree invariant monitor on corpus programs", jobs);
	d.assume("type rules transcribed from docs/errors.md E500-E553, docs/features.md (auto-dereference, views) and the repository's pinned samples; cells the documentation does not fix (char8 arithmetic, ordering of bool/char8, !bool, !usize, casts between char8 and integers other than u8) are 'unspecified': only no-crash and the resolved-tree invariant are required there");
	d.assume("an ill-typed cell must be rejected with at least one code of its documented set; which of several applicable codes is reported first is not prescribed");
}

pub fn work(spec: &Value, w: &mut WorkerCtx)
{
	if let Some(case) = spec.get("replay")
	{
		if let Some(p) = case.get("corpus_file").and_then(|p| p.as_str())
		{
			monitor_corpus(p, w);
			return;
		}
		let family = case["family"].as_str().unwrap().to_string();
		let index = case["index"].as_u64().unwrap() as usize;
		let context = case["context"].as_u64().unwrap_or(0) as usize;
		if context >= 100
		{
			judge_bystanders(&cells(&family)[index], index, w);
			return;
		}
		let cs = cells_in(&family, context);
		judge(&cs[index], index, context, w);
		return;
	}
	if let Some(files) = spec.get("corpus").and_then(|f| f.as_array())
	{
		for f in files
		{
			w.result.transitions += 1;
			monitor_corpus(f.as_str().unwrap(), w);
		}
		return;
	}
	let family = spec["family"].as_str().unwrap();
	if spec.get("bystanders").is_some()
	{
		let cs = cells(family);
		for i in spec["lo"].as_u64().unwrap() as usize..spec["hi"].as_u64().unwrap() as usize
		{
			judge_bystanders(&cs[i], i, w);
		}
		return;
	}
	let context = spec["context"].as_u64().unwrap_or(0) as usize;
	let cs = cells_in(family, context);
	let plain = if context > 0 { cells(family) } else { Vec::new() };
	for i in spec["lo"].as_u64().unwrap() as usize..spec["hi"].as_u64().unwrap() as usize
	{
		// cells whose text does not depend on the context were judged in the first phase
		if context > 0 && plain[i].text == cs[i].text
		{
			continue;
		}
		w.result.transitions += 1;
		judge(&cs[i], i, context, w);
	}
}

/// The verdict of a cell next to every bystander declaration against the verdict of the cell alone.
fn judge_bystanders(cell: &Cell, index: usize, w: &mut WorkerCtx)
{
	let verdict_of = |text: &str| {
		let (v, _) = alpha::alpha_pipeline_resolved(&[("m.pn".to_string(), text.to_string())], alpha::ANALYZE_ONLY);
		let mut codes = v.codes();
		codes.sort();
		(v.accepted(), codes)
	};
	let mut plain: Option<(bool, Vec<u16>)> = None;
	for context in (100..100 + 2 * BYSTANDERS.len()).chain(200..200 + PREDECESSORS.len())
	{
		w.result.states += 1;
		w.result.transitions += 1;
		let text = with_bystander(&cell.text, context);
		let desc = || json!({"family": cell.family, "index": index, "context": context, "cell": cell.what, "text": text, "sig_hint": cell.family, "size": text.len()});
		let d = desc().to_string().into_bytes();
		let plain_text = cell.text.clone();
		let need_plain = plain.is_none();
		let t2 = text.clone();
		let outcome = w.run_case(&d, || (if need_plain { Some(verdict_of(&plain_text)) } else { None }, verdict_of(&t2)));
		match outcome
		{
			CaseOutcome::Done((p, with)) =>
			{
				if let Some(p) = p
				{
					plain = Some(p);
				}
				w.result.validated += 1;
				let alone = plain.as_ref().unwrap();
				if *alone != with
				{
					w.result.outcome("bystander:verdict changed:MISMATCH");
					w.result.violation(&format!("verdict-changed-by-unrelated-declaration:{}:{}", cell.family, context_name(context)), text.len() as u64, &desc, || {
						format!("cell `{}` alone: accepted={} codes {:?}; {}: accepted={} codes {:?}\n{}", cell.what, alone.0, alone.1, context_name(context), with.0, with.1, text)
					});
				}
				else
				{
					w.result.outcome("bystander:verdict unchanged");
				}
			}
			CaseOutcome::Panicked { site, message } =>
			{
				w.result.outcome("panicked");
				let sig = format!("panic@{}", crate::util::site_signature(&site, &message));
				w.result.violation(&sig, text.len() as u64, &desc, || format!("panic at {site}: {message}\n{text}"));
			}
			CaseOutcome::Crashed { .. } =>
			{}
		}
	}
}

fn judge(cell: &Cell, index: usize, context: usize, w: &mut WorkerCtx)
{
	w.result.states += 1;
	let desc = || json!({"family": cell.family, "index": index, "context": context, "cell": cell.what, "text": cell.text, "sig_hint": cell.family, "size": cell.text.len()});
	let d = desc().to_string().into_bytes();
	let size = cell.text.len() as u64;
	let text = cell.text.clone();
	let expect = cell.expect;
	let outcome = w.run_case(&d, || {
		// Analyse first without IR generation: an ill-typed cell that is accepted is reported as
		// such, instead of through the abort it would cause inside LLVM.
		let (v0, _) = alpha::alpha_pipeline_resolved(&[("m.pn".to_string(), text.clone())], alpha::ANALYZE_ONLY);
		if v0.accepted() && expect == Some(false)
		{
			return (v0, Vec::new());
		}
		let (v, resolved) = alpha::alpha_pipeline_resolved(&[("m.pn".to_string(), text.clone())], alpha::FULL);
		let problems = resolved.map(|r| crate::subjects::monitor::check_resolved(&r)).unwrap_or_default();
		(v, problems)
	});
	match outcome
	{
		CaseOutcome::Done((v, problems)) =>
		{
			w.result.validated += 1;
			let mut ok = true;
			for p in &problems
			{
				ok = false;
				w.result.violation(&format!("resolved-tree-invariant:{p}"), size, &desc, || format!("accepted program whose resolved tree violates: {p}\n{}", cell.text));
			}
			match (&v, cell.expect)
			{
				(Verdict::Ok { .. }, Some(false)) =>
				{
					ok = false;
					w.result.violation(&format!("ill-typed-accepted:{}:{}{}", cell.family, operand_class(&cell.what), if context > 0 { format!(":{}", context_name(context)) } else { String::new() }), size, &desc, || format!("ill-typed cell `{}` is accepted\n{}", cell.what, cell.text));
				}
				(Verdict::Rejected { diags, .. }, Some(true)) =>
				{
					ok = false;
					let codes: Vec<u16> = diags.iter().map(|d| d.code).collect();
					w.result.violation(&format!("well-typed-rejected:{}:E{}:{}{}", cell.family, codes.first().copied().unwrap_or(0), class_of(&cell.what), if context > 0 { format!(":{}", context_name(context)) } else { String::new() }), size, &desc, || {
						format!("well-typed cell `{}` is rejected with {codes:?}\n{}", cell.what, cell.text)
					});
				}
				(Verdict::Rejected { diags, .. }, Some(false)) =>
				{
					let codes: Vec<u16> = diags.iter().map(|d| d.code).collect();
					if !cell.codes.is_empty() && !codes.iter().any(|c| cell.codes.contains(c))
					{
						// The property asks for "the matching E5xx code": a rejection with codes
						// outside the cell's documented set.
						if codes.iter().all(|c| !(500..600).contains(c) && *c != 333 && *c != 406)
						{
							ok = false;
							w.result.violation(&format!("ill-typed-rejected-with-unrelated-code:{}:E{}", cell.family, codes.first().copied().unwrap_or(0)), size, &desc, || {
								format!("cell `{}` is rejected with {codes:?}, expected one of {:?}\n{}", cell.what, cell.codes, cell.text)
							});
						}
						else
						{
							w.result.soft(&format!("{}: rejected with E{} (documented set {:?})", cell.family, codes.first().copied().unwrap_or(0), cell.codes), || cell.what.clone());
						}
					}
				}
				(Verdict::InternalError(e), _) =>
				{
					ok = false;
					w.result.violation("internal-error", size, &desc, || format!("{e}\n{}", cell.text));
				}
				_ =>
				{}
			}
			let verdict = if v.accepted() { "accepted" } else { "rejected" };
			let expect = match cell.expect
			{
				Some(true) => "well-typed",
				Some(false) => "ill-typed",
				None => "unspecified",
			};
			w.result.outcome(&format!("{}:{expect}:{verdict}{}", cell.family, if ok { "" } else { ":MISMATCH" }));
			if ok && cell.expect == Some(false) && index % 50 == 0
			{
				w.result.sample(|| json!({"cell": cell.what, "family": cell.family, "codes": v.codes()}));
			}
		}
		CaseOutcome::Panicked { site, message } =>
		{
			w.result.outcome("panicked");
			let sig = format!("panic@{}", crate::util::site_signature(&site, &message));
			w.result.violation(&sig, size, &desc, || format!("panic at {site}: {message}\n{}", cell.text));
		}
		CaseOutcome::Crashed { .. } =>
		{}
	}
}

/// Whether the source operand of a cell is a primitive, a pointer or an aggregate.
fn operand_class(what: &str) -> &str
{
	// compound families: the kind of mismatch, in parentheses at the end of the description
	if what.ends_with(')')
	{
		if let Some(i) = what.rfind('(')
		{
			return &what[i + 1..what.len() - 1];
		}
	}
	let src = what.rsplit("<- ").next().unwrap_or(what);
	// the one pair of primitive types that share a representation
	if what == "char8 <- u8 variable" || what == "u8 <- char8 variable"
	{
		return "u8 and char8";
	}
	if src.contains("array") || src.contains("struct") || src.contains("word")
	{
		"aggregate operand"
	}
	else if src.contains("address of")
	{
		"pointer operand"
	}
	else
	{
		"primitive operand"
	}
}

/// Coarse class of a cell description for signatures: operator and operand kinds without the
/// concrete primitive names.
fn class_of(what: &str) -> String
{
	let mut s = what.to_string();
	for p in PRIMS
	{
		let class = if is_signed(p) { "signed" } else if is_fixed_unsigned(p) { "unsigned" } else { p };
		s = s.replace(&format!("{p} variable"), class);
	}
	s.replace(' ', "_")
}

fn monitor_corpus(path: &str, w: &mut WorkerCtx)
{
	let Ok(text) = std::fs::read_to_string(path)
	else
	{
		return;
	};
	w.result.states += 1;
	let desc = || json!({"corpus_file": path});
	let d = desc().to_string().into_bytes();
	let p = path.to_string();
	let outcome = w.run_case(&d, || {
		let (v, resolved) = alpha::alpha_pipeline_resolved(&[(p.clone(), text.clone())], alpha::ANALYZE_ONLY);
		(v.accepted(), resolved.map(|r| crate::subjects::monitor::check_resolved(&r)).unwrap_or_default())
	});
	match outcome
	{
		CaseOutcome::Done((accepted, problems)) =>
		{
			w.result.validated += 1;
			w.result.outcome(if accepted { "corpus:accepted (monitored)" } else { "corpus:rejected" });
			for pr in problems
			{
				w.result.violation(&format!("resolved-tree-invariant:{pr}"), 1000, &desc, || format!("{path}: {pr}"));
			}
		}
		CaseOutcome::Panicked { site, message } =>
		{
			// crashes of corpus files belong to C02; recorded softly here
			w.result.outcome("corpus:panicked");
			w.result.soft("corpus file panics (reported by C02)", || format!("{path}: {site}: {message}"));
		}
		CaseOutcome::Crashed { .. } =>
		{}
	}
}
