//! C13 — diagnostics are well-located, documented and deterministic.
//!
//! Inputs: the failing (and linting) programs of the exhaustive spaces built for the other
//! properties (type matrix, mutability matrix, label / variable / placement bodies, token
//! sequences, single-fault neighbourhoods, cyclic declaration graphs, the repository's corpus),
//! marker programs whose offending lexeme is known, and multi-file programs with the error in an
//! imported module. Every input is compiled in six layouts that keep the token sequence (LF,
//! CRLF, no final newline, multi-byte comment lines, spaces for tabs).
//!
//! Oracles: (1) every code is in docs/errors.md; (2) the location names an input file, lies
//! inside it, starts on the reported line and is aligned with the lexemes of the reference
//! lexer; (3) the text under the span is the same in every layout, and is the known offender in
//! the marker programs; (4) every report renders in colour x charset configurations, without ESC
//! when colour is off, in ASCII when asked for, naming the same line; (5) compiling twice in one
//! process, and once more in a fresh process, gives identical observations; with a hash-ordered
//! import set every splice order must give identical observations.

use crate::checks::{c04, c05, c06, c07, c08, c11};
use crate::driver::{Driver, fnv};
use crate::model::grammar::{self, Layout};
use crate::model::reflex::{self, RKind};
use crate::pool::{CaseOutcome, WorkerCtx};
use crate::spaces::body::BodySpace;
use crate::spaces::{ast, tok};
use crate::subjects::alpha::{self, Diag, Verdict};
use serde_json::{Value, json};
use std::collections::{BTreeMap, BTreeSet};

pub struct Input
{
	pub class: String,
	pub files: Vec<(String, String)>,
	/// (codes, text): a diagnostic with one of the codes must be reported and every diagnostic
	/// with one of the codes must cover this text; optionally in this file
	pub marker: Option<(Vec<u16>, String, Option<String>)>,
}

fn single(class: &str, text: String) -> Input
{
	Input { class: class.to_string(), files: vec![("m.pn".to_string(), text)], marker: None }
}

// ---------------------------------------------------------------------------------------------
// Layouts

pub const LAYOUTS: [&str; 7] = ["as written", "CRLF line ends", "no final newline", "multi-byte comment first", "multi-byte comment before every line", "spaces for tabs", "one lexeme per line"];
const COMMENT: &str = "// h\u{e9}llo \u{20ac} \u{1f600}";

/// Returns the new text and the mapping of line numbers, or None when the layout does not apply.
fn relayout(text: &str, layout: usize) -> Option<(String, Box<dyn Fn(usize) -> usize>)>
{
	match layout
	{
		0 => Some((text.to_string(), Box::new(|l| l))),
		1 =>
		{
			if text.contains('\r') || !text.contains('\n')
			{
				return None;
			}
			Some((text.replace('\n', "\r\n"), Box::new(|l| l)))
		}
		2 =>
		{
			let t = text.strip_suffix('\n')?;
			if t.is_empty() || t.ends_with('\n')
			{
				return None;
			}
			Some((t.to_string(), Box::new(|l| l)))
		}
		3 =>
		{
			if text.is_empty()
			{
				return None;
			}
			Some((format!("{COMMENT}\n{text}"), Box::new(|l| l + 1)))
		}
		4 =>
		{
			let mut out = String::new();
			for line in text.split_inclusive('\n')
			{
				out.push_str(COMMENT);
				out.push('\n');
				out.push_str(line);
			}
			if text.is_empty()
			{
				return None;
			}
			Some((out, Box::new(|l| 2 * l)))
		}
		6 =>
		{
			// every lexeme on its own line (comments are dropped); only for texts without
			// illegal lexemes, and the line numbers are not comparable with the original
			if text.is_empty()
			{
				return None;
			}
			let toks = reflex::lex(text.as_bytes());
			if toks.is_empty() || toks.iter().any(|t| matches!(t.kind, RKind::Err { .. }))
			{
				return None;
			}
			let mut out = String::new();
			for t in &toks
			{
				out.push_str(&text[t.start..t.end]);
				out.push('\n');
			}
			Some((out, Box::new(|_| 0)))
		}
		_ =>
		{
			if !text.contains('\t')
			{
				return None;
			}
			let mut out = String::new();
			for line in text.split_inclusive('\n')
			{
				let body = line.trim_start_matches('\t');
				for _ in 0..(line.len() - body.len())
				{
					out.push_str("    ");
				}
				out.push_str(body);
			}
			Some((out, Box::new(|l| l)))
		}
	}
}

fn normalise_span_text(t: &str) -> String
{
	// layouts change the white space between the lexemes of a span, never the lexemes
	t.replace(COMMENT, "").chars().filter(|c| !c.is_whitespace()).collect()
}

// ---------------------------------------------------------------------------------------------
// Marker programs

pub fn marker_inputs() -> Vec<Input>
{
	let mut out = Vec::new();
	// what stands on the same line before the offending statement
	let stmt_prefixes: [(&str, &str); 6] = [
		("nothing", ""),
		("underscored literals", "var pre: i32 = 1_000 + 0x_ff + 0b1_0; "),
		("multi-byte string", "print!(\"\u{e9}\u{20ac}\u{1f600}\", 'x', \"\\t\\\"q\\\"\"); "),
		("character literals", "var pre = 'a'; var pre2 = '\\x41'; "),
		("tabs between tokens", "var\tpre\t=\t1; \t"),
		("wide literals", "var pre: u128 = 0xffff_ffff_ffff_ffff_ffff; var pre3 = 1_0u8; "),
	];
	// (name, lines before, offending statement, codes, offending text)
	let stmts: [(&str, &str, &str, &[u16], &str); 21] = [
		("undefined variable as initialiser", "", "var x: i32 = missing;", &[402], "missing"),
		("undefined variable in an expression", "", "var x: i32 = 1 + missing * 2;", &[402], "missing"),
		("undefined variable assigned", "", "missing = 1;", &[402], "missing"),
		("undefined variable as argument", "", "var x: i32 = helper(missing);", &[402], "missing"),
		("undefined variable as index", "", "var x: i32 = arr[missing];", &[402], "missing"),
		("undefined function", "", "var x: i32 = nofunc(1);", &[401], "nofunc"),
		("undefined function as statement", "", "nofunc();", &[401], "nofunc"),
		("undefined label", "", "goto nowhere;", &[400], "nowhere"),
		("undefined type", "", "var x: Nothing = 1;", &[405], "Nothing"),
		("undefined member", "", "var x: i32 = s.nomember;", &[406], "nomember"),
		("mismatched initialiser", "\tvar flag: bool = true;\n", "var x: i32 = flag;", &[504], "flag"),
		("mismatched suffixed literal", "", "var x: i32 = 17u8;", &[504], "17u8"),
		("duplicate variable", "", "var dup: i32 = 1; var dup: i32 = 2;", &[422], "dup"),
		("unexpected character", "", "var x = 1 $ 2;", &[110], "$"),
		("too large literal", "", "var x = 99999999999999999999999999999999999999999;", &[140], "99999999999999999999999999999999999999999"),
		("bad literal suffix", "", "var x = 1i7;", &[141], "1i7"),
		("bad escape", "", "var x = \"abc\\qdef\";", &[162], "\\q"),
		("missing closing quote", "", "var x = \"abc;", &[160], "\"abc;"),
		("too many arguments", "", "var x: i32 = helper(1, 2);", &[511], "helper"),
		("assignment to constant", "", "KONST = 3;", &[530], "KONST"),
		("mismatched operands", "\tvar flag: bool = true;\n", "var x: i32 = 5i32 + flag;", &[551], "+"),
	];
	const STMT_HEAD: &str = "const KONST: i32 = 7;\nstruct S\n{\n\ta: i32,\n}\nfn helper(a: i32) -> i32\n{\n\treturn: a\n}\nfn main() -> i32\n{\n\tvar arr: [3]i32 = [1, 2, 3];\n\tvar s: S = S { a: 1 };\n";
	for (name, before, stmt, codes, text) in stmts
	{
		for (pname, prefix) in stmt_prefixes
		{
			for tail in ["\treturn: 0\n}\n", "\treturn: 0 }"]
			{
				let program = format!("{STMT_HEAD}{before}\t{prefix}{stmt}\n{tail}");
				out.push(Input {
					class: format!("marker:{name}"),
					files: vec![("m.pn".to_string(), program)],
					marker: Some((codes.to_vec(), text.to_string(), None)),
				});
				let _ = pname;
			}
		}
	}
	// chains of one binary operator with the mismatch at the second or the third operator: the
	// location of every operator of a chain is taken separately by the parser
	for op in ["+", "-", "*", "/", "%", "|", "&", "^"]
	{
		for (which, stmt) in [
			("second", format!("var x: u8 = a {op} b {op} wide;")),
			("third", format!("var x: u8 = a {op} b {op} a {op} wide;")),
			("second, on the next line", format!("var x: u8 = a {op} b\n\t\t{op} wide;")),
		]
		{
			for tail in ["\treturn: 0\n}\n", "\treturn: 0 }"]
			{
				let program = format!("{STMT_HEAD}\tvar a: u8 = 1;\n\tvar b: u8 = 2;\n\tvar wide: u16 = 3;\n\t{stmt}\n{tail}");
				out.push(Input {
					class: format!("marker:mismatched operand at the {which} operator of a chain"),
					files: vec![("m.pn".to_string(), program)],
					marker: Some((vec![551], op.to_string(), None)),
				});
			}
		}
	}
	// the nesting limit of address markers
	{
		let many = format!("{}a", "&".repeat(128));
		for prefix in ["", "var pre: i32 = 1_000 + 0x_ff; ", "print!(\"\u{e9}\u{20ac}\u{1f600}\"); "]
		{
			out.push(Input {
				class: "marker:too many address markers".to_string(),
				files: vec![("m.pn".to_string(), format!("fn main()\n{{\n\tvar a: i32 = 1;\n\t{prefix}var x = {many};\n}}\n"))],
				marker: Some((vec![390], many.clone(), None)),
			});
		}
	}
	// type terms in every position (C11's legality space): a diagnostic about the legality of a
	// type must cover the type
	for (what, texts, _) in c11::legality_cells()
	{
		let Some((t, _position)) = what.split_once(" as ")
		else
		{
			continue;
		};
		out.push(Input {
			class: "marker:type term in a position".to_string(),
			files: vec![("m.pn".to_string(), texts[0].clone())],
			marker: Some((vec![350, 351, 352, 353, 354, 355, 356, 357, 358, 359], t.to_string(), None)),
		});
	}
	// declaration level
	let decl_prefixes: [(&str, &str); 4] = [
		("nothing", ""),
		("underscored literals", "const PRE: i32 = 1_000 + 0x_ff; "),
		("multi-byte string", "const PRE: [9]char8 = \"\u{e9}\u{20ac}\u{1f600}\"; "),
		("tabs between tokens", "const\tPRE:\ti32\t=\t1; \t"),
	];
	let decls: [(&str, &str, &[u16], &str); 10] = [
		("undefined constant in a constant", "const C: i32 = missing;", &[402], "missing"),
		("undefined type in a signature", "fn f(x: Nothing)\n{\n}", &[405], "Nothing"),
		("undefined return type", "fn f() -> Nothing\n{\n\treturn: 1\n}", &[405], "Nothing"),
		("undefined member type", "struct T\n{\n\ta: Nothing,\n}", &[405], "Nothing"),
		("undefined array length", "struct T\n{\n\ta: [MISSING]i32,\n}", &[402, 433], "MISSING"),
		("duplicate function", "fn twice()\n{\n}\nfn twice()\n{\n}", &[421], "twice"),
		("duplicate constant", "const TWICE: i32 = 1; const TWICE: i32 = 2;", &[423], "TWICE"),
		("duplicate structure", "struct Twice\n{\n\ta: i32,\n}\nstruct Twice\n{\n\ta: i32,\n}", &[425], "Twice"),
		("duplicate member", "struct T\n{\n\ttwice: i32,\n\ttwice: i32,\n}", &[426], "twice"),
		("unresolved import", "import \"nonexistent.pn\";", &[470], "\"nonexistent.pn\""),
	];
	for (name, decl, codes, text) in decls
	{
		for (_, prefix) in decl_prefixes
		{
			for tail in ["fn main() -> i32\n{\n\treturn: 0\n}\n", "fn main() -> i32 { return: 0 }"]
			{
				let program = if name == "unresolved import" { format!("{decl} {prefix}\n{tail}") } else { format!("{prefix}{decl}\n{tail}") };
				out.push(Input {
					class: format!("marker:{name}"),
					files: vec![("m.pn".to_string(), program)],
					marker: Some((codes.to_vec(), text.to_string(), None)),
				});
			}
		}
	}
	out
}

/// Errors in imported modules: the diagnostic must name the file that holds the offender.
pub fn import_inputs() -> Vec<Input>
{
	let mut out = Vec::new();
	let lib_faults: [(&str, &str, &[u16], &str); 6] = [
		("undefined variable in a public function of the library", "pub fn lib_fn() -> i32\n{\n\tvar x: i32 = missing;\n\treturn: x\n}\n", &[402], "missing"),
		("undefined type in a public signature of the library", "pub fn lib_fn(x: Nothing) -> i32\n{\n\treturn: 1\n}\n", &[405], "Nothing"),
		("undefined type in a public structure of the library", "pub struct LibT\n{\n\ta: Nothing,\n}\npub fn lib_fn() -> i32\n{\n\treturn: 1\n}\n", &[405], "Nothing"),
		("undefined constant in a public constant of the library", "pub const LIBC: i32 = missing;\npub fn lib_fn() -> i32\n{\n\treturn: 1\n}\n", &[402], "missing"),
		("lexical error in the library", "pub fn lib_fn() -> i32\n{\n\tvar x: i32 = 1 $ 2;\n\treturn: x\n}\n", &[110], "$"),
		("mismatched type in a private function of the library", "fn private() -> i32\n{\n\tvar flag: bool = true;\n\tvar x: i32 = flag;\n\treturn: x\n}\npub fn lib_fn() -> i32\n{\n\treturn: private()\n}\n", &[504], "flag"),
	];
	for (name, lib, codes, text) in lib_faults
	{
		for comment in ["", "// \u{e9}\u{20ac}\u{1f600} comment that only the library has\n\n\n"]
		{
			for (main_name, lib_name, import) in [("main.pn", "lib.pn", "lib.pn"), ("src/main.pn", "src/lib.pn", "lib.pn"), ("main.pn", "vendor/deep/lib.pn", "vendor/deep/lib.pn")]
			{
				let main = format!("import \"{import}\";\n\nfn main() -> i32\n{{\n\treturn: lib_fn()\n}}\n");
				let main = if name.contains("signature") { main.replace("lib_fn()", "lib_fn(1)") } else { main };
				let lib_text = format!("{comment}{lib}");
				for order in 0..2
				{
					let mut files = vec![(main_name.to_string(), main.clone()), (lib_name.to_string(), lib_text.clone())];
					if order == 1
					{
						files.reverse();
					}
					out.push(Input { class: format!("imports:{name}"), files, marker: Some((codes.to_vec(), text.to_string(), Some(lib_name.to_string()))) });
				}
			}
		}
	}
	// the error is in the importer, the library is fine (and longer than the importer)
	for order in 0..2
	{
		let lib = format!("// \u{e9}\u{20ac}\u{1f600}\n{}pub fn lib_fn() -> i32\n{{\n\treturn: 1\n}}\n", "// filler\n".repeat(30));
		let main = "import \"lib.pn\";\n\nfn main() -> i32\n{\n\tvar x: i32 = missing;\n\treturn: lib_fn()\n}\n".to_string();
		let mut files = vec![("main.pn".to_string(), main), ("lib.pn".to_string(), lib)];
		if order == 1
		{
			files.reverse();
		}
		out.push(Input { class: "imports:undefined variable in the importer".to_string(), files, marker: Some((vec![402], "missing".to_string(), Some("main.pn".to_string()))) });
	}
	out
}

/// Multi-module programs for the schedule part of determinism (two and three imports into one
/// includer, a chain and a diamond), valid and failing.
pub fn schedule_inputs() -> Vec<Input>
{
	let mut out = Vec::new();
	let lib = |i: usize| format!("pub const K{i}: i32 = {i};\npub struct T{i}\n{{\n\ta: i32,\n}}\npub fn get{i}() -> i32\n{{\n\tprint!(\"lib{i}\\n\");\n\treturn: K{i}\n}}\n");
	for nlibs in 2..=3usize
	{
		for fault in [false, true]
		{
			let mut main = String::new();
			for i in 1..=nlibs
			{
				main.push_str(&format!("import \"lib{i}.pn\";\n"));
			}
			main.push_str("\nfn main() -> i32\n{\n\tvar total: i32 = 0;\n");
			for i in 1..=nlibs
			{
				main.push_str(&format!("\ttotal = total + get{i}() + K{i};\n"));
			}
			if fault
			{
				main.push_str("\ttotal = total + missing + nofunc();\n");
			}
			main.push_str("\treturn: total\n}\n");
			let mut files = vec![("main.pn".to_string(), main)];
			for i in 1..=nlibs
			{
				files.push((format!("lib{i}.pn"), lib(i)));
			}
			for order in crate::util::permutations(files.len())
			{
				let ordered: Vec<(String, String)> = order.iter().map(|i| files[*i].clone()).collect();
				out.push(Input { class: format!("schedule:{nlibs} imports into one module{}", if fault { ", failing" } else { "" }), files: ordered, marker: None });
			}
		}
	}
	// diamond
	let base = "pub fn base() -> i32\n{\n\treturn: 1\n}\n".to_string();
	let left = "import \"base.pn\";\n\npub fn left() -> i32\n{\n\treturn: base() + 1\n}\n".to_string();
	let right = "import \"base.pn\";\n\npub fn right() -> i32\n{\n\treturn: base() + 2\n}\n".to_string();
	let top = "import \"left.pn\";\nimport \"right.pn\";\n\nfn main() -> i32\n{\n\treturn: left() + right()\n}\n".to_string();
	let files = vec![("top.pn".to_string(), top), ("left.pn".to_string(), left), ("right.pn".to_string(), right), ("base.pn".to_string(), base)];
	for order in crate::util::permutations(files.len())
	{
		let ordered: Vec<(String, String)> = order.iter().map(|i| files[*i].clone()).collect();
		out.push(Input { class: "schedule:diamond".to_string(), files: ordered, marker: None });
	}
	out
}

// ---------------------------------------------------------------------------------------------
// Drive

pub fn drive(d: &mut Driver)
{
	let quick = d.quick();
	let catalogue = catalogue();
	d.bound("catalogue (docs/errors.md)", json!({"codes": catalogue.len()}));
	d.bound("layouts", json!(LAYOUTS));
	d.bound("render configurations", json!(["colour off, unicode", "colour off, ascii", "colour on, unicode", "colour on, ascii"]));
	let mut jobs: Vec<Value> = Vec::new();
	// type matrix and mutability matrix
	for f in c07::FAMILIES
	{
		let n = c07::cells(f).len();
		for lo in (0..n).step_by(60)
		{
			jobs.push(json!({"space": "matrix", "family": f, "lo": lo, "hi": (lo + 60).min(n)}));
		}
	}
	let n8 = c08::cells().len();
	for lo in (0..n8).step_by(60)
	{
		jobs.push(json!({"space": "matrix8", "lo": lo, "hi": (lo + 60).min(n8)}));
	}
	// bodies
	let (n4, n5, n6) = if quick { (4usize, 3usize, 4usize) } else { (5, 4, 5) };
	d.bound("label bodies (C04 space): statements", json!(n4));
	d.bound("variable bodies (C05 space): statements", json!(n5));
	d.bound("placement trees (C06 space): statements", json!(n6));
	let space4 = BodySpace::new(c04::ATOMS);
	for n in 0..=n4
	{
		for first in space4.first_choices(n, 3)
		{
			jobs.push(json!({"space": "bodies04", "n": n, "first": first}));
		}
	}
	let space5 = BodySpace::new(c05::ATOMS);
	for n in 0..=n5
	{
		for first in space5.first_choices(n, 2)
		{
			jobs.push(json!({"space": "bodies05", "n": n, "first": first}));
		}
	}
	for n in 0..=n6
	{
		if n == 0
		{
			jobs.push(json!({"space": "trees06", "n": 0, "k": 0}));
		}
		for k in 1..=n
		{
			jobs.push(json!({"space": "trees06", "n": n, "k": k}));
		}
	}
	// token sequences
	let tlen = if quick { 2 } else { 3 };
	d.bound("token sequences (63 token kinds): length, as a file and as a function body", json!(tlen));
	for wrap in [false, true]
	{
		jobs.push(json!({"space": "tokens", "len": 1, "first": Value::Null, "wrap": wrap}));
		for a in 0..tok::TOKS.len()
		{
			for len in 2..=tlen
			{
				jobs.push(json!({"space": "tokens", "len": len, "first": a, "wrap": wrap}));
			}
		}
	}
	// single faults
	let fams = ast::families(true);
	let stride = if quick { 29 } else { 5 };
	d.bound("single-fault neighbourhoods: every k-th module of each grammar family", json!(stride));
	for (fi, (_, mods)) in fams.iter().enumerate()
	{
		let mut i = fi % stride;
		while i < mods.len()
		{
			jobs.push(json!({"space": "faults", "family": fi, "index": i}));
			i += stride;
		}
	}
	// cyclic graphs
	for n in 1..=3usize
	{
		for mask in 0..(1usize << n)
		{
			jobs.push(json!({"space": "graphs", "n": n, "mask": mask}));
		}
	}
	// corpus
	let files: Vec<String> = crate::util::corpus_files();
	d.bound("corpus files", json!(files.len()));
	for c in files.chunks(6)
	{
		jobs.push(json!({"space": "corpus", "files": c}));
	}
	let nm = marker_inputs().len();
	d.bound("marker programs (offender known)", json!(nm));
	for lo in (0..nm).step_by(24)
	{
		jobs.push(json!({"space": "markers", "lo": lo, "hi": (lo + 24).min(nm)}));
	}
	let ni = import_inputs().len();
	d.bound("multi-file programs with the error in a known file", json!(ni));
	for lo in (0..ni).step_by(8)
	{
		jobs.push(json!({"space": "imports", "lo": lo, "hi": (lo + 8).min(ni)}));
	}
	let ns = schedule_inputs().len();
	d.bound("multi-module programs x file orders for the schedule part of determinism", json!(ns));
	for lo in (0..ns).step_by(8)
	{
		jobs.push(json!({"space": "schedule", "lo": lo, "hi": (lo + 8).min(ns)}));
	}
	for (i, j) in jobs.iter_mut().enumerate()
	{
		j["job"] = json!(i);
	}
	let first = d.phase("diagnostics of every input in every layout: catalogue, location, rendering, in-process determinism", jobs.clone());
	// the same jobs again, in fresh worker processes: the digests must agree
	let saved_total = d.total.clone();
	let second = d.phase("the same inputs again in fresh processes (digest comparison)", jobs.clone());
	// do not count the second run's states twice in the totals, but keep its violations
	let mut total = saved_total;
	for (sig, v) in second.violations.iter()
	{
		if !total.violations.contains_key(sig)
		{
			total.violations.insert(sig.clone(), v.clone());
		}
	}
	total.counters = first.counters.clone();
	d.total = total;
	let digests = |r: &crate::pool::JobResult| -> BTreeMap<String, String> {
		r.counters.keys().filter_map(|k| k.strip_prefix("digest:")).filter_map(|k| k.split_once(':')).map(|(j, h)| (j.to_string(), h.to_string())).collect()
	};
	let (d1, d2) = (digests(&first), digests(&second));
	let mut compared = 0u64;
	for (job, h1) in &d1
	{
		if let Some(h2) = d2.get(job)
		{
			compared += 1;
			if h1 != h2
			{
				let spec = jobs[job.parse::<usize>().unwrap()].clone();
				d.total.violation("observations-differ-between-processes", 1, || json!({"digest_job": spec, "digest": h1}), || format!("job {spec} produced observation digest {h1} in one process and {h2} in another (verdicts, diagnostics with locations, IR text and rendered reports are hashed)"));
			}
		}
	}
	// crashes of the compiler are the subject of C02; here they only reduce what was observed
	let crashed: Vec<String> = d.total.violations.keys().filter(|k| k.starts_with("crash:")).cloned().collect();
	for k in &crashed
	{
		d.total.violations.remove(k);
		d.total.violation_counts.remove(k);
	}
	d.total.counters.insert("inputs on which the compiler crashed (subject of C02, not judged here)".to_string(), crashed.len() as u64);
	d.total.counters.retain(|k, _| !k.starts_with("digest:"));
	d.total.counters.insert("jobs whose digests were compared across processes".to_string(), compared);
	d.assume("the six layouts keep the token sequence; diagnostics are compared across them on (code, text under the span with white space collapsed, line)");
	d.assume("token alignment is judged with the reference lexer (model/reflex.rs): a span starts where a lexeme starts and ends where a lexeme ends, or is empty; lexical errors lie inside the erroneous lexeme");
	d.assume("trusted: ariadne 0.6 as the renderer (configured like src/alpha/stdout.rs with character indices); the list of codes is read from docs/errors.md at run time");
}

pub fn catalogue() -> BTreeSet<u16>
{
	let text = std::fs::read_to_string("/repo/docs/errors.md").expect("cannot read /repo/docs/errors.md");
	let mut set = BTreeSet::new();
	for line in text.lines()
	{
		if let Some(rest) = line.strip_prefix("## ")
		{
			if let Some(word) = rest.split_whitespace().last()
			{
				let digits = word.trim_start_matches(|c: char| c == 'E' || c == 'L');
				if let Ok(code) = digits.parse::<u16>()
				{
					set.insert(code);
				}
			}
		}
	}
	set
}

// ---------------------------------------------------------------------------------------------
// Work

pub fn work(spec: &Value, w: &mut WorkerCtx)
{
	let cat = catalogue();
	if let Some(case) = spec.get("replay")
	{
		if let Some(job) = case.get("digest_job")
		{
			let mut hasher = Digest::default();
			run_job(job, &cat, w, &mut hasher);
			let now = format!("{:016x}", hasher.value);
			if Some(now.as_str()) != case["digest"].as_str()
			{
				w.result.violation("observations-differ-between-processes", 1, || case.clone(), || format!("digest now {now}, recorded {}", case["digest"]));
			}
			return;
		}
		let files: Vec<(String, String)> = case["files"].as_array().unwrap().iter().map(|f| (f[0].as_str().unwrap().to_string(), f[1].as_str().unwrap().to_string())).collect();
		let marker = case.get("marker").filter(|m| !m.is_null()).map(|m| {
			(m[0].as_array().unwrap().iter().map(|c| c.as_u64().unwrap() as u16).collect::<Vec<u16>>(), m[1].as_str().unwrap().to_string(), m[2].as_str().map(|s| s.to_string()))
		});
		let input = Input { class: case["class"].as_str().unwrap_or("replay").to_string(), files, marker };
		let mut hasher = Digest::default();
		judge_input(&input, &cat, w, &mut hasher);
		return;
	}
	let mut hasher = Digest::default();
	run_job(spec, &cat, w, &mut hasher);
	if let Some(job) = spec.get("job").and_then(|j| j.as_u64())
	{
		w.result.count(&format!("digest:{job}:{:016x}", hasher.value), 1);
	}
}

#[derive(Default)]
struct Digest
{
	value: u64,
}

impl Digest
{
	fn add(&mut self, bytes: &[u8])
	{
		let mut all = self.value.to_le_bytes().to_vec();
		all.extend_from_slice(&fnv(bytes).to_le_bytes());
		self.value = fnv(&all);
	}
}

fn run_job(spec: &Value, cat: &BTreeSet<u16>, w: &mut WorkerCtx, hasher: &mut Digest)
{
	let mut each = |input: Input, w: &mut WorkerCtx| {
		w.result.transitions += 1;
		judge_input(&input, cat, w, hasher);
	};
	match spec["space"].as_str().unwrap()
	{
		"matrix" =>
		{
			let cells = c07::cells(spec["family"].as_str().unwrap());
			for i in spec["lo"].as_u64().unwrap() as usize..spec["hi"].as_u64().unwrap() as usize
			{
				let mut input = single("type matrix", cells[i].text.clone());
				// an ill-typed cell with a single offending operand is a marker program: a diagnostic
				// with one of the cell's documented codes must cover that operand
				if let (Some(false), Some(offender)) = (cells[i].expect, &cells[i].offender)
				{
					if !cells[i].codes.is_empty() && cells[i].text.matches(offender.as_str()).count() >= 1
					{
						input.class = format!("marker:type matrix:{}", cells[i].family);
						input.marker = Some((cells[i].codes.clone(), offender.clone(), None));
					}
				}
				each(input, w);
			}
		}
		"matrix8" =>
		{
			let cells = c08::cells();
			for i in spec["lo"].as_u64().unwrap() as usize..spec["hi"].as_u64().unwrap() as usize
			{
				each(single("mutability matrix", cells[i].text.clone()), w);
			}
		}
		"bodies04" =>
		{
			let mut space = BodySpace::new(c04::ATOMS);
			let n = spec["n"].as_u64().unwrap() as usize;
			let first = spec["first"].as_str().unwrap().to_string();
			let mut texts = Vec::new();
			space.for_each(n, 3, &first, &mut |forest| {
				for variant in 0..3
				{
					texts.push(c04::render(variant, forest).0);
				}
			});
			for t in texts
			{
				each(single("label bodies", t), w);
			}
		}
		"bodies05" =>
		{
			let mut space = BodySpace::new(c05::ATOMS);
			let n = spec["n"].as_u64().unwrap() as usize;
			let first = spec["first"].as_str().unwrap().to_string();
			let mut texts = Vec::new();
			space.for_each(n, 2, &first, &mut |forest| {
				for variant in 0..3
				{
					texts.push(c05::render(variant, forest).0);
				}
			});
			for t in texts
			{
				each(single("variable bodies", t), w);
			}
		}
		"trees06" =>
		{
			let mut g = c06::Gen::new();
			let mut texts = Vec::new();
			g.for_each(spec["n"].as_u64().unwrap() as usize, 4, spec["k"].as_u64().unwrap() as usize, 0, 1, &mut |forest| {
				texts.push(c06::render(forest).0);
			});
			for t in texts
			{
				each(single("placement trees", t), w);
			}
		}
		"tokens" =>
		{
			let len = spec["len"].as_u64().unwrap() as usize;
			let wrap = spec["wrap"].as_bool().unwrap();
			let n = tok::TOKS.len();
			let firsts: Vec<usize> = match spec["first"].as_u64()
			{
				Some(a) => vec![a as usize],
				None => (0..n).collect(),
			};
			for a in firsts
			{
				let mut seq = vec![a as u8];
				let rest = len - 1;
				let total = n.pow(rest as u32);
				for code in 0..total
				{
					seq.truncate(1);
					let mut c = code;
					for _ in 0..rest
					{
						seq.push((c % n) as u8);
						c /= n;
					}
					let body = tok::render(&seq);
					let text = if wrap { format!("fn main()\n{{\n\t{body}\n}}\n") } else { format!("{body}\n") };
					each(single(if wrap { "token sequence in a body" } else { "token sequence" }, text), w);
				}
			}
		}
		"faults" =>
		{
			let fams = ast::families(true);
			let (_, mods) = &fams[spec["family"].as_u64().unwrap() as usize];
			let tokens = grammar::module_tokens(&mods[spec["index"].as_u64().unwrap() as usize]);
			let n = tokens.len();
			let render = |t: &[&str]| {
				let owned: Vec<String> = t.iter().map(|s| s.to_string()).collect();
				grammar::render_tokens(&owned, Layout::Canonical)
			};
			for i in 0..n
			{
				let base: Vec<&str> = tokens.iter().map(|s| s.as_str()).collect();
				let mut t = base.clone();
				t.remove(i);
				each(single("single fault: deletion", render(&t)), w);
				let mut t = base.clone();
				t.insert(i, base[i]);
				each(single("single fault: duplication", render(&t)), w);
				if i + 1 < n
				{
					let mut t = base.clone();
					t.swap(i, i + 1);
					each(single("single fault: swap", render(&t)), w);
				}
				for r in ["(", "}", ";", "=", "+", "x", "1_0", "i32", "fn", "\"s\"", "@"]
				{
					if base[i] == r
					{
						continue;
					}
					let mut t = base.clone();
					t[i] = r;
					each(single("single fault: replacement", render(&t)), w);
				}
			}
		}
		"graphs" =>
		{
			let n = spec["n"].as_u64().unwrap() as usize;
			let kinds = c11::kinds_of(n, spec["mask"].as_u64().unwrap() as usize);
			let count = c11::graph_count(n, false, &kinds);
			let orders = [(0..=n).collect::<Vec<usize>>(), (0..=n).rev().collect::<Vec<usize>>()];
			for code in 0..count
			{
				let edges = c11::decode_graph(n, code, false, &kinds);
				if c11::cycle_codes(&kinds, &edges).is_empty()
				{
					continue;
				}
				for order in &orders
				{
					each(single("cyclic declarations", c11::graph_program(&kinds, &edges, order)), w);
				}
			}
		}
		"corpus" =>
		{
			for f in spec["files"].as_array().unwrap()
			{
				let path = f.as_str().unwrap();
				let Ok(text) = std::fs::read_to_string(path)
				else
				{
					continue;
				};
				let name = path.strip_prefix("/repo/").unwrap_or(path).to_string();
				each(Input { class: "corpus".to_string(), files: vec![(name, text)], marker: None }, w);
			}
		}
		"markers" =>
		{
			let all = marker_inputs();
			for i in spec["lo"].as_u64().unwrap() as usize..spec["hi"].as_u64().unwrap() as usize
			{
				each(Input { class: all[i].class.clone(), files: all[i].files.clone(), marker: all[i].marker.clone() }, w);
			}
		}
		"imports" =>
		{
			let all = import_inputs();
			for i in spec["lo"].as_u64().unwrap() as usize..spec["hi"].as_u64().unwrap() as usize
			{
				each(Input { class: all[i].class.clone(), files: all[i].files.clone(), marker: all[i].marker.clone() }, w);
			}
		}
		"schedule" =>
		{
			let all = schedule_inputs();
			for i in spec["lo"].as_u64().unwrap() as usize..spec["hi"].as_u64().unwrap() as usize
			{
				each(Input { class: all[i].class.clone(), files: all[i].files.clone(), marker: None }, w);
			}
		}
		other => panic!("unknown space {other}"),
	}
}

/// Everything observed about one compilation.
#[derive(Debug, Clone, PartialEq)]
struct Observation
{
	kind: String,
	diags: Vec<Diag>,
	lints: Vec<Diag>,
	irs: Vec<String>,
	linked: Option<String>,
	/// rendered reports: per diagnostic (errors then lints), per configuration; Err = failure text
	rendered: Vec<Vec<Result<String, String>>>,
}

fn observe(files: &[(String, String)], perm: Option<usize>, render: bool) -> Observation
{
	penne::verif::set_import_permutation(perm);
	let (v, raw) = alpha::alpha_pipeline_raw(files, alpha::FULL);
	penne::verif::set_import_permutation(None);
	let raw_lints = alpha::take_last_lints();
	let (kind, diags, lints, irs, linked) = match v
	{
		Verdict::Ok { irs, linked, lints } => ("accepted".to_string(), Vec::new(), lints, irs, linked),
		Verdict::Rejected { stage, diags } => (format!("rejected:{stage}"), diags, Vec::new(), Vec::new(), None),
		Verdict::InternalError(e) => (format!("internal error: {e}"), Vec::new(), Vec::new(), Vec::new(), None),
	};
	let mut rendered = Vec::new();
	if render
	{
		// an empty source is shown as a single space (src/main.rs)
		let sources: Vec<(String, String)> = files.iter().map(|(n, t)| (n.clone(), if t.is_empty() { " ".to_string() } else { t.clone() })).collect();
		for e in raw.iter().chain(raw_lints.iter())
		{
			let mut per_config = Vec::new();
			for (colour, charset) in [(false, ariadne::CharSet::Unicode), (false, ariadne::CharSet::Ascii), (true, ariadne::CharSet::Unicode), (true, ariadne::CharSet::Ascii)]
			{
				let config = ariadne::Config::default().with_index_type(ariadne::IndexType::Char).with_color(colour).with_char_set(charset);
				let config = penne::alpha::error::Config::from(config).with_color(colour);
				let r = std::panic::catch_unwind(std::panic::AssertUnwindSafe(|| {
					let report = e.build_report(config);
					let mut buf: Vec<u8> = Vec::new();
					report.write(ariadne::sources(sources.clone()), &mut buf).map(|_| buf)
				}));
				per_config.push(match r
				{
					Ok(Ok(buf)) => String::from_utf8(buf).map_err(|_| "the report is not valid UTF-8".to_string()),
					Ok(Err(e)) => Err(format!("write failed: {e}")),
					Err(_) =>
					{
						let (site, message) = crate::pool::take_last_panic();
						Err(format!("panic at {site}: {message}"))
					}
				});
			}
			rendered.push(per_config);
		}
	}
	Observation { kind, diags, lints, irs, linked, rendered }
}

/// Character offsets of lexeme starts and ends, and the erroneous lexemes, per the reference lexer.
struct Lexemes
{
	starts: BTreeSet<usize>,
	ends: BTreeSet<usize>,
	errors: Vec<(usize, usize)>,
	nchars: usize,
	/// character offset of the start of each line (index 0 = line 1)
	line_starts: Vec<usize>,
}

fn lexemes(text: &str) -> Lexemes
{
	let mut char_of_byte = vec![0usize; text.len() + 1];
	let mut n = 0;
	for (b, c) in text.char_indices()
	{
		for k in 0..c.len_utf8()
		{
			char_of_byte[b + k] = n;
		}
		n += 1;
	}
	char_of_byte[text.len()] = n;
	let mut l = Lexemes { starts: BTreeSet::new(), ends: BTreeSet::new(), errors: Vec::new(), nchars: n, line_starts: vec![0] };
	for (i, c) in text.chars().enumerate()
	{
		if c == '\n'
		{
			l.line_starts.push(i + 1);
		}
	}
	if !text.is_empty()
	{
		for t in reflex::lex(text.as_bytes())
		{
			let (s, e) = (char_of_byte[t.start.min(text.len())], char_of_byte[t.end.min(text.len())]);
			l.starts.insert(s);
			l.ends.insert(e);
			if matches!(t.kind, RKind::Err { .. })
			{
				l.errors.push((s, e));
			}
		}
	}
	l
}

fn span_text(text: &str, d: &Diag) -> String
{
	text.chars().skip(d.span_start).take(d.span_end.saturating_sub(d.span_start)).collect()
}

fn judge_input(input: &Input, cat: &BTreeSet<u16>, w: &mut WorkerCtx, hasher: &mut Digest)
{
	let mut base: Option<Vec<(u16, String, String, usize)>> = None;
	for layout in 0..LAYOUTS.len()
	{
		// the layout is applied to every file
		let mut files = Vec::new();
		let mut maps: Vec<Box<dyn Fn(usize) -> usize>> = Vec::new();
		let mut applies = true;
		for (name, text) in &input.files
		{
			match relayout(text, layout)
			{
				Some((t, m)) =>
				{
					files.push((name.clone(), t));
					maps.push(m);
				}
				None =>
				{
					applies = false;
					break;
				}
			}
		}
		if !applies
		{
			continue;
		}
		w.result.states += 1;
		let marker_json = input.marker.as_ref().map(|(c, t, f)| json!([c, t, f]));
		let desc = || json!({"files": files, "class": input.class, "layout": LAYOUTS[layout], "marker": marker_json, "sig_hint": input.class.split(':').next().unwrap_or("")});
		let dbytes = desc().to_string().into_bytes();
		let size: u64 = files.iter().map(|f| f.1.len() as u64).sum::<u64>() + layout as u64;
		let fs = files.clone();
		let outcome = w.run_case(&dbytes, || {
			let first = observe(&fs, None, true);
			// compile again in the same process
			let again = if layout == 0 { Some(observe(&fs, None, true)) } else { None };
			// every schedule a hash-ordered import set could produce
			let mut schedules: Vec<(usize, Observation)> = Vec::new();
			if layout == 0 && fs.len() > 1 && penne::verif::last_import_order_is_hashed()
			{
				let k = penne::verif::last_import_count();
				let total: usize = (1..=k.min(6)).product();
				for perm in 0..total
				{
					schedules.push((perm, observe(&fs, Some(perm), false)));
				}
			}
			(first, again, schedules)
		});
		penne::verif::set_import_permutation(None);
		let show = || files.iter().map(|(n, t)| format!("--- {n}\n{t}")).collect::<String>();
		let (obs, again, schedules) = match outcome
		{
			CaseOutcome::Done(x) => x,
			CaseOutcome::Panicked { site, message } =>
			{
				// crashes of the compiler itself are C02's subject; here they are counted only
				w.result.outcome("compiler panic (subject of C02)");
				let _ = (site, message);
				continue;
			}
			CaseOutcome::Crashed { .. } => continue,
		};
		w.result.validated += 1;
		hasher.add(format!("{:?}", obs).as_bytes());
		let class = input.class.split(':').next().unwrap_or("").to_string();
		w.result.outcome(&format!("{class}:{}", obs.kind.split(':').next().unwrap_or("")));
		// (5) determinism within the process
		if let Some(again) = again
		{
			if again != obs
			{
				let what = if again.kind != obs.kind { "verdict" } else if again.diags != obs.diags || again.lints != obs.lints { "diagnostics" } else if again.irs != obs.irs || again.linked != obs.linked { "ir" } else { "rendering" };
				w.result.violation(&format!("second-compilation-differs:{what}"), size, &desc, || format!("compiling the same input twice in one process gives different {what}\n{}", show()));
			}
		}
		for (perm, s) in &schedules
		{
			let same = s.kind == obs.kind && s.diags == obs.diags && s.lints == obs.lints && s.irs == obs.irs && s.linked == obs.linked;
			if !same
			{
				let what = if s.kind != obs.kind { "verdict" } else if s.diags != obs.diags || s.lints != obs.lints { "diagnostics" } else { "ir" };
				w.result.violation(&format!("result-depends-on-hash-order-of-imports:{what}"), size, &desc, || {
					format!("the import pairs are kept in a hash collection, so every splice order can happen; order {perm} gives different {what} than the order of this run\n{}", show())
				});
				break;
			}
		}
		if !schedules.is_empty()
		{
			w.result.count("splice schedules compared", schedules.len() as u64);
		}
		if obs.kind.starts_with("internal error")
		{
			w.result.outcome("internal error (subject of C02)");
			continue;
		}
		// per-diagnostic checks
		let all: Vec<&Diag> = obs.diags.iter().chain(obs.lints.iter()).collect();
		let lex: BTreeMap<&str, Lexemes> = files.iter().map(|(n, t)| (n.as_str(), lexemes(t))).collect();
		let mut summary: Vec<(u16, String, String, usize)> = Vec::new();
		for (i, d) in all.iter().enumerate()
		{
			let letter = if d.code >= 1000 { 'L' } else { 'E' };
			w.result.count(&format!("diagnostics {letter}{}", d.code), 1);
			// (1) catalogue
			if !cat.contains(&d.code)
			{
				w.result.violation(&format!("code-not-in-catalogue:{letter}{}", d.code), size, &desc, || format!("{letter}{} is reported but docs/errors.md has no section for it\n{}", d.code, show()));
			}
			// (2) location
			let Some((_, text)) = files.iter().find(|f| f.0 == d.file)
			else
			{
				w.result.violation(&format!("location-names-unknown-file:{letter}{}", d.code), size, &desc, || format!("{letter}{} names file {:?}, the inputs are {:?}\n{}", d.code, d.file, files.iter().map(|f| &f.0).collect::<Vec<_>>(), show()));
				continue;
			};
			let lx = &lex[d.file.as_str()];
			if d.span_start > d.span_end || d.span_end > lx.nchars.max(1)
			{
				w.result.violation(&format!("span-outside-file:{letter}{}", d.code), size, &desc, || format!("{letter}{} has span {}..{} in a file of {} characters\n{}", d.code, d.span_start, d.span_end, lx.nchars, show()));
				continue;
			}
			let line_of_start = lx.line_starts.iter().rposition(|s| *s <= d.span_start).unwrap() + 1;
			// a position just after the final newline counts as the last line or the one after
			let at_eof = d.span_start >= lx.nchars;
			if d.line != line_of_start && !(at_eof && (d.line + 1 == line_of_start || d.line == line_of_start + 1))
			{
				w.result.violation(&format!("span-not-on-reported-line:{letter}{}", d.code), size, &desc, || {
					format!("{letter}{} reports line {} but its span {}..{} starts on line {}\n{}", d.code, d.line, d.span_start, d.span_end, line_of_start, show())
				});
			}
			let text_under = span_text(text, d);
			// (2b) alignment with lexemes
			let lexical = (100..200).contains(&d.code);
			let inside_error = lx.errors.iter().any(|(s, e)| *s <= d.span_start && d.span_end <= *e);
			let start_ok = lx.starts.contains(&d.span_start) || d.span_start >= lx.nchars || (d.span_start == d.span_end && lx.ends.contains(&d.span_start));
			let end_ok = lx.ends.contains(&d.span_end) || d.span_start == d.span_end;
			if !((start_ok && end_ok) || (lexical && inside_error))
			{
				w.result.violation(&format!("span-not-aligned-with-lexemes:{letter}{}:{}", d.code, if !start_ok { "start" } else { "end" }), size, &desc, || {
					format!("{letter}{} has span {}..{} covering {:?}, which does not start and end at lexeme boundaries ({})\n{}", d.code, d.span_start, d.span_end, text_under, LAYOUTS[layout], show())
				});
			}
			summary.push((d.code, d.file.clone(), normalise_span_text(&text_under), d.line));
			// (3) marker
			if let Some((codes, want, file)) = &input.marker
			{
				if codes.contains(&d.code)
				{
					// "covers": the span must contain the offender (alignment with lexemes and
					// stability across layouts are judged separately)
					// for the legality of a type the compiler may also point at the name of the thing
					// that is declared with it (it does so for variables, constants, parameters and
					// members)
					let names_the_declared_item = input.class == "marker:type term in a position" && ["v", "K", "p", "m", "f", "T"].contains(&text_under.as_str());
					// ... or at the declared name inside the term that makes it invalid (an opaque
					// structure as element, a named length): the offender is then that name
					let names_the_culprit_inside = input.class == "marker:type term in a position" && ["S", "W", "O", "N"].contains(&text_under.as_str()) && want.contains(text_under.as_str());
					if !normalise_span_text(&text_under).contains(normalise_span_text(want).as_str()) && !names_the_declared_item && !names_the_culprit_inside
					{
						w.result.violation(&format!("span-does-not-cover-offender:{letter}{}", d.code), size, &desc, || {
							format!("{}: {letter}{} covers {:?} ({}:{}, span {}..{}), the offending text is {:?} ({})\n{}", input.class, d.code, text_under, d.file, d.line, d.span_start, d.span_end, want, LAYOUTS[layout], show())
						});
					}
					if let Some(f) = file
					{
						if &d.file != f
						{
							w.result.violation(&format!("diagnostic-names-wrong-file:{letter}{}", d.code), size, &desc, || format!("{}: {letter}{} names {:?}, the offender is in {:?}\n{}", input.class, d.code, d.file, f, show()));
						}
					}
				}
			}
			// (4) rendering
			if let Some(per_config) = obs.rendered.get(i)
			{
				let ascii_source = files.iter().all(|f| f.1.is_ascii());
				for (ci, r) in per_config.iter().enumerate()
				{
					let (colour, ascii) = (ci >= 2, ci % 2 == 1);
					let config_name = format!("colour {}, {}", if colour { "on" } else { "off" }, if ascii { "ascii" } else { "unicode" });
					match r
					{
						Err(e) =>
						{
							let short: String = crate::pool::normalise_message(e).chars().take(60).collect();
							w.result.violation(&format!("report-cannot-be-rendered:{letter}{}:{short}", d.code), size, &desc, || format!("{letter}{} ({config_name}): {e}\n{}", d.code, show()));
							break;
						}
						Ok(out) =>
						{
							if !colour && out.contains('\u{1b}')
							{
								w.result.violation(&format!("escape-sequence-without-colour:{letter}{}", d.code), size, &desc, || format!("{letter}{} rendered with {config_name} contains an ESC byte:\n{out:?}\n{}", d.code, show()));
								break;
							}
							if colour && !out.contains('\u{1b}')
							{
								w.result.soft(&format!("report without any colour although colour is on: {letter}{}", d.code), || out.clone());
							}
							if ascii && !colour && ascii_source && !out.is_ascii()
							{
								let bad: String = out.chars().filter(|c| !c.is_ascii()).take(8).collect();
								w.result.violation(&format!("non-ascii-report-in-ascii-mode:{letter}{}", d.code), size, &desc, || format!("{letter}{} rendered with {config_name} contains {bad:?}:\n{out}\n{}", d.code, show()));
								break;
							}
							if !out.contains(&format!("[{letter}{}]", d.code))
							{
								w.result.violation(&format!("report-without-code:{letter}{}", d.code), size, &desc, || format!("{letter}{} rendered with {config_name}:\n{out}", d.code));
								break;
							}
							if !colour
							{
								// the renderer derives the line from the span: it must name the reported line
								let needle = format!("{}:{}:", d.file, d.line);
								if !out.contains(&needle) && !at_eof
								{
									w.result.violation(&format!("report-names-another-line:{letter}{}", d.code), size, &desc, || format!("{letter}{} reports {}:{} but the rendered report ({config_name}) does not name that line:\n{out}\n{}", d.code, d.file, d.line, show()));
									break;
								}
							}
						}
					}
				}
			}
		}
		if let Some((codes, want, _)) = &input.marker
		{
			// (whether an ill-typed cell of the type matrix is rejected, and with which code, is judged by C07)
			if input.class != "marker:type term in a position" && !input.class.starts_with("marker:type matrix") && !all.iter().any(|d| codes.contains(&d.code))
			{
				let got: Vec<u16> = all.iter().map(|d| d.code).collect();
				w.result.violation(&format!("expected-diagnostic-missing:{}", input.class), size, &desc, || format!("{}: expected one of {codes:?} covering {want:?}, reported {got:?} ({})\n{}", input.class, LAYOUTS[layout], show()));
			}
		}
		// (3) the same offending text in every layout
		let mapped: Vec<(u16, String, String, usize)> = summary;
		match &base
		{
			None =>
			{
				if layout == 0
				{
					base = Some(mapped);
				}
			}
			Some(b) =>
			{
				let expect: Vec<(u16, String, String, usize)> = b.iter().map(|(c, f, t, l)| { let fi = files.iter().position(|x| &x.0 == f).unwrap_or(0); (*c, f.clone(), t.clone(), maps[fi](*l)) }).collect();
				// with one lexeme per line only codes and covered text are comparable
				let mapped: Vec<(u16, String, String, usize)> = if layout == 6 { mapped.into_iter().map(|(c, f, t, _)| (c, f, t, 0)).collect() } else { mapped };
				if expect != mapped
				{
					let kind = if expect.len() != mapped.len() || expect.iter().zip(mapped.iter()).any(|(a, b)| a.0 != b.0) { "codes" } else if expect.iter().zip(mapped.iter()).any(|(a, b)| a.2 != b.2) { "text" } else { "line" };
					let code = expect.iter().zip(mapped.iter()).find(|(a, b)| a != b).map(|(a, _)| a.0).unwrap_or(0);
					w.result.violation(&format!("diagnostics-change-with-layout:{kind}:{}:E{code}", LAYOUTS[layout]), size, &desc, || {
						format!("with layout '{}' the diagnostics are\n{mapped:?}\nbut as written (lines mapped) they are\n{expect:?}\n{}", LAYOUTS[layout], show())
					});
				}
			}
		}
	}
}
