pub mod c14;
