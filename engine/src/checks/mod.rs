pub mod c14;
pub mod c15;
