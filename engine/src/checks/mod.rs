pub mod c04;
pub mod c06;
pub mod c14;
pub mod c15;
pub mod c16;
pub mod c17;
pub mod c19;
pub mod c20;
