//! C10 — compile-time evaluation agrees with run time.
//!
//! (i) every expression of up to two operators over the integer operators, casts and references
//! to other constants, on boundary operand values of every integer type, evaluated as `const`
//! (folded through LLVM) and as `var` (operands routed through variables), both printed and
//! compared with the fixed-width reference arithmetic; (ii) named constant lengths 0..8 and
//! `|x|` through every parameter kind and two call levels; (iii) `|:T|` against the layout model.

use crate::driver::Driver;
use crate::model::intval::{INT_TYPES, IntTy};
use crate::pool::{CaseOutcome, WorkerCtx};
use crate::subjects::alpha::{self, Verdict};
use crate::subjects::exec::run_lli;
use serde_json::{Value, json};

const ARITH: [&str; 5] = ["+", "-", "*", "/", "%"];
const BITS: [&str; 5] = ["&", "|", "^", "<<", ">>"];

#[derive(Debug, Clone)]
pub struct Cell
{
	pub what: String,
	pub class: String,
	/// declarations at module level (the constant)
	pub top: String,
	/// statements in main before the print
	pub body: String,
	/// the two printed expressions (constant name, variable name)
	pub print: (String, String),
	pub expected: String,
}

fn lit(t: &IntTy, v: u128) -> String
{
	// decimal literal typed by its context; negative values as negated literals
	if t.is_negative(v) { format!("-{}", t.neg(v)) } else { v.to_string() }
}

fn small_values(t: &IntTy) -> Vec<u128>
{
	let mut v = vec![0u128, 1, 3, t.max()];
	if t.signed
	{
		v.push(t.mask());
		v.push(t.min_magnitude());
	}
	// Types wider than a machine word: the literal is built from 64-bit words, so the values at
	// the edges of one word (2^63 - 1, 2^63, 2^64 - 1, 2^64) and their negations are boundary
	// values of the lowering, in both tiers.
	if t.bits > 64
	{
		for x in [(1u128 << 63) - 1, 1u128 << 63, (1u128 << 64) - 1, 1u128 << 64]
		{
			v.push(x);
			if t.signed
			{
				v.push(t.neg(x));
			}
		}
	}
	v
}

pub fn binary_cells(t: &IntTy, quick: bool) -> Vec<Cell>
{
	let mut out = Vec::new();
	let vals: Vec<u128> = if quick { small_values(t).into_iter().chain([7u128, t.max() - 1]).collect() } else { t.boundary_values() };
	let ops: Vec<&str> = if t.signed || t.name == "usize" { ARITH.to_vec() } else { ARITH.iter().chain(BITS.iter()).copied().collect() };
	let mut i = 0;
	for op in &ops
	{
		for a in &vals
		{
			for b in &vals
			{
				let b_use = if *op == "<<" || *op == ">>" { t.wrap(*b % 200) } else { *b };
				let Some(r) = t.binary(op, *a, b_use)
				else
				{
					continue;
				};
				let (la, lb) = (lit(t, *a), lit(t, b_use));
				// negative literals as right operands need parentheses only for clarity; the grammar accepts `a - -1`
				let n = format!("{}_{i}", t.name);
				out.push(Cell {
					what: format!("{} {op} {} as {}", la, lb, t.name),
					class: format!("binary {op} {}", t.name),
					top: format!("const K_{n}: {} = {la} {op} {lb};\n", t.name),
					body: format!("\tvar a_{n}: {} = {la};\n\tvar b_{n}: {} = {lb};\n\tvar v_{n}: {} = a_{n} {op} b_{n};\n", t.name, t.name, t.name),
					print: (format!("K_{n}"), format!("v_{n}")),
					expected: t.show(r),
				});
				i += 1;
			}
		}
	}
	// unary
	for a in &vals
	{
		let n = format!("{}_u{i}", t.name);
		if t.signed
		{
			if *a == t.min_magnitude()
			{
				continue;
			}
			let la = lit(t, *a);
			out.push(Cell {
				what: format!("-({la}) as {}", t.name),
				class: format!("unary - {}", t.name),
				top: format!("const K_{n}: {} = -({la});\n", t.name),
				body: format!("\tvar a_{n}: {} = {la};\n\tvar v_{n}: {} = -a_{n};\n", t.name, t.name),
				print: (format!("K_{n}"), format!("v_{n}")),
				expected: t.show(t.neg(*a)),
			});
		}
		else if t.name != "usize"
		{
			let la = lit(t, *a);
			out.push(Cell {
				what: format!("!{la} as {}", t.name),
				class: format!("unary ! {}", t.name),
				top: format!("const K_{n}: {} = !{la};\n", t.name),
				body: format!("\tvar a_{n}: {} = {la};\n\tvar v_{n}: {} = !a_{n};\n", t.name, t.name),
				print: (format!("K_{n}"), format!("v_{n}")),
				expected: t.show(t.not(*a)),
			});
		}
		i += 1;
	}
	out
}

pub fn cast_cells(from: &IntTy, quick: bool) -> Vec<Cell>
{
	let mut out = Vec::new();
	let vals = if quick { small_values(from) } else { from.boundary_values() };
	let mut i = 0;
	for to in INT_TYPES.iter()
	{
		if to.name == from.name
		{
			continue;
		}
		for a in &vals
		{
			let la = lit(from, *a);
			let n = format!("{}_{}_{i}", from.name, to.name);
			out.push(Cell {
				what: format!("{la}{} as {}", from.name, to.name),
				class: format!("cast {} as {}", from.name, to.name),
				top: format!("const S_{n}: {} = {la};\nconst K_{n}: {} = S_{n} as {};\n", from.name, to.name, to.name),
				body: format!("\tvar a_{n}: {} = {la};\n\tvar v_{n}: {} = a_{n} as {};\n", from.name, to.name, to.name),
				print: (format!("K_{n}"), format!("v_{n}")),
				expected: to.show(to.cast_from(from, *a)),
			});
			i += 1;
		}
	}
	out
}

/// (a op1 b) op2 c, a op1 (b op2 c), references to other constants.
pub fn nested_cells(t: &IntTy) -> Vec<Cell>
{
	let mut out = Vec::new();
	let vals: Vec<u128> = vec![1, 3, t.max(), if t.signed { t.mask() } else { 2 }];
	let ops: Vec<&str> = if t.signed || t.name == "usize" { ARITH.to_vec() } else { vec!["+", "-", "*", "/", "%", "&", "|", "^"] };
	let mut i = 0;
	for op1 in &ops
	{
		for op2 in &ops
		{
			for a in &vals
			{
				for b in &vals
				{
					for c in &vals
					{
						// 0: (a op1 b) op2 c; 1: a op1 (b op2 c); 2: a op1 b op2 c without parentheses, grouped
						// by the documented precedence (`*`, `/`, `%` bind tighter than `+`, `-`; operators
						// of one level group from the left); arithmetic operators only
						for mode in 0..3
						{
							let arithmetic = |op: &str| ARITH.contains(&op);
							if mode == 2 && !(arithmetic(op1) && arithmetic(op2))
							{
								continue;
							}
							let tighter = |op: &str| matches!(op, "*" | "/" | "%");
							let left_nested = match mode
							{
								0 => true,
								1 => false,
								_ => !(tighter(op2) && !tighter(op1)),
							};
							let r = if left_nested
							{
								t.binary(op1, *a, *b).and_then(|x| t.binary(op2, x, *c))
							}
							else
							{
								t.binary(op2, *b, *c).and_then(|x| t.binary(op1, *a, x))
							};
							let Some(r) = r
							else
							{
								continue;
							};
							let (la, lb, lc) = (lit(t, *a), lit(t, *b), lit(t, *c));
							let n = format!("{}_n{i}", t.name);
							let (cexpr, vexpr) = if mode == 2
							{
								(format!("A_{n} {op1} {lb} {op2} {lc}"), format!("a_{n} {op1} b_{n} {op2} c_{n}"))
							}
							else if left_nested
							{
								(format!("(A_{n} {op1} {lb}) {op2} {lc}"), format!("(a_{n} {op1} b_{n}) {op2} c_{n}"))
							}
							else
							{
								(format!("A_{n} {op1} ({lb} {op2} {lc})"), format!("a_{n} {op1} (b_{n} {op2} c_{n})"))
							};
							out.push(Cell {
								what: format!("{} with A={la} b={lb} c={lc} as {}", cexpr.replace(&format!("A_{n}"), "A"), t.name),
								class: format!("nested {op1} {op2} {}", t.name),
								top: format!("const A_{n}: {} = {la};\nconst K_{n}: {} = {cexpr};\n", t.name, t.name),
								body: format!("\tvar a_{n}: {} = {la};\n\tvar b_{n}: {} = {lb};\n\tvar c_{n}: {} = {lc};\n\tvar v_{n}: {} = {vexpr};\n", t.name, t.name, t.name, t.name),
								print: (format!("K_{n}"), format!("v_{n}")),
								expected: t.show(r),
							});
							i += 1;
						}
					}
				}
			}
		}
	}
	out
}

pub fn program(cells: &[Cell]) -> String
{
	let mut s = String::new();
	for c in cells
	{
		s.push_str(&c.top);
	}
	s.push_str("fn main() -> u8\n{\n");
	for c in cells
	{
		s.push_str(&c.body);
		s.push_str(&format!("\tprint!({}, \" \", {}, \"\\n\");\n", c.print.0, c.print.1));
	}
	s.push_str("\treturn: 0\n}\n");
	s
}

// ---------------------------------------------------------------------------------------------
// (iii) layout model

#[derive(Debug, Clone)]
pub struct MemberTy
{
	pub text: &'static str,
	pub size: usize,
	pub align: usize,
}

pub fn member_types() -> Vec<MemberTy>
{
	vec![
		MemberTy { text: "i8", size: 1, align: 1 },
		MemberTy { text: "i16", size: 2, align: 2 },
		MemberTy { text: "i32", size: 4, align: 4 },
		MemberTy { text: "i64", size: 8, align: 8 },
		MemberTy { text: "i128", size: 16, align: 8 },
		MemberTy { text: "bool", size: 1, align: 1 },
		MemberTy { text: "char8", size: 1, align: 1 },
		MemberTy { text: "usize", size: 8, align: 8 },
		MemberTy { text: "&i32", size: 8, align: 8 },
		MemberTy { text: "[3]i8", size: 3, align: 1 },
		MemberTy { text: "[2]i32", size: 8, align: 4 },
		// compound members: another structure, an array of it, a word, a pointer to a structure, an
		// array of named length, the widest unsigned types
		MemberTy { text: "In", size: 8, align: 4 },
		MemberTy { text: "[2]In", size: 16, align: 4 },
		MemberTy { text: "W16", size: 2, align: 1 },
		MemberTy { text: "&In", size: 8, align: 8 },
		MemberTy { text: "[N]i16", size: 6, align: 2 },
		MemberTy { text: "u128", size: 16, align: 8 },
		MemberTy { text: "u8", size: 1, align: 1 },
	]
}

/// Declarations the compound member types refer to.
pub const MEMBER_HELPERS: &str = "const N: usize = 3;\nstruct In\n{\n\ta: i8,\n\tb: i32,\n}\nword16 W16\n{\n\ta: u8,\n\tb: u8,\n}\n";

/// The first 11 member types are the primitive ones (all lists of three in both tiers); lists that
/// contain a compound member have at most two members in the quick tier.
pub const PRIMITIVE_MEMBERS: usize = 11;

pub fn layout(members: &[&MemberTy]) -> (usize, usize)
{
	let mut size = 0;
	let mut align = 1;
	for m in members
	{
		align = align.max(m.align);
		size = (size + m.align - 1) / m.align * m.align + m.size;
	}
	((size + align - 1) / align * align, align)
}

pub fn drive(d: &mut Driver)
{
	let quick = d.quick();
	let mut jobs = Vec::new();
	for ti in 0..INT_TYPES.len()
	{
		jobs.push(json!({"kind": "binary", "type": ti}));
		jobs.push(json!({"kind": "cast", "type": ti}));
	}
	let nested_types: Vec<usize> = if quick { vec![2] } else { vec![0, 2, 4, 5, 7, 9, 10] };
	for ti in &nested_types
	{
		jobs.push(json!({"kind": "nested", "type": ti}));
	}
	jobs.push(json!({"kind": "lengths"}));
	jobs.push(json!({"kind": "lengths2d"}));
	for bits in [8, 16, 32, 64, 128]
	{
		jobs.push(json!({"kind": "wordsizes", "bits": bits}));
	}
	let nm = member_types().len();
	for a in 0..nm
	{
		jobs.push(json!({"kind": "sizes", "first": a}));
	}
	d.bound("operand values per type", json!(if quick { "8 boundary values" } else { "all S-VAL boundary values (about 20-30 per type)" }));
	d.bound("binary operators", json!("+ - * / % on every integer type; & | ^ << >> on the fixed-width unsigned types; unary - on signed, ! on fixed-width unsigned"));
	d.bound("casts", json!("all 110 ordered pairs of distinct integer types"));
	d.bound("two-operator expressions (both nestings, referring to another constant)", json!(nested_types.iter().map(|i| INT_TYPES[*i].name).collect::<Vec<_>>()));
	d.bound("named lengths", json!("constant expressions evaluating to 0..8; arrays of length 0..8 through name, view, slice pointer, pointer and two call levels"));
	d.bound("size-of", json!("every primitive and pointer type, arrays of length 0..4, structs with every member list of length 1..3 over 11 primitive member types and of length 1..2 (thorough: 3) over 18 member types including a nested structure, an array of it, a word, a pointer to a structure and an array of named length, arrays of them; each size both inside main and as a constant that is declared before the structure and behind an unrelated function with a pointer parameter"));
	d.phase("constant evaluation, lengths and sizes", jobs);
	d.assume("reference arithmetic: engine/src/model/intval.rs (two's complement, wrapping, signedness-directed division and extension); cells with undefined behaviour (division by zero, MIN / -1, shift by the width or more) are excluded by the model");
	d.assume("layout model: natural alignment capped at 8, pointers and usize 8 bytes, under the data layout string the generator installs");
}

pub fn work(spec: &Value, w: &mut WorkerCtx)
{
	let spec = if let Some(case) = spec.get("replay") { case.clone() } else { spec.clone() };
	let quick = w.tier == "quick";
	match spec["kind"].as_str().unwrap()
	{
		"binary" | "cast" | "nested" =>
		{
			let t = INT_TYPES[spec["type"].as_u64().unwrap() as usize];
			let cells = match spec["kind"].as_str().unwrap()
			{
				"binary" => binary_cells(&t, quick),
				"cast" => cast_cells(&t, quick),
				_ => nested_cells(&t),
			};
			for (k, chunk) in cells.chunks(120).enumerate()
			{
				run_cells(chunk, &json!({"kind": spec["kind"], "type": spec["type"], "chunk": k}), w);
			}
		}
		"lengths" => lengths(w),
		"lengths2d" => lengths_2d(w),
		"wordsizes" => word_sizes(spec["bits"].as_u64().unwrap() as usize, w),
		"sizes" => sizes(spec["first"].as_u64().unwrap() as usize, w),
		other => panic!("unknown kind {other}"),
	}
}

fn compile_and_run(text: &str, desc_bytes: &[u8], w: &mut WorkerCtx) -> Option<(Verdict, Option<crate::subjects::exec::Exec>)>
{
	let src = text.to_string();
	let outcome = w.run_case(desc_bytes, || {
		let v = alpha::compile_one(&src, alpha::FULL);
		let exec = match &v
		{
			Verdict::Ok { irs, .. } => Some(run_lli(&irs[0], 30_000)),
			_ => None,
		};
		(v, exec)
	});
	match outcome
	{
		CaseOutcome::Done(x) => Some(x),
		CaseOutcome::Panicked { site, message } =>
		{
			let sig = format!("panic@{}", crate::util::site_signature(&site, &message));
			let d = String::from_utf8_lossy(desc_bytes).to_string();
			w.result.violation(&sig, 1000, || serde_json::from_str(&d).unwrap_or(Value::Null), || format!("panic at {site}: {message}"));
			None
		}
		CaseOutcome::Crashed { .. } => None,
	}
}

fn run_cells(cells: &[Cell], replay: &Value, w: &mut WorkerCtx)
{
	let text = program(cells);
	w.result.states += cells.len() as u64;
	w.result.transitions += cells.len() as u64;
	let desc = || {
		let mut r = replay.clone();
		r["sig_hint"] = json!(cells[0].class.clone());
		r
	};
	let d = desc().to_string().into_bytes();
	let Some((v, exec)) = compile_and_run(&text, &d, w)
	else
	{
		return;
	};
	match (&v, exec)
	{
		(Verdict::Ok { .. }, Some(exec)) =>
		{
			let lines: Vec<&str> = exec.stdout.lines().collect();
			if exec.status != Some(0) || lines.len() != cells.len()
			{
				w.result.violation(&format!("execution-failed:{}", cells[0].class), 1000, &desc, || format!("lli status {:?} signal {:?}; {} lines for {} cells; {}", exec.status, exec.signal, lines.len(), cells.len(), exec.stderr_tail));
				return;
			}
			for (i, c) in cells.iter().enumerate()
			{
				w.result.validated += 1;
				let mut parts = lines[i].split(' ');
				let (k, var) = (parts.next().unwrap_or(""), parts.next().unwrap_or(""));
				let mut ok = true;
				if k != var
				{
					ok = false;
					w.result.violation(&format!("const-differs-from-var:{}", c.class), c.what.len() as u64, &desc, || format!("{}: the constant evaluates to {k}, the same expression at run time to {var} (reference: {})", c.what, c.expected));
				}
				else if k != c.expected
				{
					ok = false;
					w.result.violation(&format!("both-differ-from-reference:{}", c.class), c.what.len() as u64, &desc, || format!("{}: constant and variable both give {k}, the reference arithmetic gives {}", c.what, c.expected));
				}
				w.result.outcome(&format!("{}:{}", c.class.split(' ').next().unwrap_or(""), if ok { "agree" } else { "MISMATCH" }));
				if ok && i % 113 == 0
				{
					w.result.sample(|| json!({"cell": c.what, "const": k, "var": var}));
				}
			}
		}
		(other, _) =>
		{
			let codes = other.codes();
			let lines: Vec<usize> = other.diags().iter().map(|d| d.line).collect();
			// which cell is on that line?
			let src_lines: Vec<&str> = text.lines().collect();
			let culprit = lines.first().and_then(|l| src_lines.get(l.saturating_sub(1))).map(|s| s.trim().to_string()).unwrap_or_default();
			w.result.outcome("rejected:MISMATCH");
			w.result.violation(&format!("valid-constant-expression-rejected:E{}:{}", codes.first().copied().unwrap_or(0), cells[0].class), 1000, &desc, || {
				format!("a program of valid constant expressions is rejected with {codes:?}; first culprit line: {culprit}")
			});
		}
	}
}

fn lengths(w: &mut WorkerCtx)
{
	// named lengths from constant expressions evaluating to 0..8
	let exprs: Vec<(String, usize)> = vec![
		("0".into(), 0),
		("1".into(), 1),
		("1 + 1".into(), 2),
		("9 / 3".into(), 3),
		("2 * 2".into(), 4),
		("10 - 5".into(), 5),
		("2 * (1 + 2)".into(), 6),
		("15 % 8".into(), 7),
		("1 << 3".into(), 8),
		("BASE + 2".into(), 5),
		("BASE * BASE - 1".into(), 8),
		("|:i32|".into(), 4),
		("|:[2]i32|".into(), 8),
		("7u8 as usize".into(), 7),
	];
	let mut text = String::from("const BASE: usize = 3;\n");
	for (i, (e, _)) in exprs.iter().enumerate()
	{
		// `1 << 3` needs a fixed-width unsigned type: route through u64
		if e.contains("<<")
		{
			text.push_str(&format!("const N{i}: usize = (1u64 << 3u64) as usize;\n"));
		}
		else
		{
			text.push_str(&format!("const N{i}: usize = {e};\n"));
		}
	}
	text.push_str("fn by_view(x: []i32) -> usize\n{\n\treturn: |x|\n}\nfn by_view2(x: []i32) -> usize\n{\n\tvar r: usize = by_view(x);\n\treturn: r\n}\nfn by_slice_pointer(x: &[]i32) -> usize\n{\n\treturn: |x|\n}\nfn by_slice_pointer2(x: &[]i32) -> usize\n{\n\tvar r: usize = by_slice_pointer(&x);\n\treturn: r\n}\n");
	text.push_str("fn main() -> u8\n{\n");
	for (i, _) in exprs.iter().enumerate()
	{
		text.push_str(&format!("\tvar a{i}: [N{i}]i32;\n\tprint!(N{i}, \" \", |a{i}|, \" \", by_view(a{i}), \" \", by_view2(a{i}), \" \", by_slice_pointer(&a{i}), \" \", by_slice_pointer2(&a{i}), \"\\n\");\n"));
	}
	// literal lengths 0..8 as well
	for n in 0..=8
	{
		text.push_str(&format!("\tvar b{n}: [{n}]i32;\n\tprint!({n}usize, \" \", |b{n}|, \" \", by_view(b{n}), \" \", by_view2(b{n}), \" \", by_slice_pointer(&b{n}), \" \", by_slice_pointer2(&b{n}), \"\\n\");\n"));
	}
	text.push_str("\treturn: 0\n}\n");
	let total = exprs.len() + 9;
	w.result.states += total as u64;
	w.result.transitions += total as u64;
	let desc = || json!({"kind": "lengths", "sig_hint": "lengths"});
	let d = desc().to_string().into_bytes();
	let Some((v, exec)) = compile_and_run(&text, &d, w)
	else
	{
		return;
	};
	match (&v, exec)
	{
		(Verdict::Ok { .. }, Some(exec)) =>
		{
			let lines: Vec<&str> = exec.stdout.lines().collect();
			if exec.status != Some(0) || lines.len() != total
			{
				w.result.violation("execution-failed:lengths", 1000, &desc, || format!("lli status {:?}; {} lines for {total}; {}", exec.status, lines.len(), exec.stderr_tail));
				return;
			}
			for (i, line) in lines.iter().enumerate()
			{
				w.result.validated += 1;
				let want = if i < exprs.len() { exprs[i].1 } else { i - exprs.len() };
				let what = if i < exprs.len() { format!("const N = {}", exprs[i].0) } else { format!("literal length {want}") };
				let nums: Vec<&str> = line.split(' ').collect();
				let names = ["constant value", "|a| by name", "|x| through a view", "|x| through two views", "|x| through a slice pointer", "|x| through two slice pointers"];
				let mut ok = true;
				for (k, n) in nums.iter().enumerate()
				{
					if *n != want.to_string()
					{
						ok = false;
						w.result.violation(&format!("wrong-length:{}", names.get(k).unwrap_or(&"?")), 100, &desc, || format!("{what}: {} is {n}, expected {want} (line: {line})", names.get(k).unwrap_or(&"?")));
					}
				}
				w.result.outcome(if ok { "lengths:agree" } else { "lengths:MISMATCH" });
			}
		}
		(other, _) =>
		{
			let codes = other.codes();
			let lines: Vec<usize> = other.diags().iter().map(|d| d.line).collect();
			let src_lines: Vec<&str> = text.lines().collect();
			let culprit = lines.first().and_then(|l| src_lines.get(l.saturating_sub(1))).map(|s| s.trim().to_string()).unwrap_or_default();
			w.result.outcome("lengths:rejected:MISMATCH");
			w.result.violation(&format!("valid-length-program-rejected:E{}", codes.first().copied().unwrap_or(0)), 1000, &desc, || format!("rejected with {codes:?}; first culprit line: {culprit}"));
		}
	}
}

/// Lengths of every dimension of multi-dimensional arrays, by name and through every way of
/// passing them on; one program per (shape, form) so that a rejection is attributed.
pub fn lengths_2d_programs() -> Vec<(String, String, String)>
{
	let mut out = Vec::new();
	for n in 1..=3usize
	{
		for m in 1..=3usize
		{
			let row: Vec<String> = (0..m).map(|j| format!("{}", j + 1)).collect();
			let rows: Vec<String> = (0..n).map(|_| format!("[{}]", row.join(", "))).collect();
			let init = format!("[{}]", rows.join(", "));
			let expected = format!("{n} {m}\n");
			let forms: [(&str, String, String); 8] = [
				("by name", String::new(), format!("\tvar a: [{n}][{m}]i32 = {init};\n\tprint!(|a|, \" \", |a[0]|, \"\\n\");\n")),
				("through a view", format!("fn outer(x: [][{m}]i32) -> usize\n{{\n\treturn: |x|\n}}\nfn inner(x: [][{m}]i32) -> usize\n{{\n\treturn: |x[0]|\n}}\n"), format!("\tvar a: [{n}][{m}]i32 = {init};\n\tprint!(outer(a), \" \", inner(a), \"\\n\");\n")),
				("through a pointer to the array", format!("fn outer(x: &[{n}][{m}]i32) -> usize\n{{\n\treturn: |x|\n}}\nfn inner(x: &[{n}][{m}]i32) -> usize\n{{\n\treturn: |x[0]|\n}}\n"), format!("\tvar a: [{n}][{m}]i32 = {init};\n\tprint!(outer(&a), \" \", inner(&a), \"\\n\");\n")),
				("through a slice pointer", format!("fn outer(x: &[][{m}]i32) -> usize\n{{\n\treturn: |x|\n}}\nfn inner(x: &[][{m}]i32) -> usize\n{{\n\treturn: |x[0]|\n}}\n"), format!("\tvar a: [{n}][{m}]i32 = {init};\n\tprint!(outer(&a), \" \", inner(&a), \"\\n\");\n")),
				("as a structure member", format!("struct G\n{{\n\tgrid: [{n}][{m}]i32,\n}}\n"), format!("\tvar g: G = G {{ grid: {init} }};\n\tprint!(|g.grid|, \" \", |g.grid[0]|, \"\\n\");\n")),
				("as a member of a structure passed as a view", format!("struct G\n{{\n\tgrid: [{n}][{m}]i32,\n}}\nfn outer(g: G) -> usize\n{{\n\treturn: |g.grid|\n}}\nfn inner(g: G) -> usize\n{{\n\treturn: |g.grid[0]|\n}}\n"), format!("\tvar g: G = G {{ grid: {init} }};\n\tprint!(outer(g), \" \", inner(g), \"\\n\");\n")),
				("as a member of a structure passed by pointer", format!("struct G\n{{\n\tgrid: [{n}][{m}]i32,\n}}\nfn outer(g: &G) -> usize\n{{\n\treturn: |g.grid|\n}}\nfn inner(g: &G) -> usize\n{{\n\treturn: |g.grid[0]|\n}}\n"), format!("\tvar g: G = G {{ grid: {init} }};\n\tprint!(outer(&g), \" \", inner(&g), \"\\n\");\n")),
				("of the last row", String::new(), format!("\tvar a: [{n}][{m}]i32 = {init};\n\tprint!(|a|, \" \", |a[{}]|, \"\\n\");\n", n - 1)),
			];
			for (form, prelude, body) in forms
			{
				out.push((format!("[{n}][{m}]i32 {form}"), format!("{prelude}fn main() -> u8\n{{\n{body}\treturn: 0\n}}\n"), expected.clone()));
			}
		}
	}
	// three dimensions
	out.push(("[2][3][4]i32 by name".to_string(), "fn main() -> u8\n{\n\tvar a: [2][3][4]i32;\n\tprint!(|a|, \" \", |a[0]|, \" \", |a[0][0]|, \"\\n\");\n\treturn: 0\n}\n".to_string(), "2 3 4\n".to_string()));
	out.push(("[2][3][4]i32 through a pointer to the array".to_string(), "fn dims(x: &[2][3][4]i32)\n{\n\tprint!(|x|, \" \", |x[0]|, \" \", |x[0][0]|, \"\\n\");\n}\nfn main() -> u8\n{\n\tvar a: [2][3][4]i32;\n\tdims(&a);\n\treturn: 0\n}\n".to_string(), "2 3 4\n".to_string()));
	out.push(("[2][3][4]i32 through a view".to_string(), "fn dims(x: [][3][4]i32)\n{\n\tprint!(|x|, \" \", |x[0]|, \" \", |x[0][0]|, \"\\n\");\n}\nfn main() -> u8\n{\n\tvar a: [2][3][4]i32;\n\tdims(a);\n\treturn: 0\n}\n".to_string(), "2 3 4\n".to_string()));
	out
}

fn lengths_2d(w: &mut WorkerCtx)
{
	for (i, (what, text, expected)) in lengths_2d_programs().into_iter().enumerate()
	{
		w.result.states += 1;
		w.result.transitions += 1;
		let form = what.split_once(' ').map(|x| x.1.to_string()).unwrap_or_default();
		let desc = || json!({"kind": "lengths2d", "index": i, "what": what, "text": text, "sig_hint": "lengths"});
		let d = desc().to_string().into_bytes();
		let Some((v, exec)) = compile_and_run(&text, &d, w)
		else
		{
			continue;
		};
		w.result.validated += 1;
		match (&v, exec)
		{
			(Verdict::Ok { .. }, Some(exec)) =>
			{
				if exec.status != Some(0) || exec.stdout != expected
				{
					w.result.outcome("lengths of dimensions:MISMATCH");
					w.result.violation(&format!("wrong-length-of-dimension:{form}"), text.len() as u64, &desc, || format!("{what}: the program prints {:?} (status {:?}), expected {expected:?}\n{text}", exec.stdout, exec.status));
				}
				else
				{
					w.result.outcome("lengths of dimensions:agree");
				}
			}
			(other, _) =>
			{
				let codes = other.codes();
				w.result.outcome("lengths of dimensions:rejected:MISMATCH");
				w.result.violation(&format!("valid-length-program-rejected:E{}:{form}", codes.first().copied().unwrap_or(0)), text.len() as u64, &desc, || format!("{what}: rejected with {codes:?}\n{text}"));
			}
		}
	}
}

/// Sizes of words: every member list of up to three members that fits the declared size
/// (exactly or with room to spare). `|:W|` is the storage of the members, `|:[3]W|` three times
/// that, and a structure of two such words follows the layout model.
fn word_sizes(bits: usize, w: &mut WorkerCtx)
{
	let all = member_types();
	let ms: Vec<&MemberTy> = all.iter().filter(|m| ["i8", "i16", "i32", "i64", "bool", "char8"].contains(&m.text)).collect();
	let mut lists: Vec<Vec<&MemberTy>> = Vec::new();
	for a in &ms
	{
		lists.push(vec![*a]);
		for b in &ms
		{
			lists.push(vec![*a, *b]);
			for c in &ms
			{
				lists.push(vec![*a, *b, *c]);
			}
		}
	}
	let lists: Vec<Vec<&MemberTy>> = lists.into_iter().filter(|l| layout(l).0 * 8 <= bits).collect();
	let mut text = String::new();
	let mut expected: Vec<(String, String)> = Vec::new();
	for (i, l) in lists.iter().enumerate()
	{
		let body: String = l.iter().enumerate().map(|(k, m)| format!("\tm{k}: {},\n", m.text)).collect();
		text.push_str(&format!("word{bits} W{i}\n{{\n{body}}}\nstruct C{i}\n{{\n\tfirst: W{i},\n\tsecond: W{i},\n\ttail: i8,\n}}\n"));
		let (size, align) = layout(l);
		let as_member = MemberTy { text: "W", size, align };
		let tail = MemberTy { text: "i8", size: 1, align: 1 };
		let (csize, _) = layout(&[&as_member, &as_member, &tail]);
		expected.push((l.iter().map(|m| m.text).collect::<Vec<_>>().join(", "), format!("{size} {} {csize}", 3 * size)));
	}
	text.push_str("fn main() -> u8\n{\n");
	for (i, _) in lists.iter().enumerate()
	{
		text.push_str(&format!("\tprint!(|:W{i}|, \" \", |:[3]W{i}|, \" \", |:C{i}|, \"\\n\");\n"));
	}
	text.push_str("\treturn: 0\n}\n");
	w.result.states += lists.len() as u64;
	w.result.transitions += lists.len() as u64;
	let desc = || json!({"kind": "wordsizes", "bits": bits, "sig_hint": "sizes"});
	let d = desc().to_string().into_bytes();
	let Some((v, exec)) = compile_and_run(&text, &d, w)
	else
	{
		return;
	};
	match (&v, exec)
	{
		(Verdict::Ok { .. }, Some(exec)) =>
		{
			let lines: Vec<&str> = exec.stdout.lines().collect();
			if exec.status != Some(0) || lines.len() != lists.len()
			{
				w.result.violation("execution-failed:word sizes", 1000, &desc, || format!("lli status {:?}; {} lines for {}; {}", exec.status, lines.len(), lists.len(), exec.stderr_tail));
				return;
			}
			for (i, (members, want)) in expected.iter().enumerate()
			{
				w.result.validated += 1;
				if lines[i] != want
				{
					let got: Vec<&str> = lines[i].split(' ').collect();
					let wanted: Vec<&str> = want.split(' ').collect();
					let what = if got.first() != wanted.first() { "word-size" } else if got.get(1) != wanted.get(1) { "array-of-word-size" } else { "struct-of-words-size" };
					let filled = if layout(&lists[i]).0 * 8 == bits { "exactly filled" } else { "with room to spare" };
					w.result.outcome("word sizes:MISMATCH");
					w.result.violation(&format!("wrong-size:{what}:{filled}"), members.len() as u64, &desc, || {
						format!("word{bits} {{ {members} }} ({filled}): |:W|, |:[3]W| and |:struct {{ W, W, i8 }}| print `{}`, the layout model gives `{want}`", lines[i])
					});
				}
				else
				{
					w.result.outcome("word sizes:agree");
				}
			}
		}
		(other, _) =>
		{
			let codes = other.codes();
			w.result.outcome("word sizes:rejected:MISMATCH");
			w.result.violation(&format!("valid-word-program-rejected:E{}", codes.first().copied().unwrap_or(0)), 1000, &desc, || format!("word{bits}: rejected with {codes:?}"));
		}
	}
}

fn sizes(first: usize, w: &mut WorkerCtx)
{
	let ms = member_types();
	let quick = w.tier == "quick";
	// member lists of length 1..3 starting with `first`
	let mut lists: Vec<Vec<usize>> = vec![vec![first]];
	for b in 0..ms.len()
	{
		lists.push(vec![first, b]);
		for c in 0..ms.len()
		{
			if quick && (first >= PRIMITIVE_MEMBERS || b >= PRIMITIVE_MEMBERS || c >= PRIMITIVE_MEMBERS)
			{
				continue;
			}
			lists.push(vec![first, b, c]);
		}
	}
	// the helper declarations come last: the sizes must not depend on that either
	let mut text = String::new();
	let mut expected: Vec<(String, usize, usize)> = Vec::new();
	// the sizes as constants, declared before the structures they measure, each behind an unrelated
	// function whose parameter type is a pointer (compile-time evaluation must not depend on what
	// was declared before or on the structure being declared later)
	for (i, _) in lists.iter().enumerate()
	{
		text.push_str(&format!("fn by{i}(p: &[]u8)\n{{\n}}\nconst K{i}: usize = |:S{i}|;\nconst A{i}: usize = |:[3]S{i}|;\nconst P{i}: usize = |:In| + |:S{i}|;\n"));
	}
	for (i, l) in lists.iter().enumerate()
	{
		let members: Vec<&MemberTy> = l.iter().map(|k| &ms[*k]).collect();
		let body: String = members.iter().enumerate().map(|(k, m)| format!("\tm{k}: {},\n", m.text)).collect();
		text.push_str(&format!("struct S{i}\n{{\n{body}}}\n"));
		let (size, _) = layout(&members);
		expected.push((members.iter().map(|m| m.text).collect::<Vec<_>>().join(", "), size, 3 * size));
	}
	// plain types (only once, in the job of the first member type)
	let mut plain: Vec<(String, usize)> = Vec::new();
	if first == 0
	{
		for m in &ms
		{
			plain.push((m.text.to_string(), m.size));
			for n in 0..=4
			{
				plain.push((format!("[{n}]{}", m.text), n * m.size));
			}
		}
		plain.push(("&&i32".to_string(), 8));
		plain.push(("[2][3]i16".to_string(), 12));
	}
	text.push_str(MEMBER_HELPERS);
	text.push_str("fn main() -> u8\n{\n");
	for (i, _) in lists.iter().enumerate()
	{
		text.push_str(&format!("\tprint!(|:S{i}|, \" \", |:[3]S{i}|, \" \", K{i}, \" \", A{i}, \" \", P{i}, \"\\n\");\n"));
	}
	for (t, _) in &plain
	{
		text.push_str(&format!("\tprint!(|:{t}|, \"\\n\");\n"));
	}
	text.push_str("\treturn: 0\n}\n");
	let total = lists.len() + plain.len();
	w.result.states += total as u64;
	w.result.transitions += total as u64;
	let desc = || json!({"kind": "sizes", "first": first, "sig_hint": "sizes"});
	let d = desc().to_string().into_bytes();
	let Some((v, exec)) = compile_and_run(&text, &d, w)
	else
	{
		return;
	};
	match (&v, exec)
	{
		(Verdict::Ok { .. }, Some(exec)) =>
		{
			let lines: Vec<&str> = exec.stdout.lines().collect();
			if exec.status != Some(0) || lines.len() != total
			{
				w.result.violation("execution-failed:sizes", 1000, &desc, || format!("lli status {:?}; {} lines for {total}; {}", exec.status, lines.len(), exec.stderr_tail));
				return;
			}
			for (i, (members, size, size3)) in expected.iter().enumerate()
			{
				w.result.validated += 1;
				// P = |:In| + |:S|: a size-of followed by another one in one constant expression (In is 8 bytes)
				let want = format!("{size} {size3} {size} {size3} {}", 8 + size);
				if lines[i] != want
				{
					let nums: Vec<&str> = lines[i].split(' ').collect();
					let what = if nums.first().map(|n| *n != size.to_string()).unwrap_or(true)
					{
						"struct-size"
					}
					else if nums.get(1).map(|n| *n != size3.to_string()).unwrap_or(true)
					{
						"array-of-struct-size"
					}
					else
					{
						"size-as-constant-declared-before-the-structure"
					};
					w.result.outcome("sizes:MISMATCH");
					w.result.violation(&format!("wrong-size:{what}"), members.len() as u64, &desc, || format!("struct {{ {members} }}: |:S|, |:[3]S| in main and as constants declared before the structure print `{}`, the layout model gives `{want}`", lines[i]));
				}
				else
				{
					w.result.outcome("sizes:agree");
					if i % 37 == 0
					{
						w.result.sample(|| json!({"struct_members": members, "size": size, "size_of_array_of_3": size3}));
					}
				}
			}
			for (k, (t, size)) in plain.iter().enumerate()
			{
				w.result.validated += 1;
				let line = lines[lists.len() + k];
				if line != size.to_string()
				{
					w.result.outcome("sizes:MISMATCH");
					w.result.violation("wrong-size:plain-type", t.len() as u64, &desc, || format!("|:{t}| prints {line}, the layout model gives {size}"));
				}
				else
				{
					w.result.outcome("sizes:agree");
				}
			}
		}
		(other, _) =>
		{
			let codes = other.codes();
			let lines: Vec<usize> = other.diags().iter().map(|d| d.line).collect();
			let src_lines: Vec<&str> = text.lines().collect();
			let culprit = lines.first().and_then(|l| src_lines.get(l.saturating_sub(1))).map(|s| s.trim().to_string()).unwrap_or_default();
			w.result.outcome("sizes:rejected:MISMATCH");
			w.result.violation(&format!("valid-size-program-rejected:E{}", codes.first().copied().unwrap_or(0)), 1000, &desc, || format!("rejected with {codes:?}; first culprit line: {culprit}"));
		}
	}
}
