//! C16 — the second-generation parser builds a faithful parse tree.
//!
//! Every module of the S-AST space (bounded exhaustive derivations of the model grammar), in its
//! canonical layout and with every single-gap layout deviation, is parsed by the second
//! generation; the XML dump must be well formed and, read back, equal the model's syntax tree;
//! the first generation's tree must equal the same model tree.

use crate::driver::Driver;
use crate::model::grammar::{self, Decl, Layout, Node};
use crate::pool::{CaseOutcome, WorkerCtx};
use crate::spaces::ast;
use crate::subjects::delta::delta_front_mode;
use crate::subjects::trees;
use serde_json::{Value, json};

pub fn drive(d: &mut Driver)
{
	let quick = d.quick();
	let fams = ast::families(quick);
	d.bound("expression derivations: max operators", json!(if quick { 2 } else { 3 }));
	d.bound("statement nesting depth", json!(if quick { 2 } else { 3 }));
	d.bound("type nesting depth", json!(if quick { 2 } else { 3 }));
	d.bound("layout deviations", json!("canonical, one-line, token-per-line, and each single gap replaced by each of: newline, tab, comment+newline, CRLF, two spaces, blank line"));
	let mut jobs = Vec::new();
	let mut sizes = serde_json::Map::new();
	for (fi, (name, mods)) in fams.iter().enumerate()
	{
		sizes.insert(name.to_string(), json!(mods.len()));
		let chunk = 1500;
		let mut lo = 0;
		while lo < mods.len()
		{
			let hi = (lo + chunk).min(mods.len());
			jobs.push(json!({"family": fi, "lo": lo, "hi": hi, "layouts": "global"}));
			lo = hi;
		}
	}
	d.bound("family sizes", Value::Object(sizes));
	d.phase("S-AST canonical and global layouts", jobs);
	// Single-gap deviations on the bases (all modules of the small families; a stride of the big ones).
	let mut jobs = Vec::new();
	for (fi, (_name, mods)) in fams.iter().enumerate()
	{
		let stride = if quick { (mods.len() / 600).max(1) } else { (mods.len() / 6000).max(1) };
		let chunk = 400 * stride;
		let mut lo = 0;
		while lo < mods.len()
		{
			let hi = (lo + chunk).min(mods.len());
			jobs.push(json!({"family": fi, "lo": lo, "hi": hi, "layouts": "gaps", "stride": stride}));
			lo = hi;
		}
	}
	d.phase("S-AST single-gap layout deviations", jobs);
	// Nesting/length pumps of self-embedding productions at the documented limits.
	let mut jobs = Vec::new();
	for k in 0..PUMP_KINDS.len()
	{
		// the limits of E390: 127 address markers, 127 access steps, and (since the repair of the
		// second generation's recursion) 127 levels of nesting per declaration, which the first
		// generation does not have: the nesting pumps stay below it (C15 probes the limit itself)
		// the last kind is a sequence of declarations (no nesting at all): what one declaration
		// leaves behind in the parser must not add up
		let reps: [usize; 6] = if k < 3 { [1, 2, 3, 16, 126, 127] } else if k == 6 { [1, 2, 64, 128, 130, 300] } else { [1, 2, 3, 16, 100, 120] };
		for r in reps
		{
			jobs.push(json!({"pump": k, "r": r}));
		}
	}
	d.phase("limit pumps (reference steps, address depth, nesting)", jobs);
	// Corpus files: no model tree exists for them, so the two generations are compared directly.
	let files = crate::util::corpus_files();
	d.bound("corpus files", json!(files.len()));
	let jobs: Vec<Value> = files.chunks(20).map(|c| json!({"corpus": c})).collect();
	d.phase("corpus files accepted by both parsers", jobs);
	d.assume("the model grammar (engine/src/model/grammar.rs, spaces/ast.rs) transcribes docs/syntax.md and the first-generation parser's documented precedence rules (appendix B of DESIGN.md)");
	d.assume("abstraction when comparing trees: locations erased; a negated positive signed literal equals Unary(-, literal); literal spelling is compared by value and suffix type; `return:` at the end of a body is the return value in both generations");
}

const PUMP_KINDS: [&str; 7] = ["index steps", "member steps", "address-of", "nested parentheses", "nested blocks", "else-if chain", "functions with a return value, then a constant"];

fn pump_module(k: usize, r: usize) -> Vec<Decl>
{
	use grammar::*;
	let rf = |b: &str| Reference { addr: 0, base: b.into(), steps: vec![] };
	match PUMP_KINDS[k]
	{
		"index steps" => ast::wrap_expr(Expr::Ref(Reference { addr: 0, base: "a".into(), steps: (0..r).map(|_| Step::Index(Expr::Int("1".into()))).collect() })),
		"member steps" => ast::wrap_expr(Expr::Ref(Reference { addr: 0, base: "a".into(), steps: (0..r).map(|_| Step::Member("m".into())).collect() })),
		"address-of" => ast::wrap_expr(Expr::Ref(Reference { addr: r as u8, base: "a".into(), steps: vec![] })),
		"nested parentheses" =>
		{
			let mut e = Expr::Ref(rf("a"));
			for _ in 0..r
			{
				e = Expr::Paren(Box::new(e));
			}
			ast::wrap_expr(e)
		}
		"functions with a return value, then a constant" =>
		{
			let mut decls: Vec<Decl> = (0..r)
				.map(|i| Decl::Fn {
					flags: Flags::default(),
					name: format!("f{i}"),
					params: vec![],
					trailing_comma: false,
					ret: Some(Ty::Prim("i32")),
					body: Some(Body { stmts: vec![], ret: Some(Expr::Paren(Box::new(Expr::Int("1".into())))) }),
				})
				.collect();
			decls.push(Decl::Const { flags: Flags::default(), name: "LAST".into(), ty: Ty::Prim("i32"), value: Expr::Int("1".into()) });
			decls
		}
		"nested blocks" =>
		{
			let mut s = Stmt::Block(vec![]);
			for _ in 0..r
			{
				s = Stmt::Block(vec![s]);
			}
			ast::wrap_stmts(vec![s])
		}
		_ =>
		{
			let c = || Cmp { op: "==", left: Expr::Ref(rf("a")), right: Expr::Int("1".into()) };
			let mut s = Stmt::If(c(), Box::new(Stmt::Block(vec![])), None);
			for _ in 0..r
			{
				s = Stmt::If(c(), Box::new(Stmt::Block(vec![])), Some(Box::new(s)));
			}
			ast::wrap_stmts(vec![s])
		}
	}
}

pub fn work(spec: &Value, w: &mut WorkerCtx)
{
	if let Some(case) = spec.get("replay").filter(|c| c.get("corpus_file").is_none())
	{
		let text = case["text"].as_str().unwrap_or("").to_string();
		// The expected tree comes from re-deriving the module when the case names it.
		if let (Some(fi), Some(i)) = (case["family"].as_u64(), case["index"].as_u64())
		{
			let quick = case["quick"].as_bool().unwrap_or(true);
			let fams = ast::families(quick);
			let module = &fams[fi as usize].1[i as usize];
			judge(module, &text, fams[fi as usize].0, || case.clone(), w);
		}
		else if let (Some(k), Some(r)) = (case["pump"].as_u64(), case["r"].as_u64())
		{
			let m = pump_module(k as usize, r as usize);
			judge(&m, &text, "pump", || case.clone(), w);
		}
		return;
	}
	if let Some(files) = spec.get("corpus").and_then(|f| f.as_array())
	{
		for f in files
		{
			let path = f.as_str().unwrap();
			w.result.transitions += 1;
			judge_corpus(path, w);
		}
		return;
	}
	if let Some(path) = spec.get("replay").and_then(|c| c.get("corpus_file")).and_then(|p| p.as_str())
	{
		judge_corpus(path, w);
		return;
	}
	if let Some(k) = spec.get("pump").and_then(|k| k.as_u64())
	{
		let r = spec["r"].as_u64().unwrap() as usize;
		let m = pump_module(k as usize, r);
		let text = grammar::render_module(&m, Layout::Canonical);
		w.result.transitions += 1;
		judge(&m, &text, "pump", || json!({"pump": k, "r": r, "text": text.chars().take(200).collect::<String>()}), w);
		return;
	}
	let quick = w.tier == "quick";
	let fams = ast::families(quick);
	let fi = spec["family"].as_u64().unwrap() as usize;
	let lo = spec["lo"].as_u64().unwrap() as usize;
	let hi = spec["hi"].as_u64().unwrap() as usize;
	let (fname, mods) = &fams[fi];
	match spec["layouts"].as_str().unwrap()
	{
		"global" =>
		{
			for i in lo..hi
			{
				let tokens = grammar::module_tokens(&mods[i]);
				for layout in [Layout::Canonical, Layout::OneLine, Layout::TokenPerLine]
				{
					let text = grammar::render_tokens(&tokens, layout);
					w.result.transitions += 1;
					judge(&mods[i], &text, fname, || json!({"family": fi, "index": i, "quick": quick, "layout": format!("{layout:?}"), "text": text}), w);
				}
			}
		}
		_ =>
		{
			let stride = spec["stride"].as_u64().unwrap() as usize;
			let mut i = lo;
			while i < hi
			{
				let tokens = grammar::module_tokens(&mods[i]);
				for gap in 0..tokens.len().saturating_sub(1)
				{
					for filler in grammar::GAP_FILLERS
					{
						let layout = Layout::Deviation(gap, filler);
						let text = grammar::render_tokens(&tokens, layout);
						w.result.transitions += 1;
						judge(&mods[i], &text, fname, || json!({"family": fi, "index": i, "quick": quick, "layout": format!("{layout:?}"), "text": text}), w);
					}
				}
				i += stride;
			}
		}
	}
}

/// Path of a tree difference reduced to its last construct kinds (cause-level signature).
fn short_path(path: &str) -> String
{
	let parts: Vec<&str> = path.split('/').filter(|p| !matches!(*p, "Module" | "Body" | "Stmts" | "Then" | "Else" | "Value" | "Type")).collect();
	let n = parts.len();
	parts[n.saturating_sub(2)..].join("/")
}

fn blank_import_flags(n: &Node) -> Node
{
	let mut n = n.clone();
	for c in n.children.iter_mut()
	{
		if c.kind == "Import"
		{
			for a in c.attrs.iter_mut()
			{
				if a.0 == "flags"
				{
					a.1 = String::new();
				}
			}
		}
	}
	n
}

pub fn judge(module: &[Decl], text: &str, family: &str, desc: impl Fn() -> Value, w: &mut WorkerCtx)
{
	w.result.states += 1;
	let size = text.len() as u64;
	let d = desc().to_string().into_bytes();
	let expected = grammar::module_node(module);
	let outcome = w.run_case(&d, || {
		let front = delta_front_mode(text.as_bytes(), 1);
		let alpha = trees::alpha_parse(text);
		(front, alpha.tree, alpha.error_codes)
	});
	match outcome
	{
		CaseOutcome::Done((front, alpha_tree, alpha_codes)) =>
		{
			w.result.validated += 1;
			let mut ok = true;
			if !front.accepted()
			{
				ok = false;
				let codes = front.codes();
				w.result.violation(&format!("delta-rejects-valid-module:E{}:{family}", codes.first().copied().unwrap_or(0)), size, &desc, || {
					format!("the second-generation front end rejects a syntactically valid module with {:?} at {:?}", codes, front.diagnostics.first())
				});
			}
			else
			{
				let xml = front.xml.clone().unwrap_or_default();
				match trees::delta_module(&xml)
				{
					Err(e) =>
					{
						ok = false;
						let sig: String = crate::pool::normalise_message(&e).chars().take(60).collect();
						w.result.violation(&format!("xml:{sig}"), size, &desc, || format!("XML dump is not well formed or not mappable: {e}\n{}", xml.join("\n")));
					}
					Ok(tree) =>
					{
						if let Some((path, want, got)) = expected.first_difference(&tree)
						{
							ok = false;
							w.result.violation(&format!("delta-tree-differs:{}", short_path(&path)), size, &desc, || {
								format!("at {path}: model has {want}, second-generation tree has {got}\nmodel: {}\ndelta: {}", expected.show(), tree.show())
							});
						}
					}
				}
			}
			match alpha_tree
			{
				Ok(tree) =>
				{
					let want = blank_import_flags(&expected);
					if let Some((path, a, b)) = want.first_difference(&tree)
					{
						ok = false;
						w.result.violation(&format!("alpha-tree-differs:{}", short_path(&path)), size, &desc, || {
							format!("at {path}: model has {a}, first-generation tree has {b}\nmodel: {}\nalpha: {}", want.show(), tree.show())
						});
					}
				}
				Err(_) =>
				{
					// Ill-formed types (E350) are rejected by the first generation while parsing; that
					// is a semantic rule outside the syntax the model describes.
					if alpha_codes.iter().all(|c| *c == 350 || *c == 0)
					{
						w.result.count("first generation rejects the type as ill-formed (E350), not compared", 1);
					}
					else
					{
						ok = false;
						w.result.violation(&format!("alpha-rejects-valid-module:E{}:{family}", alpha_codes.iter().find(|c| **c != 0 && **c != 350).unwrap_or(&0)), size, &desc, || {
							format!("the first-generation parser rejects a module of the model grammar with {:?}", alpha_codes)
						});
					}
				}
			}
			w.result.outcome(&format!("{family}:{}", if ok { "faithful" } else { "MISMATCH" }));
			if ok
			{
				w.result.sample(|| json!({"text": text, "tree": expected.show()}));
			}
		}
		CaseOutcome::Panicked { site, message } =>
		{
			w.result.outcome("panicked");
			let sig = format!("panic@{}", crate::util::site_signature(&site, &message));
			w.result.violation(&sig, size, &desc, || format!("panic at {site}: {message}"));
		}
		CaseOutcome::Crashed { .. } =>
		{}
	}
}

fn judge_corpus(path: &str, w: &mut WorkerCtx)
{
	let Ok(bytes) = std::fs::read(path)
	else
	{
		return;
	};
	let Ok(text) = String::from_utf8(bytes)
	else
	{
		w.result.outcome("corpus:not-utf8");
		return;
	};
	w.result.states += 1;
	let desc = || json!({"corpus_file": path});
	let d = desc().to_string().into_bytes();
	let outcome = w.run_case(&d, || {
		let front = delta_front_mode(text.as_bytes(), 1);
		let alpha = trees::alpha_parse(&text);
		(front, alpha.tree, alpha.error_codes)
	});
	let size = text.len() as u64;
	match outcome
	{
		CaseOutcome::Done((front, alpha_tree, _codes)) =>
		{
			w.result.validated += 1;
			// The one documented difference: the second generation reserves `return`, so a file
			// that uses `return` as an ordinary label inside a nested block is outside its syntax.
			if let Ok(t) = &alpha_tree
			{
				if has_nested_return_label(t, 0)
				{
					w.result.outcome("corpus:uses-return-as-ordinary-label(not compared)");
					return;
				}
			}
			match (front.accepted(), alpha_tree)
			{
				(true, Ok(atree)) =>
				{
					let xml = front.xml.clone().unwrap_or_default();
					match trees::delta_module(&xml)
					{
						Err(e) =>
						{
							let sig: String = crate::pool::normalise_message(&e).chars().take(60).collect();
							w.result.outcome("corpus:xml-MISMATCH");
							w.result.violation(&format!("xml:{sig}"), size, &desc, || format!("{path}: XML dump is not well formed or not mappable: {e}"));
						}
						Ok(dtree) =>
						{
							let dtree = blank_import_flags(&dtree);
							if let Some((p, a, b)) = atree.first_difference(&dtree)
							{
								w.result.outcome("corpus:trees-MISMATCH");
								w.result.violation(&format!("corpus-trees-differ:{}", short_path(&p)), size, &desc, || {
									format!("{path}: at {p}: first generation has {a}, second generation has {b}")
								});
							}
							else
							{
								w.result.outcome("corpus:both-accept-same-tree");
							}
						}
					}
				}
				(true, Err(_)) => w.result.outcome("corpus:only-second-generation-accepts"),
				(false, Ok(_)) =>
				{
					w.result.outcome("corpus:only-first-generation-accepts");
					let codes = front.codes();
					let name = path.rsplit('/').next().unwrap_or(path).to_string();
					w.result.violation(&format!("delta-rejects-corpus-file:E{}:{name}", codes.first().copied().unwrap_or(0)), size, &desc, || {
						format!("{path} parses without error in the first generation but the second generation reports {:?} at {:?}", codes, front.diagnostics.first())
					});
				}
				(false, Err(_)) => w.result.outcome("corpus:both-reject"),
			}
		}
		CaseOutcome::Panicked { site, message } =>
		{
			w.result.outcome("panicked");
			let sig = format!("panic@{}", crate::util::site_signature(&site, &message));
			w.result.violation(&sig, size, &desc, || format!("{path}: panic at {site}: {message}"));
		}
		CaseOutcome::Crashed { .. } =>
		{}
	}
}

fn has_nested_return_label(n: &Node, block_depth: usize) -> bool
{
	if n.kind == "Label" && n.get("name") == Some("return")
	{
		return true;
	}
	let _ = block_depth;
	n.children.iter().any(|c| has_nested_return_label(c, block_depth))
}
