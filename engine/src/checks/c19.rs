//! C19 — the token fuzzer emits only valid lexemes.
//!
//! The real `fill_to_capacity_with_tokens` is driven by a scripted random number generator
//! (hook `penne::verif`): the explorer owns every draw. Exhaustive over sequences of consecutive
//! token kinds (with the separator draw between them both ways) at several positions, and over
//! single and double deviations of the spelling draws inside each token kind.

use crate::driver::Driver;
use crate::model::reflex::{self, RKind};
use crate::pool::{CaseOutcome, WorkerCtx};
use crate::subjects::lex::{alpha_tokens, delta_tokens};
use penne::verif::{HorizonReached, Tape};
use serde_json::{Value, json};
use std::collections::BTreeMap;

const HORIZON: usize = 6000;

pub struct Run
{
	pub output: String,
	pub diverged: bool,
	pub log: Vec<(Option<&'static str>, u64)>,
	pub error: Option<String>,
}

pub fn run_fuzzer(capacity: usize, token_raws: &[u64], forced: &BTreeMap<usize, u64>, offset: u64) -> Run
{
	let mut tape = Tape::default();
	tape.horizon = HORIZON;
	tape.baseline_offset = offset;
	tape.forced_by_label.insert("token", token_raws.to_vec());
	for (k, v) in forced
	{
		tape.forced_by_index.insert(*k, *v);
	}
	penne::verif::install_tape(tape);
	let mut buffer = String::with_capacity(capacity);
	let r = std::panic::catch_unwind(std::panic::AssertUnwindSafe(|| penne::delta::fuzzer::fill_to_capacity_with_tokens(95, &mut buffer, 0)));
	let tape = penne::verif::take_tape().unwrap_or_default();
	let (diverged, error) = match r
	{
		Ok(Ok(())) => (false, None),
		Ok(Err(e)) => (false, Some(e.to_string())),
		Err(payload) =>
		{
			if payload.is::<HorizonReached>()
			{
				(true, None)
			}
			else
			{
				std::panic::resume_unwind(payload)
			}
		}
	};
	Run { output: buffer, diverged, log: tape.log, error }
}

/// Class of the first token of a text (exact spelling for punctuation and keywords).
fn first_token_class(text: &str) -> Option<String>
{
	let toks = reflex::lex(text.as_bytes());
	let t = toks.first()?;
	Some(match &t.kind
	{
		RKind::Punct(p) => format!("'{p}'"),
		RKind::Keyword(k) => k.to_string(),
		RKind::ReturnWord => "return".into(),
		RKind::Type(_) => "TYPE".into(),
		RKind::Placeholder => "'_'".into(),
		RKind::Ident => "IDENT".into(),
		RKind::Builtin => "BUILTIN".into(),
		RKind::Dec(_) => "DEC".into(),
		RKind::Bit(_) => "BIT".into(),
		RKind::Suf(..) => "SUF".into(),
		RKind::Char(_) => "CHAR".into(),
		RKind::Bool(_) => "BOOL".into(),
		RKind::Str(_) => "STRING".into(),
		RKind::Err { code, .. } => format!("ERR{code}"),
	})
}

/// Discover one raw answer per token kind by sweeping the labelled token draw (the weighted
/// draw is monotone in the raw value).
pub fn discover_kinds() -> Vec<(String, u64)>
{
	let mut seen: Vec<(String, u64)> = Vec::new();
	let steps = 8192u64;
	for s in 0..steps
	{
		let raw = s.wrapping_mul(u64::MAX / steps);
		let run = run_fuzzer(48, &[raw], &BTreeMap::new(), 7);
		if let Some(c) = first_token_class(&run.output)
		{
			if !seen.iter().any(|(k, _)| *k == c)
			{
				seen.push((c, raw));
			}
		}
	}
	seen
}

pub fn value_grid() -> Vec<u64>
{
	let mut g = Vec::new();
	for j in 0..=16u64
	{
		g.push(j * (u64::MAX / 1024));
	}
	for k in 1..64u64
	{
		g.push(k * (u64::MAX / 64));
	}
	g.push(u64::MAX);
	g.push(u64::MAX - u64::MAX / 1024);
	g.push(1);
	g.push(1 << 32);
	g.sort();
	g.dedup();
	g
}

pub fn small_grid() -> Vec<u64>
{
	vec![0, u64::MAX / 1024, u64::MAX / 64, u64::MAX / 16, u64::MAX / 4, u64::MAX / 2, u64::MAX / 4 * 3, u64::MAX / 64 * 63, u64::MAX]
}

pub fn drive(d: &mut Driver)
{
	let quick = d.quick();
	// Discovery runs in a worker (the fuzzer is real code and could crash).
	let r = d.phase("discover token kinds", vec![json!({"mode": "discover"})]);
	let kinds: Vec<(String, u64)> = r.frontier.iter().map(|s| {
		let (k, v) = s.rsplit_once('=').unwrap();
		(k.to_string(), v.parse().unwrap())
	}).collect();
	d.bound("token kinds discovered (weighted kinds of the real generator)", json!(kinds.len()));
	d.extra.insert("token_kinds".into(), json!(kinds.iter().map(|k| k.0.clone()).collect::<Vec<_>>()));
	let n = kinds.len();
	let raws: Vec<u64> = kinds.iter().map(|k| k.1).collect();
	let kmax = if quick { 2 } else { 3 };
	d.bound("consecutive token kinds forced", json!(kmax));
	d.bound("positions (ordinal of the first forced token)", json!(if quick { vec![0, 1, 5, 17] } else { vec![0, 1, 2, 5, 9, 17, 33] }));
	d.bound("capacities", json!([64, 256, 1096]));
	d.bound("draw horizon per run", json!(HORIZON));
	d.bound("value grid for single deviations", json!(value_grid().len()));
	d.bound("value grid for double deviations", json!(small_grid().len()));
	// Sequences.
	let positions: Vec<usize> = if quick { vec![0, 1, 5, 17] } else { vec![0, 1, 2, 5, 9, 17, 33] };
	let mut jobs = Vec::new();
	for a in 0..n
	{
		jobs.push(json!({"mode": "seq", "raws": raws, "first": a, "k": kmax, "positions": positions}));
	}
	d.phase("token kind sequences x separator draws x positions", jobs);
	// Deviations inside each token kind.
	let mut jobs = Vec::new();
	for a in 0..n
	{
		jobs.push(json!({"mode": "deviate", "raws": raws, "kind": a, "double": true}));
	}
	d.phase("spelling draw deviations (bound 1, and bound 2 within a token)", jobs);
	// Separator scheduling draws (newline and comment positions) and long runs.
	let mut jobs = Vec::new();
	for cap in [64usize, 256, 1096]
	{
		for offset in 0..(if quick { 16u64 } else { 128 })
		{
			jobs.push(json!({"mode": "schedule", "capacity": cap, "offset": offset}));
		}
	}
	d.phase("newline/comment scheduling deviations and baselines at each capacity", jobs);
	// Sampling supplement (labelled, not counted as states): the real thread RNG at CLI sizes.
	let r = d.pool.run(vec![json!({"mode": "supplement", "runs": if quick { 6 } else { 60 }})]);
	let mut supp = r.clone();
	supp.frontier.clear();
	d.extra.insert("sampling_supplement".into(), json!({"note": "real thread RNG, sizes 1/2/64 KB as `penne fuzz tokens --kb n`; sampling, not part of the exhaustive verdict", "runs": r.counters.get("supplement_runs"), "violating_signatures": r.violations.keys().collect::<Vec<_>>()}));
	for (k, v) in r.violations
	{
		d.total.violations.insert(k.clone(), v);
		*d.total.violation_counts.entry(k).or_insert(0) += 1;
	}
	d.assume("the scripted RNG answers every draw not forced by the explorer from a low-discrepancy baseline; runs that reach the draw horizon are recorded as diverged and not judged");
	d.assume("joint deviations in more than three adjacent tokens, raw values between grid points, and tapes beyond the horizon are not explored");
}

pub fn work(spec: &Value, w: &mut WorkerCtx)
{
	if let Some(case) = spec.get("replay")
	{
		let cap = case["capacity"].as_u64().unwrap_or(64) as usize;
		let token_raws: Vec<u64> = case["token_raws"].as_array().map(|a| a.iter().map(|x| x.as_u64().unwrap()).collect()).unwrap_or_default();
		let mut forced = BTreeMap::new();
		if let Some(o) = case["forced"].as_object()
		{
			for (k, v) in o
			{
				forced.insert(k.parse().unwrap(), v.as_u64().unwrap());
			}
		}
		let offset = case["offset"].as_u64().unwrap_or(0);
		judge(cap, &token_raws, &forced, offset, "replay", w);
		return;
	}
	match spec["mode"].as_str().unwrap()
	{
		"discover" =>
		{
			w.result.states += 1;
			let outcome = w.run_case(b"{\"mode\":\"discover\"}", discover_kinds);
			if let CaseOutcome::Done(kinds) = outcome
			{
				for (k, v) in kinds
				{
					w.result.frontier.push(format!("{k}={v}"));
				}
			}
		}
		"seq" =>
		{
			let raws: Vec<u64> = spec["raws"].as_array().unwrap().iter().map(|x| x.as_u64().unwrap()).collect();
			let first = spec["first"].as_u64().unwrap() as usize;
			let k = spec["k"].as_u64().unwrap() as usize;
			let positions: Vec<usize> = spec["positions"].as_array().unwrap().iter().map(|x| x.as_u64().unwrap() as usize).collect();
			let n = raws.len();
			// all sequences of length 1..=k starting with `first`
			let mut seqs: Vec<Vec<usize>> = vec![vec![first]];
			let mut level = vec![vec![first]];
			for _ in 1..k
			{
				let mut next = Vec::new();
				for s in &level
				{
					for b in 0..n
					{
						let mut t = s.clone();
						t.push(b);
						next.push(t);
					}
				}
				seqs.extend(next.iter().cloned());
				level = next;
			}
			for seq in &seqs
			{
				for &pos in &positions
				{
					if seq.len() == 3 && pos > 1
					{
						continue;
					}
					// Baseline answers for the tokens before `pos` come from the baseline kinds.
					let cap = if pos >= 9 { 256 } else { 64 };
					let base = run_fuzzer(cap, &[], &BTreeMap::new(), 3);
					let mut token_raws: Vec<u64> = base.log.iter().filter(|(l, _)| l.is_some()).map(|(_, v)| *v).take(pos).collect();
					if token_raws.len() < pos
					{
						continue;
					}
					for s in seq
					{
						token_raws.push(raws[*s]);
					}
					// First run: find the separator draws before the 2nd.. forced tokens.
					let probe = run_fuzzer(cap, &token_raws, &BTreeMap::new(), 3);
					let token_draw_indices: Vec<usize> = probe.log.iter().enumerate().filter(|(_, (l, _))| l.is_some()).map(|(i, _)| i).collect();
					let mut sep_indices = Vec::new();
					for j in 1..seq.len()
					{
						if let Some(&ti) = token_draw_indices.get(pos + j)
						{
							if ti > 0
							{
								sep_indices.push(ti - 1);
							}
						}
					}
					let combos = 1usize << sep_indices.len();
					for c in 0..combos
					{
						let mut forced = BTreeMap::new();
						for (b, si) in sep_indices.iter().enumerate()
						{
							forced.insert(*si, if (c >> b) & 1 == 0 { u64::MAX } else { 0 });
						}
						w.result.transitions += 1;
						judge(cap, &token_raws, &forced, 3, "sequence", w);
					}
				}
			}
		}
		"deviate" =>
		{
			let raws: Vec<u64> = spec["raws"].as_array().unwrap().iter().map(|x| x.as_u64().unwrap()).collect();
			let kind = spec["kind"].as_u64().unwrap() as usize;
			for (pos, cap) in [(0usize, 64usize), (3, 64)]
			{
				let base = run_fuzzer(cap, &[], &BTreeMap::new(), 5);
				let mut token_raws: Vec<u64> = base.log.iter().filter(|(l, _)| l.is_some()).map(|(_, v)| *v).take(pos).collect();
				token_raws.push(raws[kind]);
				let probe = run_fuzzer(cap, &token_raws, &BTreeMap::new(), 5);
				let token_draw_indices: Vec<usize> = probe.log.iter().enumerate().filter(|(_, (l, _))| l.is_some()).map(|(i, _)| i).collect();
				let Some(&start) = token_draw_indices.get(pos)
				else
				{
					continue;
				};
				let end = token_draw_indices.get(pos + 1).copied().unwrap_or(probe.log.len());
				// Draws start+1 .. end-1 belong to the spelling of this token (and the separator
				// decision of the next iteration).
				let inner: Vec<usize> = (start + 1..end).collect();
				w.result.max_counter("max_spelling_draws_in_one_token", inner.len() as u64);
				let grid = value_grid();
				// The number of inner draws can change with a deviation (e.g. a longer string):
				// re-probe after each deviation is not needed for bound 1, since only draw i changes
				// and later draws keep their baseline answers.
				for &i in &inner
				{
					for &v in &grid
					{
						let mut forced = BTreeMap::new();
						forced.insert(i, v);
						w.result.transitions += 1;
						judge(cap, &token_raws, &forced, 5, "deviation1", w);
					}
				}
				if pos == 0
				{
					let sg = small_grid();
					let lim = inner.len().min(8);
					for a in 0..lim
					{
						for b in (a + 1)..lim
						{
							for &va in &sg
							{
								for &vb in &sg
								{
									let mut forced = BTreeMap::new();
									forced.insert(inner[a], va);
									forced.insert(inner[b], vb);
									w.result.transitions += 1;
									judge(cap, &token_raws, &forced, 5, "deviation2", w);
								}
							}
						}
					}
				}
			}
		}
		"schedule" =>
		{
			let cap = spec["capacity"].as_u64().unwrap() as usize;
			let offset = spec["offset"].as_u64().unwrap();
			w.result.transitions += 1;
			judge(cap, &[], &BTreeMap::new(), offset, "baseline", w);
			// Draws 0 and 1 schedule the first newline and the first comment.
			for &v in &small_grid()
			{
				for &v2 in &[0u64, u64::MAX / 2, u64::MAX]
				{
					let mut forced = BTreeMap::new();
					forced.insert(0, v);
					forced.insert(1, v2);
					w.result.transitions += 1;
					judge(cap, &[], &forced, offset, "schedule", w);
				}
			}
		}
		"supplement" =>
		{
			let runs = spec["runs"].as_u64().unwrap();
			for i in 0..runs
			{
				let kb = [1usize, 2, 64][(i % 3) as usize];
				let outcome = w.run_case(b"{\"mode\":\"supplement\"}", || {
					let mut buffer = String::with_capacity(kb * 1096);
					let _ = penne::delta::fuzzer::fill_to_capacity_with_tokens(95, &mut buffer, 0);
					buffer
				});
				w.result.count("supplement_runs", 1);
				if let CaseOutcome::Done(text) = outcome
				{
					if text.len() < kb * 1024
					{
						w.result.violation("supplement:too-short", kb as u64, || json!({"kb": kb}), || format!("{} bytes for {kb} KB", text.len()));
					}
					if let Some(sig) = lexical_problem(&text)
					{
						w.result.violation(&format!("supplement:{sig}"), kb as u64, || json!({"kb": kb, "text_around": sig}), || sig.clone());
					}
				}
			}
		}
		other => panic!("unknown mode {other}"),
	}
}

/// Returns a signature when either lexer reports an error on the text.
fn lexical_problem(text: &str) -> Option<String>
{
	let (a, _) = alpha_tokens(text);
	let d = delta_tokens(text.as_bytes());
	let aerr = a.iter().find(|t| matches!(t.kind, RKind::Err { .. }));
	if let Some(t) = aerr
	{
		let lexeme = lexeme_class(text, t.start);
		return Some(format!("lexical-error:first-generation:{}:{}", kind_code(&t.kind), lexeme));
	}
	if let Some(code) = d.error_codes.first()
	{
		let t = d.tokens.iter().find(|t| matches!(t.kind, RKind::Err { .. }));
		let lexeme = t.map(|t| lexeme_class(text, t.start)).unwrap_or_default();
		return Some(format!("lexical-error:second-generation:E{code}:{lexeme}"));
	}
	None
}

fn kind_code(k: &RKind) -> String
{
	match k
	{
		RKind::Err { code, .. } => format!("E{code}"),
		_ => "?".into(),
	}
}

/// The kind of lexeme (per the reference lexer) that contains the byte offset.
fn lexeme_class(text: &str, at: usize) -> String
{
	let toks = reflex::lex(text.as_bytes());
	for t in toks
	{
		if t.start <= at && at <= t.end
		{
			let first = text.as_bytes().get(t.start).copied().unwrap_or(b' ');
			return match first
			{
				b'"' => "in-string".into(),
				b'\'' => "in-char".into(),
				b'0'..=b'9' => "in-number".into(),
				c if c.is_ascii_alphabetic() || c == b'_' => "in-word".into(),
				_ => "in-punctuation".into(),
			};
		}
	}
	"between-lexemes".into()
}

fn judge(cap: usize, token_raws: &[u64], forced: &BTreeMap<usize, u64>, offset: u64, family: &str, w: &mut WorkerCtx)
{
	w.result.states += 1;
	let desc = || {
		let f: serde_json::Map<String, Value> = forced.iter().map(|(k, v)| (k.to_string(), json!(v))).collect();
		json!({"capacity": cap, "token_raws": token_raws, "forced": f, "offset": offset})
	};
	let d = desc().to_string().into_bytes();
	let size = (token_raws.len() + forced.len()) as u64;
	let outcome = w.run_case(&d, || run_fuzzer(cap, token_raws, forced, offset));
	match outcome
	{
		CaseOutcome::Done(run) =>
		{
			if run.diverged
			{
				w.result.outcome(&format!("{family}:diverged (horizon), not judged"));
				return;
			}
			w.result.validated += 1;
			let mut ok = true;
			if let Some(e) = &run.error
			{
				ok = false;
				w.result.violation("fuzzer-returned-error", size, &desc, || e.clone());
			}
			if run.output.len() * 100 < 95 * cap
			{
				ok = false;
				w.result.violation("output-too-short", size, &desc, || format!("{} bytes for capacity {cap}", run.output.len()));
			}
			if let Some(sig) = lexical_problem(&run.output)
			{
				ok = false;
				let out = run.output.clone();
				w.result.violation(&sig, size, &desc, || format!("{sig}\noutput: {out:?}"));
			}
			// Determinism of the tape replay (every 64th judged run).
			if w.result.validated % 64 == 0
			{
				let again = run_fuzzer(cap, token_raws, forced, offset);
				if again.output != run.output
				{
					w.result.violation("machinery:tape-replay-not-deterministic", size, &desc, || "same tape, different output".to_string());
				}
			}
			w.result.outcome(&format!("{family}:{}", if ok { "valid lexemes" } else { "INVALID" }));
			if ok && family == "sequence"
			{
				w.result.sample(|| json!({"capacity": cap, "draws": run.log.len(), "output": run.output}));
			}
		}
		CaseOutcome::Panicked { site, message } =>
		{
			let _ = penne::verif::take_tape();
			w.result.outcome("panicked");
			let sig = format!("panic@{}", crate::util::site_signature(&site, &message));
			w.result.violation(&sig, size, &desc, || format!("panic at {site}: {message}"));
		}
		CaseOutcome::Crashed { .. } =>
		{}
	}
}
