#!/bin/sh
# run_all.sh [quick|thorough]: every registered check in turn on /repo's working tree; one summary line per check.
# Exit status: 0 if every check exited 0, else 1. (Each check still writes its own evidence file and VIOLATION lines.)
cd /verif || exit 2
TIER="${1:-quick}"; bad=0
mkdir -p target/run_all
for i in 01 02 03 04 05 06 07 08 09 10 11 12 13 14 15 16 17 18 19 20; do
  s=$(date +%s)
  ./check C$i "$TIER" > "target/run_all/C$i.$TIER.log" 2>&1; rc=$?
  [ $rc = 0 ] || bad=1
  echo "C$i rc=$rc known=$(grep -c '^KNOWN-FINDING' target/run_all/C$i.$TIER.log) violations=$(grep -c '^VIOLATION' target/run_all/C$i.$TIER.log) $(( $(date +%s)-s ))s $(grep -o 'states=[0-9]* transitions=[0-9]*' target/run_all/C$i.$TIER.log | tail -1)"
done
exit $bad
