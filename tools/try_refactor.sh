#!/bin/sh
# try_refactor.sh <worktree> <name>: apply a behaviour-preserving change from a scratch worktree to /repo,
# run every quick check (none may report a violation), restore /repo.
WT="$1"; NAME="$2"
OUT=/verif/seeded/refactors/$NAME; mkdir -p "$OUT"
(cd "$WT" && git diff -- src docs > "$OUT/patch.diff"); cp "$WT/REFACTOR.md" "$WT/CHANGE.md" "$OUT/" 2>/dev/null
cd /repo || exit 2
[ -z "$(git status --porcelain -- src docs)" ] || { echo "/repo/src is dirty; refusing"; exit 2; }
git apply "$OUT/patch.diff" || { echo "patch does not apply"; exit 2; }
trap 'git -C /repo checkout -- . ' EXIT
cd /verif
: > "$OUT/quick_results.txt"
for id in C01 C02 C03 C04 C05 C06 C07 C08 C09 C10 C11 C12 C13 C14 C15 C16 C17 C18 C19 C20; do
  ./check $id quick > "$OUT/check_$id.log" 2>&1; rc=$?
  echo "$id rc=$rc $(grep -E '^    signature:' "$OUT/check_$id.log" | head -3 | tr '\n' ' ')" >> "$OUT/quick_results.txt"
done
cat "$OUT/quick_results.txt" | awk '$2!="rc=0"'
echo "refactor=$NAME alarms=$(awk '$2!="rc=0"' "$OUT/quick_results.txt" | wc -l)"
