#!/bin/sh
# Run /repo's own test suite with the verification guard OFF and compare with the pinned baseline:
# every test in BASELINE.json's stable_pass must pass.
cd "${REPO_DIR:-/repo}" || exit 2
out=$(mktemp /var/tmp/baseline.XXXXXX)
CARGO_NET_OFFLINE=true cargo test --workspace --no-fail-fast --offline >"$out" 2>&1
python3 - "$out" <<'PY'
import json,re,sys
out=open(sys.argv[1]).read()
base=json.load(open('/root/.vp/BASELINE.json'))
# map "test name ... ok" lines per test binary
passed=set(); failed=set()
cur=None
for line in out.splitlines():
    m=re.match(r'\s+Running (?:unittests )?(\S+)',line)
    if m:
        name=m.group(1)
        name=re.sub(r'^tests/','',name); name=re.sub(r'\.rs$','',name)
        name=re.sub(r'^src/','',name)
        cur=name
    m=re.match(r'test (\S+) \.\.\. (\w+)',line)
    if m:
        full=f"penne::{cur}::{m.group(1)}" if cur not in ('lib','main') else f"penne::{m.group(1)}"
        (passed if m.group(2)=='ok' else failed).add(full)
missing=[t for t in base['stable_pass'] if t not in passed]
print(f"baseline: {len(base['stable_pass'])} pinned, {len(passed)} passed now, {len(missing)} pinned tests not passing")
for t in missing: print("  NOT PASSING:",t)
sys.exit(1 if missing else 0)
PY
rc=$?
rm -f "$out"
exit $rc
