#!/usr/bin/env python3
"""Generate /verif/MANIFEST.json from the table below (kept in one place so that it stays valid)."""
import json, subprocess

HOOK_COMMITS = ["65e6ad7", "9428f14"]

# id -> (level text, level note, technique, design ref)
CHECKS = {
 "C14": ("Bounded exhaustive exploration: every string up to length 4 (quick) / 5 (thorough) over a 50-character lexical alphabet, every byte-extended string up to length 3/4 and every concatenation of up to 2/3 (core: 3/4) lexeme fragments is lexed by both real lexers and by an independent reference lexer; token kinds, payloads, suffix types, spans, lines, columns and error codes are compared three ways. This is the right level because the property is a for-all-strings claim about two hand-written scanners whose bugs live at 2-5 character inputs.",
         "Trusted: the reference lexer engine/src/model/reflex.rs (transcribed from docs/errors.md, docs/syntax.md and the repository's pinned tests). Not covered: strings above the bounds, characters outside the alphabets.",
         "explicit-state enumeration of all inputs up to a length bound, three-way differential against a reference model", "5 (C14), appendix A"),
 "C15": ("Bounded exhaustive exploration of the real second-generation lexer, parser, header extraction and XML dumps: all byte strings up to length 3 (quick) / 4 (thorough) over a 55-symbol byte-extended alphabet, all concatenations of up to 2/3 lexeme fragments, all token sequences up to length 3/4 over 62 token kinds, a viable-prefix breadth-first search (prefixes the parser has not yet rejected, extended by every token) to depth 6/8 from the empty input and 4/6 further tokens from 13 non-initial contexts, 34 density/nesting pumps at up to 10/16 repetition counts and 9/12 limit probes. Oracle: no panic, crash or timeout in any state; inputs with an illegal lexeme (reference lexer) are rejected; legal lexemes never produce lexical errors; resource limits give exactly E102/E103; well-formed pump programs are accepted.",
         "Trusted: reference lexer (model/reflex.rs); debug assertions, bounds and overflow checks of the checked build as the memory-safety monitor. Uninitialised in-bounds reads are outside what an enumerator can observe. Not covered: inputs beyond the bounds.",
         "explicit-state breadth-first enumeration of inputs (viable-prefix search over token sequences) with a totality invariant and a reference lexer", "5 (C15)"),
 "C16": ("Bounded exhaustive derivations of the model grammar: every leaf form, every operator x leaf form x operand slot, all grammar-conforming expression trees with up to 2 (quick) / 3 (thorough) operators, expressions in every context, all parent/slot/child statement combinations to nesting depth 2/3, all type terms to depth 2/3 in six positions, every declaration kind x flags x list shapes and pairs of declarations; each module in the canonical layout, two global layouts and every single-gap deviation (6 fillers); plus limit pumps and all 357 corpus files. Each text is parsed by both real parsers; the second generation's XML dump is checked for well-formedness, read back and compared with the model's own syntax tree, and the first generation's AST is compared with the same tree.",
         "Trusted: the model grammar and renderer (model/grammar.rs, spaces/ast.rs). Abstractions stated in DESIGN.md 3.4. Not covered: derivations beyond the operator/nesting bounds.",
         "exhaustive enumeration of grammar derivations up to a size bound, conformance of both implementations' trees against the generating model tree", "5 (C16), appendix B"),
 "C17": ("Bounded exhaustive exploration: every sequence of up to 4 (quick) / 5 (thorough) declarations over 9 declaration kinds (constant, function with empty / 3-statement / 200-statement body, function head, struct, word, opaque struct, import) x {private, pub, pub extern} - that is every pattern of private zones up to that length. For each module the real build_header() output is printed and compared line by line with the XML of the real parser run on the model's projection (pub declarations in order, pub cleared, bodies dropped), read back and compared with the projection's model tree, and the declaration count is checked.",
         "Trusted: grammar::project_header as the definition of the public interface; the XML printer (itself checked by C16). Not covered: modules with more declarations than the bound.",
         "explicit-state enumeration of all declaration sequences up to a length bound with a differential oracle (header vs. projection)", "5 (C17)"),
 "C20": ("Bounded exhaustive exploration: every module of the S-AST space (same derivations as C16: all leaf forms, operators, expression trees up to 2/3 operators, statement nestings, type terms in every position, declarations and declaration pairs) that contains no builtin call, and every corpus file the first generation parses without error, is parsed, rebuilt, parsed again and rebuilt again by the real code; the two trees are compared modulo locations, literal spelling and literal type suffix, and the two texts byte for byte. A secondary pass removes the rebuilder's deliberate annotations so that the known annotation findings do not hide other round-trip defects.",
         "Trusted: the model grammar that generates the inputs; the tree walker over the public AST. Not covered: derivations beyond the bounds; modules with builtin calls (excluded by the property).",
         "exhaustive enumeration of grammar derivations up to a size bound with a metamorphic round-trip oracle", "5 (C20)"),
 "C19": ("Exhaustive exploration of the real generator's choice tree under a scripted random number generator (hook penne::verif): one raw answer per token kind is discovered by sweeping the labelled token draw (60 kinds); every sequence of 2 (quick) / 3 (thorough) consecutive token kinds is forced at several ordinal positions with the separator decision before each forced token taken both ways; inside each token kind every spelling draw is deviated to each of 84 grid answers (bound 1) and the first 8 draws pairwise over a 9-value grid (bound 2); newline/comment scheduling draws are deviated at three capacities. Every output must be at least 95% of the capacity and both real lexers must report no lexical error; tape replay determinism is re-checked on every 64th run. A small labelled sampling supplement runs the real thread RNG at CLI sizes.",
         "Trusted: the RNG seam (src/verif.rs) forwards to the real generator when no tape is installed. Raw answers between grid points, joint deviations across more than three adjacent tokens and tapes beyond the 6000-draw horizon are not explored.",
         "stateless exploration of the generator's choice tree with a deviation bound, under a scripted RNG", "5 (C19)"),
 "C04": ("Bounded exhaustive exploration: every function body (up to renaming of the two labels) built from {A:, B:, goto A, goto B, if c goto A, if c goto B} and nested blocks with at most 6 statements and nesting depth 3 (quick; thorough: 7 statements, and 8 at depth 2), in three variants (void function; function with a return value where B is the special label `return`; a second function holding labels of the same names), is compiled by the real first-generation pipeline and compared with the reference label-scoping model: accepted iff no illegal goto and no clash; E400 present iff an illegal goto exists and only on lines of illegal gotos; E420 present iff a clash exists and only on clashing labels; no other code.",
         "Trusted: model/labels.rs (transcribed from docs/features.md and docs/errors.md). Not covered: bodies beyond the size bound (the property text's random bodies up to 40 statements).",
         "explicit-state enumeration of all programs of a small scope with symmetry reduction, verdicts compared with a reference model", "5 (C04)"),
 "C06": ("Bounded exhaustive exploration: every statement tree over {block, if, if-else (branches range over every statement form, so naked assignments, naked loops, naked ifs in then- and else-position, else-if chains, labels as branches), goto, loop, assignment, label} with at most 6 (quick) / 7 (thorough) statements and nesting depth 4, inside a function whose last statement is the label all gotos name. The real first-generation pipeline's verdict, the codes E800/E801/E840 with the lines they point at, and for accepted programs the exact set of L1800 lint lines are compared with the reference placement model.",
         "Trusted: the placement model in checks/c06.rs (from docs/features.md, docs/errors.md). Violations inside a branch that is itself rejected with E840 need not be reported separately (masking). Not covered: trees beyond the size bound.",
         "explicit-state enumeration of all statement trees of a small scope, verdicts compared with a reference model", "5 (C06)"),
 "C05": ("Bounded exhaustive exploration: every function body (up to renaming of the two variables and the two labels) built from {var x, var y, use of x, use of y, A:, B:, goto A, goto B, if c goto A, if c goto B, loop} and nested blocks with at most 6 (quick) / 7 (thorough) statements and nesting depth 3, in three variants (plain; x also a parameter; x also a module constant), excluding bodies the C04 label model rejects. The real pipeline's verdict, the codes E402/E422/E424/E482 and the lines they point at are compared with the scoping model (lexical resolution, duplicate names, the documented prune rule); accepted bodies are additionally checked with an independent path analysis of the syntactic control-flow graph (no path from entry to a use avoids its declaration), and the IR generator's own LLVM verification runs on every accepted body.",
         "Trusted: model/vars.rs and model/labels.rs. A name with duplicate declarations is judged for E422 only. Not covered: bodies beyond the size bound.",
         "explicit-state enumeration of all programs of a small scope with symmetry reduction; reference model plus independent CFG reachability analysis", "5 (C05)"),
 "C07": ("Complete enumeration of the finite type matrix, identical in both tiers: 10 binary operators x 18 operand forms x 18 (13 primitive variables, an auto-dereferenced pointer, a pointer value, an array, a struct, a word), 6 comparisons x 18 x 18, 2 unary operators x operands, `as` x operands x 17 targets, 13 target types x 18 source operands in each of the contexts initialisation, assignment, argument, return, constant, array element, struct member and index, all call arities 0-3 x 0-4, and the access operations |x|, x[i], x.m on every operand: 7 300 one-function programs through the real pipeline. A well-typed cell must be accepted, an ill-typed cell rejected with a code of its documented set; cells the documentation leaves open are not judged. An invariant monitor walks the resolved tree of every accepted program (matrix and 143 corpus programs): operand types agree, operators are applied to their type class only, casts connect different primitive types, initialisers, returns and arguments have the declared types.",
         "Trusted: the rule table in checks/c07.rs and the monitor in subjects/monitor.rs (from docs/errors.md, docs/features.md and pinned samples). Unspecified cells: char8 arithmetic, ordering of bool/char8, !bool, !usize, char8<->integer casts other than u8, identity casts on non-primitive types.",
         "complete enumeration of a finite configuration matrix against a rule table, plus an invariant checked on every reached (accepted) state", "5 (C07)"),
 "C02": ("Bounded exhaustive exploration of the complete first-generation pipeline (lexer to IR generation and linking) in crash-isolated worker processes: all token sequences up to length 3 (quick) / 4 (thorough) over 63 token kinds; a viable-prefix breadth-first search (prefixes not yet rejected except for 'unexpected end of file', extended by every token) to depth 7/8 from the empty input and 4/5 further tokens from 15 non-initial contexts; all character strings up to length 3 and fragment pairs, as a file and as a function body; the complete single-fault neighbourhood (delete, duplicate, swap, replace by each of 24 tokens, at every position) of grammar-derived programs and of the corpus files; nesting pumps for 10 self-embedding productions at depths 1..256 on a release-profile worker; all 584 histories of up to three module kinds through one Compiler. Invariant in every state: success with IR for every module, or failure with at least one diagnostic; never a panic, LLVM abort, stack overflow, timeout, internal error or empty error list.",
         "Trusted: the per-case watchdog (20 s) as the termination bound. Not covered: inputs beyond the bounds (64 KiB texts, multi-fault neighbourhoods of large files).",
         "explicit-state breadth-first search over inputs (viable-prefix) plus exhaustive fault enumeration, with a safety invariant evaluated in every state", "5 (C02)"),
 "C03": ("Every accepted program of the bounded exhaustive spaces: the well-typed and unspecified cells of the complete type matrix, all label / variable / placement bodies up to 3 (quick) / 5 (thorough) statements, all declaration shapes (flags x head/body x return/void x parameter lists x main/other, with callers), all orders of the members of a structure literal with constant, variable and shorthand values in constant, local and argument position, programs that cannot be executed (undefined behaviour, non-termination, no main, opaque structs), natively and for the wasm target, all 512 histories of three module kinds, and the corpus. For each, the printed IR of every module and of the linked program is fed to llvm-as-14 and opt-14 -passes=verify as separate processes (identical texts once per worker), and a linkage model is checked: every function the source defines is `define`d, main and pub functions are not private/internal.",
         "Trusted: llvm-as-14 / opt-14 (LLVM 14.0.6). In the quick tier opt -passes=verify runs on a quarter of the distinct texts (llvm-as, which also verifies, on all). The wasm builds keep the host target triple with a wasm data layout: recorded as a soft observation here (the property does not mention the triple), see C18.",
         "exhaustive enumeration of accepted programs of a small scope, each state judged by an external reference (LLVM's assembler and verifier)", "5 (C03)"),
 "C11": ("Bounded exhaustive exploration: (a) every labelled dependency digraph (self-loops included) on 1-3 containers (quick; thorough: 4), every assignment of {constant, structure} to the containers, edges realised as constant-in-initialiser, named array length, member of structure type, size-of in a constant, and (up to 3 containers) pointer-typed members that must not count, under EVERY permutation of the declarations: acyclic <=> accepted, a cycle is rejected with E413/E415/E416, and all permutations give the same verdict; (b) every pair of declaration kinds with equal names, duplicate members and parameters (E421, E423-E426); (c) 32 type terms x 9 positions (variable, constant, parameter, struct member, word member, return type, extern parameter, extern return type, size-of operand) in four declaration orders against the documented legality rules (E350-E359), undocumented cells judged for order-independence and crashes only; (d) every word8..word128 with up to three members from 12 member types against the layout size (E380 when larger than declared).",
         "Trusted: the graph model and the documented legality table in checks/c11.rs. Which of the three cycle codes is reported, and whether additional codes accompany it, is not judged (the property asks for rejection with a cycle code). Execution-level order independence (identical behaviour) is covered for the programs of C01/C12 only.",
         "explicit-state enumeration of all dependency graphs of a small scope x all permutations (metamorphic order-independence oracle) plus a graph-cycle reference model", "5 (C11)"),
 "C09": ("Complete enumeration of the finite literal matrix, identical in both tiers: 11 integer types x {declared type with unsuffixed literal, untyped declaration with suffixed literal} x 18 boundary magnitudes (0, 1, max, max+1, |min|, |min|+1, 2^32-1..2^32+1, 2^64-1, 2^64, 2^127-1, 2^127, 2^128-1, ...) x 12 spellings (decimal, hex lower/upper, binary, underscores in every position, leading zeros) x 3 signs = 8 000 literals, each compiled and executed (lli), its printed run-time value compared with arbitrary-precision arithmetic and the truncation lint L1142 required exactly for out-of-range literals; 60 over-long or mis-suffixed literals against E140/E141; every byte value as \\xHH, every printable ASCII character raw, every simple escape, unicode escapes at the UTF-8 length boundaries and raw multi-byte characters in string and character position, adjacent-literal concatenation across 5 separators, with the bytes seen at run time compared with the reference decoding; 100 malformed quoted literals against E110/E160-E163.",
         "Trusted: lli-14 and print!/format! for observing values (C01 cross-checks the printing of every type); the reference decoder model/reflex.rs. Whether a minus before a hexadecimal/binary minimum belongs to the literal is undocumented and not judged for the lint.",
         "complete enumeration of a finite input matrix, each case executed and compared with a reference model", "5 (C09)"),
}

NOT_YET = {}

def main():
    props = [json.loads(l) for l in open('/verif/properties.jsonl')]
    checks = []
    na = []
    for p in props:
        pid = p['id']
        if pid in CHECKS:
            text, note, tech, ref = CHECKS[pid]
            checks.append({
                "property_id": pid,
                "quick_cmd": f"./check {pid} quick",
                "thorough_cmd": f"./check {pid} thorough",
                "evidence_file": f"evidence/{pid}.json",
                "replay_cmd_template": "./check replay {path}",
                "engine": "pvmc",
                "level_claimed": {"category": "model_checking", "text": text, "design_ref": ref},
                "level_note": note,
                "technique": tech,
            })
        else:
            na.append({"property_id": pid, "reason": NOT_YET.get(pid, "check not built yet in this round (planned, see DESIGN.md section 11); nothing is claimed for it")})
    m = {
        "version": 1,
        "setup_cmd": "./setup.sh",
        "hooks": {
            "guard": "penne_verif",
            "enable": "RUSTFLAGS=\"--cfg penne_verif --check-cfg cfg(penne_verif)\" (set by /verif/build.sh; the engine depends on /repo by path with features alpha,llvm-sys)",
            "baseline_off_cmd": "/verif/tools/baseline_off.sh",
            "source_commits": HOOK_COMMITS,
            "add_only": True,
        },
        "engines": [{
            "name": "pvmc",
            "path": "engine",
            "serves_properties": sorted(CHECKS.keys()),
            "kind_free_text": "own breadth-first/product enumerator over input spaces with 16 crash-isolated worker processes; every enumerated case is run through the real penne code and compared with reference models written in Rust",
        }],
        "checks": checks,
        "not_applicable": na,
        "notes": "All checks are bounded exhaustive enumerations (model checking family); see DESIGN.md. Exit 0 = held on everything explored, 1 = VIOLATION lines, 2 = machinery failure.",
    }
    json.dump(m, open('/verif/MANIFEST.json', 'w'), indent=1)
    print("MANIFEST.json written:", len(checks), "checks,", len(na), "not claimed")

main()
