#!/bin/sh
# retry_refactor.sh <name>...: re-apply recorded behaviour-preserving / permitted changes (seeded/refactors/<name>/patch.diff)
# to the current /repo, run every quick check (none may report a violation), restore /repo. Results in
# seeded/refactors/<name>/quick_results_retry.txt. Development helper; never run by a registered check.
for NAME in "$@"; do
  OUT=/verif/seeded/refactors/$NAME
  cd /repo || exit 2
  [ -z "$(git status --porcelain -- src docs)" ] || { echo "/repo is dirty; refusing"; exit 2; }
  if ! git apply --3way "$OUT/patch.diff" 2>/dev/null; then git checkout -q -- . ; git reset -q; echo "refactor=$NAME does not apply to the current tree (skipped)"; continue; fi
  git reset -q
  cd /verif
  : > "$OUT/quick_results_retry.txt"
  for id in C01 C02 C03 C04 C05 C06 C07 C08 C09 C10 C11 C12 C13 C14 C15 C16 C17 C18 C19 C20; do
    ./check $id quick > "$OUT/retry_$id.log" 2>&1; rc=$?
    echo "$id rc=$rc $(grep -E '^    signature:' "$OUT/retry_$id.log" | head -3 | tr '\n' ' ')" >> "$OUT/quick_results_retry.txt"
    [ $rc = 0 ] && rm -f "$OUT/retry_$id.log"
  done
  git -C /repo checkout -q -- .
  awk '$2!="rc=0"' "$OUT/quick_results_retry.txt"
  echo "refactor=$NAME alarms=$(awk '$2!="rc=0"' "$OUT/quick_results_retry.txt" | wc -l)"
done
