#!/bin/sh
# try_seed.sh <seed-dir-name> <check-id> [tier]: apply a seeded change to /repo, run the check, undo the change.
SEED="$1"; ID="$2"; TIER="${3:-quick}"
cd /repo || exit 2
[ -z "$(git status --porcelain -- src)" ] || { echo "/repo/src is dirty; refusing"; exit 2; }
git apply "/verif/seeded/$SEED/patch.diff" || { echo "patch does not apply"; exit 2; }
trap 'git -C /repo checkout -- . ' EXIT
cd /verif && ./check "$ID" "$TIER" > "/verif/seeded/$SEED/check_${ID}_${TIER}.log" 2>&1
rc=$?
grep -E "^VIOLATION|^KNOWN" "/verif/seeded/$SEED/check_${ID}_${TIER}.log" | head -5
grep -E "signature:" "/verif/seeded/$SEED/check_${ID}_${TIER}.log" | head -5
echo "seed=$SEED check=$ID tier=$TIER exit=$rc => $( [ $rc = 1 ] && echo DETECTED || echo MISSED )"
