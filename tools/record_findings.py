#!/usr/bin/env python3
"""Development helper (never run by a check): append the violations of the last run of <ID>
(files under /verif/replays/<ID>/) to /verif/known_findings.json after review."""
import json, sys, glob
pid = sys.argv[1]
only = sys.argv[2:]  # optional substrings selecting signatures
k = json.load(open('/verif/known_findings.json'))
have = {(f['property'], f['signature']) for f in k['findings']}
for path in sorted(glob.glob(f'/verif/replays/{pid}/*.json')):
    d = json.load(open(path))
    sig = d['signature']
    if only and not any(o in sig for o in only):
        continue
    if (pid, sig) in have:
        continue
    case = d['case']
    witness = case.get('text') or case.get('corpus_file') or json.dumps(case)
    witness = witness.strip().replace('\n', ' ')[:400]
    what = d['detail'].split('\n')[0][:300]
    k['findings'].append({"property": pid, "signature": sig, "what": what, "witness": witness})
    print("added", sig)
json.dump(k, open('/verif/known_findings.json', 'w'), indent=2)
