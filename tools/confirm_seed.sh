#!/bin/sh
# confirm_seed.sh <worktree> <seed-name> <property> <demo command (run inside worktree)>
# Confirms a sub-agent's seeded change: (1) with the change the pinned baseline still passes,
# (2) the demonstration fails with the change, (3) passes without it. Saves patch + demo under /verif/seeded/<name>/.
WT="$1"; NAME="$2"; PROP="$3"; DEMO="$4"
OUT=/verif/seeded/$NAME; mkdir -p "$OUT"
cd "$WT" || exit 2
git diff -- src > "$OUT/patch.diff"
[ -s "$OUT/patch.diff" ] || { echo "no source change in $WT"; exit 2; }
cp -r SEEDED.md "$OUT/" 2>/dev/null
[ -d demo ] && cp -r demo "$OUT/demo"
[ -f tests/seeded_demo.rs ] && cp tests/seeded_demo.rs "$OUT/seeded_demo.rs"
echo "== baseline with change"; REPO_DIR="$WT" /verif/tools/baseline_off.sh > "$OUT/baseline_with_change.txt" 2>&1; B=$?; tail -3 "$OUT/baseline_with_change.txt"
echo "== demo with change"; sh -c "$DEMO" > "$OUT/demo_with_change.txt" 2>&1; W=$?; tail -3 "$OUT/demo_with_change.txt"
git apply -R "$OUT/patch.diff" || exit 2
echo "== demo without change"; sh -c "$DEMO" > "$OUT/demo_without_change.txt" 2>&1; N=$?; tail -3 "$OUT/demo_without_change.txt"
git apply "$OUT/patch.diff"
echo "baseline_rc=$B demo_with=$W demo_without=$N"
python3 - "$OUT" "$NAME" "$PROP" "$B" "$W" "$N" "$DEMO" <<'PY'
import json,sys
out,name,prop,b,w,n,demo=sys.argv[1:]
ok = b=='0' and w!='0' and n=='0'
json.dump({"name":name,"property":prop,"confirmed":ok,"baseline_rc_with_change":int(b),"demo_rc_with_change":int(w),"demo_rc_without_change":int(n),
 "what_i_ran":["REPO_DIR=<worktree> /verif/tools/baseline_off.sh (all 75 pinned tests must pass with the change)", demo+" (with the change: must fail)", demo+" (change reverted: must pass)"],
 "needs_to_manifest":"see SEEDED.md","detected_by":[]}, open(out+'/meta.json','w'), indent=1)
print("CONFIRMED" if ok else "NOT CONFIRMED", name)
PY
