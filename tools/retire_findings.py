#!/usr/bin/env python3
"""Development helper (never run by a check): after a `fix:` commit in /repo, remove the listed
findings it repairs and add the `fixed:` line.  retire_findings.py <commit> "<what failed>" <PROP:substring-of-signature>..."""
import json, sys
commit, what, sels = sys.argv[1], sys.argv[2], sys.argv[3:]
k = json.load(open('/verif/known_findings.json'))
keep = []
props = []
for f in k['findings']:
    hit = any(f['property'] == s.split(':', 1)[0] and s.split(':', 1)[1] in f['signature'] for s in sels)
    if hit:
        print('retired', f['property'], f['signature'])
        if f['property'] not in props: props.append(f['property'])
    else:
        keep.append(f)
k['findings'] = keep
for p in props:
    k['fixed'].append(f"fixed: property={p} {commit} {what}")
json.dump(k, open('/verif/known_findings.json', 'w'), indent=1)
print(len(keep), 'findings remain')
