#!/bin/sh
# coverage.sh [tier] [ids...]: diagnostic only, never a verdict. Builds the engine with source-based coverage
# instrumentation (nightly toolchain, its llvm-tools), runs the given checks (default: all, quick tier) and
# reports which regions of /repo/src no enumerated case ever reached. The evidence directory is saved and
# restored, because evidence must come from the registered (uninstrumented) commands.
# Output: /verif/target/cov/report.txt (per file summary), /verif/target/cov/uncovered/<file>.txt (annotated lines with count 0)
cd /verif || exit 2
TIER="${1:-quick}"; shift
IDS="${*:-C01 C02 C03 C04 C05 C06 C07 C08 C09 C10 C11 C12 C13 C14 C15 C16 C17 C19 C20}"
export PATH=/verif/tools/bin:$PATH CARGO_NET_OFFLINE=true
export RUSTFLAGS="--cfg penne_verif --check-cfg cfg(penne_verif) -C instrument-coverage"
export CARGO_TARGET_DIR=/verif/target/cov
TOOLS=$(dirname "$(rustc +nightly --print target-libdir)")/bin
(cd engine && LLVM_PROFILE_FILE=/verif/target/cov/build-%p-%m.profraw cargo +nightly build --offline -q 2>/verif/target/cov-build.log) || { tail -30 /verif/target/cov-build.log; exit 2; }
rm -rf /verif/target/cov/prof /verif/target/cov/evidence.saved; mkdir -p /verif/target/cov/prof
cp -r evidence /verif/target/cov/evidence.saved
export LLVM_PROFILE_FILE=/verif/target/cov/prof/%p-%m.profraw
for ID in $IDS; do
  ./target/cov/debug/pvmc check "$ID" "$TIER" > /verif/target/cov/run_$ID.log 2>&1
  echo "$ID exit=$?"
done
rm -rf evidence; mv /verif/target/cov/evidence.saved evidence
"$TOOLS/llvm-profdata" merge -sparse /verif/target/cov/prof/*.profraw -o /verif/target/cov/merged.profdata || exit 2
rm -rf /verif/target/cov/prof
"$TOOLS/llvm-cov" report ./target/cov/debug/pvmc -instr-profile=/verif/target/cov/merged.profdata --sources /repo/src > /verif/target/cov/report.txt 2>&1
"$TOOLS/llvm-cov" show ./target/cov/debug/pvmc -instr-profile=/verif/target/cov/merged.profdata --sources /repo/src --show-line-counts-or-regions > /verif/target/cov/show.txt 2>&1
tail -5 /verif/target/cov/report.txt
