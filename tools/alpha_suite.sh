#!/bin/sh
# alpha_suite.sh: run /repo's feature-gated suite (alpha,llvm-sys) and compare the sorted per-test results with
# tools/alpha_suite_reference.txt (295 ok / 5 failed / 3 ignored on the pinned tree). Prints the differences.
cd "${REPO_DIR:-/repo}" || exit 2
out=$(mktemp /var/tmp/alpha.XXXXXX)
PATH=/verif/tools/bin:$PATH CARGO_NET_OFFLINE=true CARGO_TARGET_DIR=/verif/target/alpha-suite cargo test --offline --features alpha,llvm-sys --no-fail-fast >"$out" 2>&1
grep -E '^test [^ ]+ \.\.\. ' "$out" | sort > "$out.sorted"
diff /verif/tools/alpha_suite_reference.txt "$out.sorted" > "$out.diff"; rc=$?
echo "alpha suite: $(grep -c ' ok$' "$out.sorted") ok, $(grep -c 'FAILED$' "$out.sorted") failed; differences from reference:"; cat "$out.diff"
rm -f "$out" "$out.sorted" "$out.diff"
exit $rc
