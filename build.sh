#!/bin/sh
# Build the engine (and with it /repo's current working tree, hooks enabled). Offline.
set -e
export PATH=/verif/tools/bin:$PATH
export CARGO_NET_OFFLINE=true
export RUSTFLAGS="--cfg penne_verif --check-cfg cfg(penne_verif)"
export CARGO_TARGET_DIR=/verif/target/engine
if [ "$1" = "cli" ]; then
  unset RUSTFLAGS
  export CARGO_TARGET_DIR=/verif/target/cli
  mkdir -p /verif/target
  cd /repo
  cargo build --offline -q --features alpha,llvm-sys --bin penne 2>/verif/target/build-cli.log || { grep -v "^warning\|^ *|\|^ *=\|^ *-->\|^$" /verif/target/build-cli.log | head -80 >&2; exit 2; }
  exit 0
fi
cd /verif/engine
if [ "$1" = "release" ]; then
  cargo build --release --offline -q 2>/verif/target/build-release.log || { cat /verif/target/build-release.log >&2; exit 2; }
else
  mkdir -p /verif/target
  cargo build --offline -q 2>/verif/target/build.log || { grep -v "^warning\|^ *|\|^ *=\|^ *-->\|^$" /verif/target/build.log | head -80 >&2; exit 2; }
fi
