#!/bin/sh
# Build the framework from files on disk only (offline).
cd /verif || exit 2
./build.sh || exit 2
./build.sh release || exit 2
./build.sh cli || exit 2
echo "setup ok"
